use ats_smart_contract::contract::{execute, instantiate, query};
use ats_smart_contract::msg::{ExecuteMsg, InstantiateMsg, QueryMsg};
use cosmwasm_std::testing::{mock_env, mock_info, MockApi, MockStorage};
use cosmwasm_std::{coin, coins, Binary, Coin, ContractResult, Empty, OwnedDeps, SystemResult, Uint128, to_binary};
use prost::Message;
use provwasm_mocks::{mock_provenance_dependencies, MockProvenanceQuerier};
use provwasm_std::shim::Any;
use provwasm_std::types::cosmos::auth::v1beta1::BaseAccount;
use provwasm_std::types::provenance::marker::v1::{
    AccessGrant, MarkerAccount, MarkerStatus, MarkerType, QueryMarkerRequest, QueryMarkerResponse,
};
use provwasm_common::MockableQuerier;
use std::collections::HashMap;

type Deps = OwnedDeps<MockStorage, MockApi, MockProvenanceQuerier, Empty>;

fn marker_resp(denom: &str, t: MarkerType) -> QueryMarkerResponse {
    let m = MarkerAccount {
        base_account: Some(BaseAccount { address: format!("marker_{}", denom), pub_key: None, account_number: 10, sequence: 0 }),
        manager: "".into(),
        access_control: vec![AccessGrant { address: "x".into(), permissions: vec![1,2,3,4,5,6,7] }],
        status: MarkerStatus::Active.into(),
        denom: denom.into(), supply: "1000".into(), marker_type: t.into(), supply_fixed: false,
        allow_governance_control: true, allow_forced_transfer: false, required_attributes: vec![],
    };
    QueryMarkerResponse { marker: Some(Any { type_url: "/provenance.marker.v1.MarkerAccount".into(), value: m.encode_to_vec() }) }
}

fn setup(markers: Vec<(&'static str, bool)>) -> Deps {
    let mut deps = mock_provenance_dependencies();
    let table: HashMap<String, bool> = markers.into_iter().map(|(d, r)| (d.to_string(), r)).collect();
    deps.querier.register_custom_query(
        "/provenance.marker.v1.Query/Marker".to_string(),
        Box::new(move |data: &Binary| {
            let req = QueryMarkerRequest::decode(data.as_slice()).unwrap();
            match table.get(&req.id) {
                Some(true) => SystemResult::Ok(ContractResult::Ok(to_binary(&marker_resp(&req.id, MarkerType::Restricted)).unwrap())),
                Some(false) => SystemResult::Ok(ContractResult::Ok(to_binary(&marker_resp(&req.id, MarkerType::Coin)).unwrap())),
                None => SystemResult::Ok(ContractResult::Err("no marker".into())),
            }
        }),
    );
    deps
}

fn inst(deps: &mut Deps, prec: u128, inc: u128, ask_fee: Option<&str>, bid_fee: Option<&str>) {
    let r = instantiate(deps.as_mut(), mock_env(), mock_info("admin", &[]), InstantiateMsg {
        name: "ats".into(), base_denom: "base".into(), convertible_base_denoms: vec!["conv".into()],
        supported_quote_denoms: vec!["quote".into()], approvers: vec!["approver".into()], executors: vec!["exec".into()],
        ask_fee_rate: ask_fee.map(|s| s.to_string()), ask_fee_account: ask_fee.map(|_| "askfee".to_string()),
        bid_fee_rate: bid_fee.map(|s| s.to_string()), bid_fee_account: bid_fee.map(|_| "bidfee".to_string()),
        ask_required_attributes: vec![], bid_required_attributes: vec![],
        price_precision: Uint128::new(prec), size_increment: Uint128::new(inc),
    });
    println!("instantiate: {:?}", r.map(|r| r.attributes.len()));
}

const A1: &str = "ab5f5a62-f6fc-46d1-aa84-51ccc51ec367";
const B1: &str = "c13f8888-ca43-4a64-ab1b-1ca8d60aa49b";

fn show(tag: &str, r: Result<cosmwasm_std::Response, ats_smart_contract::error::ContractError>) {
    match r {
        Ok(r) => {
            println!("{} OK", tag);
            for m in &r.messages { println!("    msg {:?}", m.msg); }
            for a in &r.attributes { println!("    attr {}={}", a.key, a.value); }
        }
        Err(e) => println!("{} ERR {:?}", tag, e),
    }
}

fn main() {
    // D1: partial reject then cancel of approved convertible ask
    println!("== D1");
    let mut d = setup(vec![]);
    inst(&mut d, 0, 1, None, None);
    show("create_ask", execute(d.as_mut(), mock_env(), mock_info("seller", &coins(10, "conv")), ExecuteMsg::CreateAsk { id: A1.into(), base: "conv".into(), quote: "quote".into(), price: "2".into(), size: Uint128::new(10) }));
    show("approve", execute(d.as_mut(), mock_env(), mock_info("approver", &coins(10, "base")), ExecuteMsg::ApproveAsk { id: A1.into(), base: "base".into(), size: Uint128::new(10) }));
    show("reject 4", execute(d.as_mut(), mock_env(), mock_info("exec", &[]), ExecuteMsg::RejectAsk { id: A1.into(), size: Some(Uint128::new(4)) }));
    println!("  ask = {}", String::from_utf8(query(d.as_ref(), mock_env(), QueryMsg::GetAsk { id: A1.into() }).unwrap().to_vec()).unwrap());
    show("cancel", execute(d.as_mut(), mock_env(), mock_info("seller", &[]), ExecuteMsg::CancelAsk { id: A1.into() }));

    // D2: final fill at improved price whose fee rounds to zero
    println!("== D2");
    let mut d = setup(vec![]);
    inst(&mut d, 0, 1, None, Some("0.01"));
    // bid: price 100, size 1 => quote 100, fee 1
    show("create_bid", execute(d.as_mut(), mock_env(), mock_info("buyer", &coins(101, "quote")), ExecuteMsg::CreateBid { id: B1.into(), base: "base".into(), fee: Some(coin(1, "quote")), price: "100".into(), quote: "quote".into(), quote_size: Uint128::new(100), size: Uint128::new(1) }));
    show("create_ask", execute(d.as_mut(), mock_env(), mock_info("seller", &coins(1, "base")), ExecuteMsg::CreateAsk { id: A1.into(), base: "base".into(), quote: "quote".into(), price: "10".into(), size: Uint128::new(1) }));
    show("match@10", execute(d.as_mut(), mock_env(), mock_info("exec", &[]), ExecuteMsg::ExecuteMatch { ask_id: A1.into(), bid_id: B1.into(), price: "10".into(), size: Uint128::new(1) }));
    println!("  bid after = {:?}", query(d.as_ref(), mock_env(), QueryMsg::GetBid { id: B1.into() }).map(|b| String::from_utf8(b.to_vec()).unwrap()));

    // D3: fill 15 of 20 with increment 10 then cancel/expire bid
    println!("== D3");
    let mut d = setup(vec![]);
    inst(&mut d, 0, 10, None, None);
    show("create_bid", execute(d.as_mut(), mock_env(), mock_info("buyer", &coins(40, "quote")), ExecuteMsg::CreateBid { id: B1.into(), base: "base".into(), fee: None, price: "2".into(), quote: "quote".into(), quote_size: Uint128::new(40), size: Uint128::new(20) }));
    show("create_ask", execute(d.as_mut(), mock_env(), mock_info("seller", &coins(20, "base")), ExecuteMsg::CreateAsk { id: A1.into(), base: "base".into(), quote: "quote".into(), price: "2".into(), size: Uint128::new(20) }));
    show("match 15", execute(d.as_mut(), mock_env(), mock_info("exec", &[]), ExecuteMsg::ExecuteMatch { ask_id: A1.into(), bid_id: B1.into(), price: "2".into(), size: Uint128::new(15) }));
    show("cancel_bid", execute(d.as_mut(), mock_env(), mock_info("buyer", &[]), ExecuteMsg::CancelBid { id: B1.into() }));
    show("expire_bid", execute(d.as_mut(), mock_env(), mock_info("exec", &[]), ExecuteMsg::ExpireBid { id: B1.into() }));
    show("expire_ask", execute(d.as_mut(), mock_env(), mock_info("exec", &[]), ExecuteMsg::ExpireAsk { id: A1.into() }));
    show("cancel_ask", execute(d.as_mut(), mock_env(), mock_info("seller", &[]), ExecuteMsg::CancelAsk { id: A1.into() }));

    // D4: mixed marker types base restricted, conv unrestricted, match convertible
    println!("== D4");
    let mut d = setup(vec![("base", true), ("conv", false), ("quote", false)]);
    inst(&mut d, 0, 1, None, None);
    show("create_ask", execute(d.as_mut(), mock_env(), mock_info("seller", &coins(10, "conv")), ExecuteMsg::CreateAsk { id: A1.into(), base: "conv".into(), quote: "quote".into(), price: "2".into(), size: Uint128::new(10) }));
    show("approve", execute(d.as_mut(), mock_env(), mock_info("approver", &[]), ExecuteMsg::ApproveAsk { id: A1.into(), base: "base".into(), size: Uint128::new(10) }));
    show("create_bid", execute(d.as_mut(), mock_env(), mock_info("buyer", &coins(20, "quote")), ExecuteMsg::CreateBid { id: B1.into(), base: "base".into(), fee: None, price: "2".into(), quote: "quote".into(), quote_size: Uint128::new(20), size: Uint128::new(10) }));
    show("match", execute(d.as_mut(), mock_env(), mock_info("exec", &[]), ExecuteMsg::ExecuteMatch { ask_id: A1.into(), bid_id: B1.into(), price: "2".into(), size: Uint128::new(10) }));

    // D5: ask fee swallowing all proceeds -> zero send
    println!("== D5");
    let mut d = setup(vec![]);
    inst(&mut d, 0, 1, Some("0.5"), None);
    show("create_bid", execute(d.as_mut(), mock_env(), mock_info("buyer", &coins(1, "quote")), ExecuteMsg::CreateBid { id: B1.into(), base: "base".into(), fee: None, price: "1".into(), quote: "quote".into(), quote_size: Uint128::new(1), size: Uint128::new(1) }));
    show("create_ask", execute(d.as_mut(), mock_env(), mock_info("seller", &coins(1, "base")), ExecuteMsg::CreateAsk { id: A1.into(), base: "base".into(), quote: "quote".into(), price: "1".into(), size: Uint128::new(1) }));
    show("match", execute(d.as_mut(), mock_env(), mock_info("exec", &[]), ExecuteMsg::ExecuteMatch { ask_id: A1.into(), bid_id: B1.into(), price: "1".into(), size: Uint128::new(1) }));
}
