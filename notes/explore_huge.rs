use ats_smart_contract::contract::{execute, instantiate, query};
use ats_smart_contract::msg::{ExecuteMsg, InstantiateMsg, QueryMsg};
use cosmwasm_std::testing::{mock_env, mock_info};
use cosmwasm_std::{coins, Uint128};
use provwasm_mocks::mock_provenance_dependencies;
const A1: &str = "ab5f5a62-f6fc-46d1-aa84-51ccc51ec367";
const B1: &str = "c13f8888-ca43-4a64-ab1b-1ca8d60aa49b";
fn main(){
    let mut d = mock_provenance_dependencies();
    instantiate(d.as_mut(), mock_env(), mock_info("admin", &[]), InstantiateMsg {
        name: "ats".into(), base_denom: "base".into(), convertible_base_denoms: vec![],
        supported_quote_denoms: vec!["quote".into()], approvers: vec![], executors: vec!["exec".into()],
        ask_fee_rate: None, ask_fee_account: None, bid_fee_rate: None, bid_fee_account: None,
        ask_required_attributes: vec![], bid_required_attributes: vec![],
        price_precision: Uint128::new(1), size_increment: Uint128::new(10) }).unwrap();
    let s: u128 = 10_600_000_000_000_000_000_000_000_000;
    let q: u128 = 15_900_000_000_000_000_000_000_000_000;
    let e: u128 = 5_300_000_000_000_000_000_000_000_001;
    println!("bid {:?}", execute(d.as_mut(), mock_env(), mock_info("buyer", &coins(q, "quote")), ExecuteMsg::CreateBid { id: B1.into(), base: "base".into(), fee: None, price: "1.5".into(), quote: "quote".into(), quote_size: Uint128::new(q), size: Uint128::new(s) }).map(|r| r.messages.len()));
    println!("ask {:?}", execute(d.as_mut(), mock_env(), mock_info("seller", &coins(s, "base")), ExecuteMsg::CreateAsk { id: A1.into(), base: "base".into(), quote: "quote".into(), price: "1.5".into(), size: Uint128::new(s) }).map(|r| r.messages.len()));
    let r = execute(d.as_mut(), mock_env(), mock_info("exec", &[]), ExecuteMsg::ExecuteMatch { ask_id: A1.into(), bid_id: B1.into(), price: "1.5".into(), size: Uint128::new(e) });
    match r { Ok(r) => for m in r.messages { println!("  {:?}", m.msg) }, Err(e) => println!("match err {:?}", e) }
    println!("bid = {}", String::from_utf8(query(d.as_ref(), mock_env(), QueryMsg::GetBid { id: B1.into() }).unwrap().to_vec()).unwrap());
}
