use rust_decimal::prelude::*;
use rust_decimal::{Decimal, RoundingStrategy};
struct R(u64);
impl R { fn next(&mut self)->u64{ self.0^=self.0<<13; self.0^=self.0>>7; self.0^=self.0<<17; self.0 } 
 fn big(&mut self)->u128{ let bits = self.next()%96+1; let v=((self.next() as u128)<<64)|self.next() as u128; v & ((1u128<<bits)-1) } }
fn main(){
  let mut r=R(88172645463325252);
  // ratio + feeFor cases: a<=b, fee
  for i in 0..200000 {
    let mut b=r.big(); if b==0 {b=1;} let mut a=r.big()% (b+1);
    if i%7==0 { a=b; } if i%11==0 { a=0; }
    if i%3==0 { b = (r.next()%1000+1) as u128; a = (r.next() as u128)%(b+1); }
    let fee = if i%2==0 { (r.next()%100000) as u128 } else { r.big() };
    let ratio = Decimal::from_u128(a).unwrap().checked_div(Decimal::from_u128(b).unwrap()).unwrap();
    let prod = ratio.checked_mul(Decimal::from_u128(fee).unwrap());
    let (ps, fs) = match prod { Some(p)=>{ let f=p.round_dp_with_strategy(0,RoundingStrategy::MidpointAwayFromZero).to_u128(); (format!("{} {}", p.mantissa(), p.scale()), format!("{:?}", f)) }, None=>("ovf".into(),"ovf".into()) };
    println!("R {} {} {} {} {} | {} | {}", a,b,fee, ratio.mantissa(), ratio.scale(), ps, fs);
  }
  // generic mul of (mant,scale)x(mant,scale)
  for _ in 0..200000 {
    let m1=r.big(); let s1=(r.next()%29) as u32; let m2=r.big(); let s2=(r.next()%29) as u32;
    let d1=Decimal::from_i128_with_scale(m1 as i128, s1); let d2=Decimal::from_i128_with_scale(m2 as i128,s2);
    match d1.checked_mul(d2){ Some(p)=>println!("M {} {} {} {} {} {}",m1,s1,m2,s2,p.mantissa(),p.scale()), None=>println!("M {} {} {} {} ovf",m1,s1,m2,s2)}
  }
}
