import sys
LIM = 1<<96
def rhe(n, d):  # round half even of n/d
    q, r = divmod(n, d)
    if 2*r > d or (2*r == d and q & 1): q += 1
    return q
def strip(m, s):
    while s > 0 and m % 10 == 0 and m != 0:
        m //= 10; s -= 1
    return m, s
def ratio(a, b):
    if a == 0: return (0, 0)
    # find max scale s<=28 s.t. quotient fits: a<=b so quotient<=1
    # exact?
    s = 0
    # emulate: increase scale until remainder 0 or s==28
    # value = a*10^s / b
    for s in range(0, 29):
        if (a * 10**s) % b == 0:
            return (a*10**s//b, s)   # exact at minimal scale -> no trailing zeros
    m = rhe(a * 10**28, b)
    return strip(m, 28)
def mul(m1, s1, m2, s2):
    if m1 == 0 or m2 == 0: return (0, 0)
    P = m1*m2; s = s1+s2
    k = max(0, s-28)
    while True:
        if k > s: return None
        m = rhe(P, 10**k)
        if m < LIM: 
            return (m, s-k)
        k += 1
def rha0(m, s):
    d = 10**s
    return (2*m + d)//(2*d)
bad = 0; n=0
for line in open(sys.argv[1]):
    t = line.split()
    n+=1
    if t[0] == 'R':
        a,b,fee,rm,rs = int(t[1]),int(t[2]),int(t[3]),int(t[4]),int(t[5])
        em, es = ratio(a,b)
        if em*10**rs != rm*10**es:
            bad+=1
            if bad<10: print("RATIO", line.strip(), em, es)
            continue
        p = mul(rm, rs, fee, 0)
        got = t[7:]
        if p is None:
            if got[0]!='ovf': bad+=1; print("MULOVF", line.strip())
            continue
        exp = p
        g = (int(got[0]), int(got[1])) if got[0]!='ovf' else None
        if g is None or exp[0]*10**g[1] != g[0]*10**exp[1]:
            bad+=1
            if bad<10: print("FEEMUL", line.strip(), exp)
            continue
        f = rha0(*p)
        if f"Some({f})" != got[3]:
            bad+=1
            if bad<10: print("RHA", line.strip(), f)
    else:
        m1,s1,m2,s2 = map(int,t[1:5])
        p = mul(m1,s1,m2,s2)
        g = None if t[5]=='ovf' else (int(t[5]), int(t[6]))
        if (p is None) != (g is None) or (p is not None and p[0]*10**g[1] != g[0]*10**p[1]):
            bad+=1
            if bad<20: print("MUL", line.strip(), p)
print("cases",n,"bad",bad)
