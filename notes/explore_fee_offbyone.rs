use rust_decimal::prelude::*;
use rust_decimal::{Decimal, RoundingStrategy};
fn main(){
  for (q,qq,f) in [(828079463750856u128,2888046710984459u128,9952633520079u128),(3453005723811434,3866936122579851,4668289121111),(73313199156257,3173059672256527,7833078803071)] {
    let ratio = Decimal::from_u128(q).unwrap().checked_div(Decimal::from_u128(qq).unwrap()).unwrap();
    let r = ratio.checked_mul(Decimal::from_u128(f).unwrap()).unwrap().round_dp_with_strategy(0, RoundingStrategy::MidpointAwayFromZero).to_u128().unwrap();
    println!("q={} Q={} F={} contract={}", q,qq,f,r);
  }
}
