#!/bin/sh
# finalize.sh — regenerate every evidence file from /repo's working tree (quick tier), rebuild
# MANIFEST.json and validate both against the task's schemas.  Not a registered command.
set -e
cd "$(dirname "$0")"
for p in C01 C02 C03 C04 C05 C06 C07 C08 C09 C10 C11 C12 C13 C14 C15 C16 C17; do
  ./check $p --tier quick 2>&1 | grep -E "^OK|^VIOLATION|^KNOWN" | cut -c1-140
done
python3 gen_manifest.py
python3-vt - <<'PY'
import json, jsonschema, glob
jsonschema.validate(json.load(open('MANIFEST.json')), json.load(open('/root/.vp/MANIFEST.schema.json')))
sch = json.load(open('/root/.vp/EVIDENCE.schema.json'))
for f in sorted(glob.glob('evidence/C*.json')):
    jsonschema.validate(json.load(open(f)), sch)
print('manifest + %d evidence files valid' % len(glob.glob('evidence/C*.json')))
PY
