//! Exhaustive small-scope exploration: breadth-first over every state reachable from
//! instantiation in a small universe (a fixed configuration, four order ids, two prices per
//! side, sizes of one or two lots and the halves / remainders fills produce, every request kind
//! from every relevant sender).  From each distinct state every request of the state-dependent
//! alphabet is *attempted* on a copy (`Step::Try`), judged by the driver exactly like an executed
//! request, and every accepted one yields a successor state.  Complements the random histories:
//! within the scope every interleaving is covered, deterministically.
use crate::gen::D;
use crate::hist::{History, SeedState, Start, Step};
use crate::world::{decode_entry, raw_dump, Entry, Stats, World};
use ats_smart_contract::ask_order::{AskOrderClass, AskOrderStatus, AskOrderV1};
use ats_smart_contract::bid_order::BidOrderV3;
use ats_smart_contract::contract_info::ContractInfoV3;
use ats_smart_contract::msg::{ExecuteMsg, InstantiateMsg, QueryMsg};
use cosmwasm_std::{coin, Coin, Uint128};
use std::collections::{BTreeMap, HashMap};

pub const A1: &str = "00000000-0000-4000-8000-0000000000a1";
pub const A2: &str = "00000000-0000-4000-8000-0000000000a2";
pub const B1: &str = "00000000-0000-4000-8000-0000000000b1";
pub const B2: &str = "00000000-0000-4000-8000-0000000000b2";

pub struct Scope {
    pub name: &'static str,
    pub inst: InstantiateMsg,
    pub markers: BTreeMap<String, u8>,
    pub attrs: BTreeMap<String, Option<Vec<String>>>,
    pub ask_prices: Vec<&'static str>,
    pub bid_prices: Vec<&'static str>,
    pub seller: &'static str,
    pub seller2: &'static str,
    pub buyer: &'static str,
    pub approver: &'static str,
    pub exec: &'static str,
}

fn s(x: &str) -> String {
    x.to_string()
}

pub fn scopes() -> Vec<Scope> {
    let base_inst = |prec: u32, inc: u128, ask: Option<(&str, &str)>, bid: Option<(&str, &str)>| InstantiateMsg {
        name: s("bfs"),
        base_denom: s("base"),
        convertible_base_denoms: vec![s("conv1")],
        supported_quote_denoms: vec![s("quote1")],
        approvers: vec![s("approver1")],
        executors: vec![s("exec1")],
        ask_fee_rate: ask.map(|x| s(x.0)),
        ask_fee_account: ask.map(|x| s(x.1)),
        bid_fee_rate: bid.map(|x| s(x.0)),
        bid_fee_account: bid.map(|x| s(x.1)),
        ask_required_attributes: vec![],
        bid_required_attributes: vec![],
        price_precision: Uint128::new(prec as u128),
        size_increment: Uint128::new(inc),
    };
    let mut v = vec![];
    // 0: fees on both sides, fractional prices, plain coins
    v.push(Scope {
        name: "fees",
        inst: base_inst(1, 10, Some(("0.05", "askfee1")), Some(("0.1", "bidfee1"))),
        markers: BTreeMap::new(),
        attrs: BTreeMap::new(),
        ask_prices: vec!["2", "2.5"],
        bid_prices: vec!["2.5", "3"],
        seller: "seller1",
        seller2: "seller2",
        buyer: "buyer1",
        approver: "approver1",
        exec: "exec1",
    });
    // 1: a restricted marker for the base denomination only (quote and convertible are plain coins),
    //    required attributes on the ask side (seller2 lacks them)
    let mut m1 = BTreeMap::new();
    m1.insert(s("base"), 2u8);
    m1.insert(s("quote1"), 1u8);
    m1.insert(s("conv1"), 1u8);
    let mut a1 = BTreeMap::new();
    a1.insert(s("seller1"), Some(vec![s("kyc"), s("accred")]));
    // seller2 holds one required attribute twice and lacks the other
    a1.insert(s("seller2"), Some(vec![s("kyc"), s("kyc")]));
    a1.insert(s("mallory"), Some(vec![]));
    let mut i1 = base_inst(0, 1, None, Some(("0.333", "bidfee1")));
    i1.ask_required_attributes = vec![s("kyc"), s("accred")];
    v.push(Scope {
        name: "restricted",
        inst: i1,
        markers: m1,
        attrs: a1,
        ask_prices: vec!["1", "3"],
        bid_prices: vec!["3", "4"],
        seller: "seller1",
        seller2: "seller2",
        buyer: "buyer1",
        approver: "approver1",
        exec: "exec1",
    });
    // 2: overlapping roles (the approver sells and is the ask-fee account, the executor buys), the
    //    base denomination listed among the convertible ones, convertible and quote restricted
    let mut i2 = base_inst(2, 100, Some(("0.5", "approver1")), None);
    i2.convertible_base_denoms = vec![s("conv1"), s("base")];
    let mut m2 = BTreeMap::new();
    m2.insert(s("conv1"), 2u8);
    m2.insert(s("quote1"), 2u8);
    v.push(Scope {
        name: "overlap",
        inst: i2,
        markers: m2,
        attrs: BTreeMap::new(),
        ask_prices: vec!["0.01", "0.25"],
        bid_prices: vec!["0.25", "1"],
        seller: "approver1",
        seller2: "approver1",
        buyer: "exec1",
        approver: "approver1",
        exec: "exec1",
    });
    // 3: one-unit fees (rates of 1 % on totals of 30 … 100): fee shares that round to 0 or to the
    //    whole fee, bids whose fee is used up while base remains
    v.push(Scope {
        name: "tinyfee",
        inst: base_inst(0, 10, Some(("0.01", "askfee1")), Some(("0.01", "bidfee1"))),
        markers: BTreeMap::new(),
        attrs: BTreeMap::new(),
        ask_prices: vec!["3", "5"],
        bid_prices: vec!["5", "6"],
        seller: "seller1",
        seller2: "seller2",
        buyer: "buyer1",
        approver: "approver1",
        exec: "exec1",
    });
    v
}

fn marker(sc: &Scope, d: &str) -> u8 {
    sc.markers.get(d).copied().unwrap_or(0)
}

fn funds_for(sc: &Scope, d: &str, n: u128) -> Vec<Coin> {
    if marker(sc, d) == 2 {
        vec![]
    } else {
        vec![coin(n, d)]
    }
}

fn ex(sender: &str, funds: Vec<Coin>, msg: ExecuteMsg) -> Step {
    Step::Try { sender: sender.to_string(), funds, msg }
}

/// every request worth attempting from this state
/// the same number with 29 fractional digits
fn long_form(p: &str) -> String {
    let (int, frac) = match p.split_once('.') {
        Some((a, b)) => (a, b),
        None => (p, ""),
    };
    format!("{}.{}{}", int, frac, "0".repeat(29usize.saturating_sub(frac.len())))
}

pub fn alphabet(sc: &Scope, asks: &[(String, AskOrderV1)], bids: &[(String, BidOrderV3)], info: &ContractInfoV3) -> Vec<Step> {
    let mut v = vec![];
    let inc = info.size_increment.u128().max(1);
    let sizes = [inc, 2 * inc];
    let has = |k: &str| asks.iter().any(|(x, _)| x == k);
    let hasb = |k: &str| bids.iter().any(|(x, _)| x == k);
    let quote = info.supported_quote_denoms[0].clone();
    // create asks
    if !has(A1) {
        for p in &sc.ask_prices {
            for sz in sizes {
                v.push(ex(sc.seller, funds_for(sc, &info.base_denom, sz), ExecuteMsg::CreateAsk { id: s(A1), base: info.base_denom.clone(), quote: quote.clone(), price: s(p), size: Uint128::new(sz) }));
            }
        }
        // one unit short / the other mechanism
        v.push(ex(sc.seller, vec![coin(sizes[0] - 1, info.base_denom.clone())], ExecuteMsg::CreateAsk { id: s(A1), base: info.base_denom.clone(), quote: quote.clone(), price: s(sc.ask_prices[0]), size: Uint128::new(sizes[0]) }));
        v.push(ex(sc.seller, if marker(sc, &info.base_denom) == 2 { vec![coin(sizes[0], info.base_denom.clone())] } else { vec![] }, ExecuteMsg::CreateAsk { id: s(A1), base: info.base_denom.clone(), quote: quote.clone(), price: s(sc.ask_prices[0]), size: Uint128::new(sizes[0]) }));
        v.push(ex("mallory", funds_for(sc, &info.base_denom, sizes[0]), ExecuteMsg::CreateAsk { id: s(A1), base: info.base_denom.clone(), quote: quote.clone(), price: s(sc.ask_prices[0]), size: Uint128::new(sizes[0] + 1) }));
    } else {
        // the id is taken
        v.push(ex(sc.seller, funds_for(sc, &info.base_denom, sizes[0]), ExecuteMsg::CreateAsk { id: s(A1), base: info.base_denom.clone(), quote: quote.clone(), price: s(sc.ask_prices[0]), size: Uint128::new(sizes[0]) }));
    }
    // an id that is taken on the *other* side of the book is free on this one
    if hasb(B1) && !has(B1) {
        v.push(ex(sc.seller, funds_for(sc, &info.base_denom, sizes[0]), ExecuteMsg::CreateAsk { id: s(B1), base: info.base_denom.clone(), quote: quote.clone(), price: s(sc.ask_prices[0]), size: Uint128::new(sizes[0]) }));
    }
    // sizes off the increment grid, otherwise consistent (funds, totals, fee)
    if inc >= 2 {
        let off = inc + inc / 2;
        if !has(A1) {
            v.push(ex(sc.seller, funds_for(sc, &info.base_denom, off), ExecuteMsg::CreateAsk { id: s(A1), base: info.base_denom.clone(), quote: quote.clone(), price: s(sc.ask_prices[0]), size: Uint128::new(off) }));
        }
        if !hasb(B1) {
            if let Some(total) = D::parse(sc.bid_prices[1]).and_then(|d| d.times(off)) {
                let fee_amt = info.bid_fee_info.as_ref().and_then(|f| D::parse(&f.rate)).and_then(|r| r.fee_of(total)).unwrap_or(0);
                let fee = if fee_amt > 0 { Some(coin(fee_amt, quote.clone())) } else { None };
                v.push(ex(sc.buyer, funds_for(sc, &quote, total + fee_amt), ExecuteMsg::CreateBid { id: s(B1), base: info.base_denom.clone(), fee, price: s(sc.bid_prices[1]), quote: quote.clone(), quote_size: Uint128::new(total), size: Uint128::new(off) }));
            }
        }
    }
    if !has(A2) {
        for sz in sizes {
            // the convertible ask's price in its long form (29 fractional digits: `from_str` rounds it back)
            v.push(ex(sc.seller2, funds_for(sc, "conv1", sz), ExecuteMsg::CreateAsk { id: s(A2), base: s("conv1"), quote: quote.clone(), price: long_form(sc.ask_prices[1]), size: Uint128::new(sz) }));
        }
    }
    // create bids
    let rate = info.bid_fee_info.as_ref().and_then(|f| D::parse(&f.rate));
    // a bid id that is taken: a second, fully funded bid under it from somebody else
    if hasb(B1) {
        if let Some(total) = D::parse(sc.bid_prices[0]).and_then(|d| d.times(sizes[0])) {
            let fee_amt = rate.and_then(|r| r.fee_of(total)).unwrap_or(0);
            let fee = if fee_amt > 0 { Some(coin(fee_amt, quote.clone())) } else { None };
            v.push(ex("mallory", funds_for(sc, &quote, total + fee_amt), ExecuteMsg::CreateBid { id: s(B1), base: info.base_denom.clone(), fee, price: s(sc.bid_prices[0]), quote: quote.clone(), quote_size: Uint128::new(total), size: Uint128::new(sizes[0]) }));
        }
    }
    // the second bid's price is written in its long form
    let long0 = long_form(sc.bid_prices[0]);
    let long_prices = [long0.as_str()];
    for (id, prices) in [(B1, &sc.bid_prices[..]), (B2, &long_prices[..]), (A1, &sc.bid_prices[..1])] {
        if hasb(id) || (id == A1 && !has(A1)) {
            continue;
        }
        for p in prices {
            for sz in sizes {
                let d = match D::parse(p) {
                    Some(d) => d,
                    None => continue,
                };
                let total = match d.times(sz) {
                    Some(t) => t,
                    None => continue,
                };
                let fee_amt = rate.and_then(|r| r.fee_of(total)).unwrap_or(0);
                let fee = if fee_amt > 0 { Some(coin(fee_amt, quote.clone())) } else { None };
                v.push(ex(sc.buyer, funds_for(sc, &quote, total + fee_amt), ExecuteMsg::CreateBid { id: s(id), base: info.base_denom.clone(), fee: fee.clone(), price: s(p), quote: quote.clone(), quote_size: Uint128::new(total), size: Uint128::new(sz) }));
                if id == B1 && sz == sizes[0] {
                    // fee one unit off, fee omitted
                    v.push(ex(sc.buyer, funds_for(sc, &quote, total + fee_amt + 1), ExecuteMsg::CreateBid { id: s(id), base: info.base_denom.clone(), fee: Some(coin(fee_amt + 1, quote.clone())), price: s(p), quote: quote.clone(), quote_size: Uint128::new(total), size: Uint128::new(sz) }));
                    v.push(ex(sc.buyer, funds_for(sc, &quote, total), ExecuteMsg::CreateBid { id: s(id), base: info.base_denom.clone(), fee: None, price: s(p), quote: quote.clone(), quote_size: Uint128::new(total), size: Uint128::new(sz) }));
                }
            }
        }
    }
    // approvals
    for (k, a) in asks {
        if let AskOrderClass::Convertible { .. } = a.class {
            let sz = a.size.u128();
            v.push(ex(sc.approver, funds_for(sc, &info.base_denom, sz), ExecuteMsg::ApproveAsk { id: k.clone(), base: info.base_denom.clone(), size: a.size }));
            v.push(ex("mallory", funds_for(sc, &info.base_denom, sz), ExecuteMsg::ApproveAsk { id: k.clone(), base: info.base_denom.clone(), size: a.size }));
            v.push(ex(sc.approver, funds_for(sc, &info.base_denom, sz + inc), ExecuteMsg::ApproveAsk { id: k.clone(), base: info.base_denom.clone(), size: Uint128::new(sz + inc) }));
        } else {
            v.push(ex(sc.approver, funds_for(sc, &info.base_denom, a.size.u128()), ExecuteMsg::ApproveAsk { id: k.clone(), base: info.base_denom.clone(), size: a.size }));
        }
    }
    // matches
    for (ak, a) in asks {
        for (bk, b) in bids {
            let rem = b.base.amount.u128().saturating_sub(b.accumulated_base.u128());
            let m = a.size.u128().min(rem);
            let mut prices = vec![a.price.clone()];
            if b.price != a.price {
                prices.push(b.price.clone());
            }
            for p in &prices {
                let mut szs = vec![m, inc];
                if inc >= 2 {
                    szs.push(inc / 2);
                }
                szs.push(m + 1);
                // one and two units: the price improvement on so small a fill is less than a unit, its
                // fee share rounds to nothing
                szs.push(1);
                szs.push(2);
                szs.sort();
                szs.dedup();
                for sz in szs {
                    if sz == 0 {
                        continue;
                    }
                    v.push(ex(sc.exec, vec![], ExecuteMsg::ExecuteMatch { ask_id: ak.clone(), bid_id: bk.clone(), price: p.clone(), size: Uint128::new(sz) }));
                }
            }
            v.push(ex("mallory", vec![], ExecuteMsg::ExecuteMatch { ask_id: ak.clone(), bid_id: bk.clone(), price: a.price.clone(), size: Uint128::new(m) }));
            v.push(ex(sc.approver, vec![], ExecuteMsg::ExecuteMatch { ask_id: ak.clone(), bid_id: bk.clone(), price: a.price.clone(), size: Uint128::new(m) }));
        }
    }
    // exits and rejects
    for (k, a) in asks {
        v.push(ex(a.owner.as_str(), vec![], ExecuteMsg::CancelAsk { id: k.clone() }));
        v.push(ex(sc.exec, vec![], ExecuteMsg::CancelAsk { id: k.clone() }));
        v.push(ex("mallory", vec![], ExecuteMsg::CancelAsk { id: k.clone() }));
        v.push(ex(sc.exec, vec![], ExecuteMsg::ExpireAsk { id: k.clone() }));
        v.push(ex(a.owner.as_str(), vec![], ExecuteMsg::ExpireAsk { id: k.clone() }));
        for sz in [None, Some(inc), Some(a.size.u128()), Some(a.size.u128() + inc)] {
            v.push(ex(sc.exec, vec![], ExecuteMsg::RejectAsk { id: k.clone(), size: sz.map(Uint128::new) }));
        }
        v.push(ex(a.owner.as_str(), vec![], ExecuteMsg::RejectAsk { id: k.clone(), size: None }));
    }
    for (k, b) in bids {
        let rem = b.base.amount.u128().saturating_sub(b.accumulated_base.u128());
        v.push(ex(b.owner.as_str(), vec![], ExecuteMsg::CancelBid { id: k.clone() }));
        v.push(ex("mallory", vec![], ExecuteMsg::CancelBid { id: k.clone() }));
        v.push(ex(sc.approver, vec![], ExecuteMsg::CancelBid { id: k.clone() }));
        v.push(ex(sc.exec, vec![], ExecuteMsg::ExpireBid { id: k.clone() }));
        v.push(ex("mallory", vec![], ExecuteMsg::ExpireBid { id: k.clone() }));
        for sz in [None, Some(inc), Some(rem), Some(rem + inc)] {
            v.push(ex(sc.exec, vec![], ExecuteMsg::RejectBid { id: k.clone(), size: sz.map(Uint128::new) }));
        }
        v.push(ex("mallory", vec![], ExecuteMsg::RejectBid { id: k.clone(), size: Some(Uint128::new(inc)) }));
    }
    // an open order addressed by another spelling of its id (no order is stored under that key)
    for (k, a) in asks {
        let plain: String = k.chars().filter(|c| *c != '-').collect();
        v.push(ex(a.owner.as_str(), vec![], ExecuteMsg::CancelAsk { id: plain.clone() }));
        v.push(ex(sc.exec, vec![], ExecuteMsg::ExpireAsk { id: k.to_uppercase() }));
        v.push(ex(sc.exec, vec![], ExecuteMsg::RejectAsk { id: plain, size: None }));
    }
    for (k, b) in bids {
        let plain: String = k.chars().filter(|c| *c != '-').collect();
        v.push(ex(b.owner.as_str(), vec![], ExecuteMsg::CancelBid { id: plain.clone() }));
        v.push(ex(sc.exec, vec![], ExecuteMsg::ExpireBid { id: k.to_uppercase() }));
        v.push(ex(sc.exec, vec![], ExecuteMsg::RejectBid { id: plain, size: Some(Uint128::new(inc)) }));
    }
    // an id used on both sides: the owner of the order on the other side tries to cancel this one
    for (k, a) in asks {
        if let Some((_, b)) = bids.iter().find(|(bk, _)| bk == k) {
            v.push(ex(b.owner.as_str(), vec![], ExecuteMsg::CancelAsk { id: k.clone() }));
            v.push(ex(a.owner.as_str(), vec![], ExecuteMsg::CancelBid { id: k.clone() }));
        }
    }
    // configuration changes
    let modify = |ap: Option<Vec<&str>>, exs: Option<Vec<&str>>, ar: Option<&str>, aa: Option<&str>, br: Option<&str>, ba: Option<&str>, at: Option<Vec<&str>>, bt: Option<Vec<&str>>| ExecuteMsg::ModifyContract {
        approvers: ap.map(|l| l.into_iter().map(s).collect()),
        executors: exs.map(|l| l.into_iter().map(s).collect()),
        ask_fee_rate: ar.map(s),
        ask_fee_account: aa.map(s),
        bid_fee_rate: br.map(s),
        bid_fee_account: ba.map(s),
        ask_required_attributes: at.map(|l| l.into_iter().map(s).collect()),
        bid_required_attributes: bt.map(|l| l.into_iter().map(s).collect()),
    };
    let cur_ask = info.ask_fee_info.as_ref().map(|f| f.rate.clone());
    let cur_bid = info.bid_fee_info.as_ref().map(|f| f.rate.clone());
    let respelled_ask = cur_ask.as_ref().map(|r| if r.contains('.') { format!("{}0", r) } else { format!("{}.0", r) });
    let respelled_bid = cur_bid.as_ref().map(|r| if r.contains('.') { format!("{}0", r) } else { format!("{}.0", r) });
    v.push(ex(sc.exec, vec![], modify(None, None, respelled_ask.as_deref().or(Some("0.05")), Some("askfee2"), None, None, None, None)));
    v.push(ex(sc.exec, vec![], modify(None, None, Some("0.07"), Some("askfee1"), None, None, None, None)));
    v.push(ex(sc.exec, vec![], modify(None, None, None, None, respelled_bid.as_deref().or(Some("0.1")), Some("bidfee2"), None, None)));
    v.push(ex(sc.exec, vec![], modify(None, None, None, None, Some("0.2"), Some("bidfee1"), None, None)));
    v.push(ex(sc.exec, vec![], modify(None, None, Some(""), Some(""), None, None, None, None)));
    // the same rate with an empty account; the rate written with one decimal place fewer
    v.push(ex(sc.exec, vec![], modify(None, None, cur_ask.as_deref().or(Some("0.05")), Some(""), None, None, None, None)));
    v.push(ex(sc.exec, vec![], modify(None, None, None, None, cur_bid.as_deref().or(Some("0.1")), Some(""), None, None)));
    let shorter = |r: &Option<String>| r.as_ref().and_then(|x| D::parse(x)).and_then(|d| if d.s == 0 { None } else { Some(D { m: (d.m + 5) / 10, s: d.s - 1 }.render()) });
    let finer = |r: &Option<String>| r.as_ref().and_then(|x| D::parse(x)).map(|d| D { m: d.m * 10 + 4, s: d.s + 1 }.render());
    if let Some(x) = finer(&cur_ask) {
        v.push(ex(sc.exec, vec![], modify(None, None, Some(&x), Some("askfee1"), None, None, None, None)));
    }
    if let Some(x) = finer(&cur_bid) {
        v.push(ex(sc.exec, vec![], modify(None, None, None, None, Some(&x), Some("bidfee1"), None, None)));
    }
    if let Some(x) = shorter(&cur_ask) {
        v.push(ex(sc.exec, vec![], modify(None, None, Some(&x), Some("askfee1"), None, None, None, None)));
    }
    if let Some(x) = shorter(&cur_bid) {
        v.push(ex(sc.exec, vec![], modify(None, None, None, None, Some(&x), Some("bidfee1"), None, None)));
    }
    v.push(ex(sc.exec, vec![], modify(Some(vec!["approver2"]), None, None, None, None, None, None, None)));
    v.push(ex(sc.exec, vec![], modify(None, None, None, None, None, None, Some(vec![]), None)));
    v.push(ex(sc.exec, vec![], modify(None, None, None, None, None, None, None, Some(vec!["accred"]))));
    v.push(ex("mallory", vec![], modify(None, Some(vec!["mallory"]), None, None, None, None, None, None)));
    v.push(ex(sc.exec, vec![coin(1, "quote1")], modify(None, None, None, None, None, None, None, None)));
    v.push(ex(sc.exec, vec![], modify(None, None, None, None, None, None, None, None)));
    // each side's rate set to the other side's current rate
    v.push(ex(sc.exec, vec![], modify(None, None, cur_bid.as_deref().or(Some("0.1")), Some("askfee1"), None, None, None, None)));
    v.push(ex(sc.exec, vec![], modify(None, None, None, None, cur_ask.as_deref().or(Some("0.05")), Some("bidfee1"), None, None)));
    v
}

fn extract(w: &World) -> Option<SeedState> {
    let mut asks = vec![];
    let mut bids3 = vec![];
    let mut info = None;
    let mut version = None;
    for (k, v) in raw_dump(&w.deps.storage) {
        match decode_entry(&k, &v) {
            Entry::Ask(key, a) => asks.push((key, a)),
            Entry::Bid3(key, b) => bids3.push((key, b)),
            Entry::Info(i) => info = Some(i),
            Entry::Version(x) => version = Some(x),
            _ => {}
        }
    }
    Some(SeedState { info: info?, version: version?, asks, bids3, bids2: vec![] })
}

/// the history that explores one state: seed, every request of the alphabet attempted, exit
/// probes and queries for every order id of the universe
pub fn explore_history(sc: &Scope, label: &str, st: &SeedState) -> History {
    let mut steps = alphabet(sc, &st.asks, &st.bids3, &st.info);
    for (k, a) in &st.asks {
        steps.push(Step::Probe { sender: a.owner.to_string(), funds: vec![], msg: ExecuteMsg::CancelAsk { id: k.clone() } });
        steps.push(Step::Probe { sender: sc.exec.to_string(), funds: vec![], msg: ExecuteMsg::ExpireAsk { id: k.clone() } });
    }
    for (k, b) in &st.bids3 {
        steps.push(Step::Probe { sender: b.owner.to_string(), funds: vec![], msg: ExecuteMsg::CancelBid { id: k.clone() } });
        steps.push(Step::Probe { sender: sc.exec.to_string(), funds: vec![], msg: ExecuteMsg::ExpireBid { id: k.clone() } });
    }
    for id in [A1, A2] {
        steps.push(Step::Query { msg: QueryMsg::GetAsk { id: id.to_string() } });
    }
    for id in [B1, B2] {
        steps.push(Step::Query { msg: QueryMsg::GetBid { id: id.to_string() } });
    }
    steps.push(Step::Query { msg: QueryMsg::GetContractInfo {} });
    let start = Start::Seed { markers: sc.markers.clone(), attrs: sc.attrs.clone(), state: st.clone() };
    // request kinds the model does not know (none on the pinned tree): a dozen of each from this state
    if !crate::unknown::unknown_kinds().is_empty() {
        let mut w = World::new();
        w.start(label, &start);
        let seed = label.bytes().fold(0xcbf29ce484222325u64, |h, b| (h ^ b as u64).wrapping_mul(0x100000001b3));
        let mut r = crate::gen::Rng(seed | 1);
        steps.extend(crate::unknown::requests(&mut r, &w, 12));
    }
    History { label: label.to_string(), start, steps }
}

pub struct BfsOut {
    pub states: usize,
    pub edges: u64,
    pub accepted: u64,
    pub depth: usize,
    pub stats: Stats,
}

/// breadth-first exploration of one scope; `sink` receives (label, trace) of every explored
/// state's history; when `want` is a label, returns that history instead of exploring on
pub fn run(scope_idx: usize, max_states: usize, threads: usize, mut sink: impl FnMut(&str), want: Option<&str>) -> (BfsOut, Option<History>) {
    let all = scopes();
    let sc = &all[scope_idx % all.len()];
    let mut stats = Stats::default();
    // the instantiation itself is a judged history
    let mut w0 = World::new();
    let lab0 = format!("bfs_{}_init", sc.name);
    let h0 = History { label: lab0.clone(), start: Start::Instantiate { markers: sc.markers.clone(), attrs: sc.attrs.clone(), msg: sc.inst.clone() }, steps: vec![] };
    w0.start(&lab0, &h0.start);
    sink(&w0.trace);
    if want == Some(lab0.as_str()) {
        return (BfsOut { states: 0, edges: 0, accepted: 0, depth: 0, stats }, Some(h0));
    }
    let s0 = match extract(&w0) {
        Some(x) => x,
        None => return (BfsOut { states: 0, edges: 0, accepted: 0, depth: 0, stats }, None),
    };
    let mut index: HashMap<String, usize> = HashMap::new();
    let mut states: Vec<SeedState> = vec![];
    index.insert(serde_json::to_string(&s0).unwrap(), 0);
    states.push(s0);
    let mut level: Vec<usize> = vec![0];
    let mut depth = 0usize;
    let mut edges = 0u64;
    let mut accepted = 0u64;
    while !level.is_empty() {
        // explore the level in parallel
        let chunks: Vec<Vec<usize>> = (0..threads).map(|t| level.iter().copied().skip(t).step_by(threads).collect()).collect();
        let results: Vec<(String, Vec<SeedState>, Stats, u64, u64, Option<History>)> = std::thread::scope(|scp| {
            let hs: Vec<_> = chunks
                .iter()
                .map(|chunk| {
                    let states = &states;
                    let want = want.map(|x| x.to_string());
                    scp.spawn(move || {
                        let all = scopes();
                        let sc = &all[scope_idx % all.len()];
                        let mut trace = String::new();
                        let mut succ = vec![];
                        let mut st = Stats::default();
                        let (mut e, mut a) = (0u64, 0u64);
                        let mut found = None;
                        for &i in chunk {
                            let label = format!("bfs_{}_{}", sc.name, i);
                            let h = explore_history(sc, &label, &states[i]);
                            if want.as_deref() == Some(label.as_str()) {
                                found = Some(h.clone());
                            }
                            let mut w = World::new();
                            w.start(&h.label, &h.start);
                            for step in &h.steps {
                                if let Step::Try { sender, funds, msg } = step {
                                    e += 1;
                                    if let Some(after) = w.do_try(sender, funds, msg) {
                                        a += 1;
                                        if let Some(ns) = extract_raw(&after) {
                                            succ.push(ns);
                                        }
                                    }
                                    w.stats.steps += 1;
                                } else {
                                    w.step(step);
                                }
                            }
                            trace.push_str(&w.trace);
                            st.merge(&w.stats);
                        }
                        (trace, succ, st, e, a, found)
                    })
                })
                .collect();
            hs.into_iter().map(|h| h.join().unwrap()).collect()
        });
        let mut next = vec![];
        for (trace, succ, st, e, a, found) in results {
            sink(&trace);
            stats.merge(&st);
            edges += e;
            accepted += a;
            if let Some(h) = found {
                return (BfsOut { states: states.len(), edges, accepted, depth, stats }, Some(h));
            }
            for ns in succ {
                let key = serde_json::to_string(&ns).unwrap();
                if !index.contains_key(&key) && states.len() < max_states {
                    index.insert(key, states.len());
                    next.push(states.len());
                    states.push(ns);
                }
            }
        }
        level = next;
        depth += 1;
    }
    (BfsOut { states: states.len(), edges, accepted, depth, stats }, None)
}

/// deep random walks inside one universe: from instantiation, at every visited state the whole
/// alphabet is attempted (as in the breadth-first exploration) and one accepted request, chosen
/// by a PRNG that depends only on (scope, walk index, seed), is followed – reaching states many
/// operations deep that the capped frontier cannot.  `want`: return the history of that label.
pub fn walks(scope_idx: usize, n_walks: usize, depth: usize, seed: u64, mut sink: impl FnMut(&str), want: Option<&str>) -> (BfsOut, Option<History>) {
    let all = scopes();
    let sc = &all[scope_idx % all.len()];
    let mut stats = Stats::default();
    let mut w0 = World::new();
    let start0 = Start::Instantiate { markers: sc.markers.clone(), attrs: sc.attrs.clone(), msg: sc.inst.clone() };
    w0.start("bfs_walk_init", &start0);
    let s0 = match extract(&w0) {
        Some(x) => x,
        None => return (BfsOut { states: 0, edges: 0, accepted: 0, depth: 0, stats }, None),
    };
    let (mut edges, mut accepted, mut visited) = (0u64, 0u64, 0usize);
    for wi in 0..n_walks {
        let mut rng = crate::gen::Rng(seed ^ ((scope_idx as u64 + 1) << 48) ^ (wi as u64).wrapping_mul(0x9E37_79B9_7F4A_7C15));
        let mut st = s0.clone();
        for d in 0..depth {
            let label = format!("bfs_{}_w{}_{}", sc.name, wi, d);
            let h = explore_history(sc, &label, &st);
            if want == Some(label.as_str()) {
                return (BfsOut { states: visited, edges, accepted, depth, stats }, Some(h));
            }
            let mut w = World::new();
            w.start(&h.label, &h.start);
            let mut succ: Vec<SeedState> = vec![];
            for step in &h.steps {
                if let Step::Try { sender, funds, msg } = step {
                    edges += 1;
                    if let Some(after) = w.do_try(sender, funds, msg) {
                        accepted += 1;
                        if let Some(ns) = extract_raw(&after) {
                            succ.push(ns);
                        }
                    }
                    w.stats.steps += 1;
                } else {
                    w.step(step);
                }
            }
            visited += 1;
            if want.is_none() {
                sink(&w.trace);
            }
            stats.merge(&w.stats);
            // prefer successors that keep orders on the book (deep order histories), avoid self loops
            let cur = serde_json::to_string(&st).unwrap();
            let moving: Vec<&SeedState> = succ.iter().filter(|x| serde_json::to_string(*x).unwrap() != cur).collect();
            if moving.is_empty() {
                break;
            }
            let busy: Vec<&&SeedState> = moving.iter().filter(|x| !x.asks.is_empty() || !x.bids3.is_empty()).collect();
            st = if !busy.is_empty() && rng.pct(85) { (**rng.pick(&busy)).clone() } else { (*rng.pick(&moving)).clone() };
        }
    }
    (BfsOut { states: visited, edges, accepted, depth, stats }, None)
}

fn extract_raw(raw: &crate::world::Raw) -> Option<SeedState> {
    let mut asks = vec![];
    let mut bids3 = vec![];
    let mut info = None;
    let mut version = None;
    for (k, v) in raw {
        match decode_entry(k, v) {
            Entry::Ask(key, a) => asks.push((key, a)),
            Entry::Bid3(key, b) => bids3.push((key, b)),
            Entry::Info(i) => info = Some(i),
            Entry::Version(x) => version = Some(x),
            _ => {}
        }
    }
    Some(SeedState { info: info?, version: version?, asks, bids3, bids2: vec![] })
}

#[allow(dead_code)]
fn _unused(_: AskOrderStatus) {}

// ------------------------------------------------------------------------------------------
// migration grid: every stored version of a fixed list × every shape of the book × every kind
// of migrate message, each followed by the same migration once more (idempotence), exit
// probes and queries.  Deterministic complement to the sampled migration histories.

#[allow(deprecated)]
pub fn mig_grid() -> Vec<History> {
    use ats_smart_contract::bid_order::BidOrderV2;
    use ats_smart_contract::common::{Action, BlockInfo, Event, FeeInfo};
    use ats_smart_contract::msg::MigrateMsg;
    use ats_smart_contract::version_info::VersionInfoV1;
    use cosmwasm_std::{Addr, Timestamp};
    let sc = &scopes()[0];
    let m = &sc.inst;
    let info = ContractInfoV3 {
        name: m.name.clone(),
        bind_name: "".into(),
        base_denom: m.base_denom.clone(),
        convertible_base_denoms: m.convertible_base_denoms.clone(),
        supported_quote_denoms: m.supported_quote_denoms.clone(),
        approvers: m.approvers.iter().map(|a| Addr::unchecked(a.clone())).collect(),
        executors: m.executors.iter().map(|a| Addr::unchecked(a.clone())).collect(),
        ask_fee_info: Some(FeeInfo { account: Addr::unchecked("askfee1"), rate: "0.05".into() }),
        bid_fee_info: Some(FeeInfo { account: Addr::unchecked("bidfee1"), rate: "0.1".into() }),
        ask_required_attributes: vec![],
        bid_required_attributes: vec![],
        price_precision: m.price_precision,
        size_increment: m.size_increment,
    };
    let versions = [
        "0.14.9", "0.15.0", "0.15.5", "0.16.0", "0.16.1", "0.16.2", "0.16.3", "0.17.0", "0.18.2", "0.19.0", "0.19.1",
        "0.19.2", "1.0.0", "1.0.1", "2.3.4", "0.19.0+hotfix.1", "0.16.2+b", "1.2.0", "0.19.1-rc.1", "1.0.0-rc1", "0.16.2-rc.1", "0.19.0-beta.1", "0.17.0+build5", "abc", "1.0",
        "", "0.16.02", "v0.18.0", "0.18.0 ",
    ];
    let ask = (
        A1.to_string(),
        AskOrderV1 {
            id: A1.to_string(),
            owner: Addr::unchecked("seller1"),
            class: AskOrderClass::Basic,
            base: "base".into(),
            quote: "quote1".into(),
            price: "2".into(),
            size: Uint128::new(20),
        },
    );
    let v3 = |k: &str| {
        (
            k.to_string(),
            BidOrderV3 {
                base: coin(30, "base"),
                accumulated_base: Uint128::new(10),
                accumulated_quote: Uint128::new(30),
                accumulated_fee: Uint128::new(3),
                fee: Some(coin(9, "quote1")),
                id: k.to_string(),
                owner: Addr::unchecked("buyer1"),
                price: "3".into(),
                quote: coin(90, "quote1"),
            },
        )
    };
    let ev = |a: Action| Event { action: a, block_info: BlockInfo { height: 7, time: Timestamp::from_seconds(1_600_000_000) } };
    let v2 = |k: &str| {
        (
            k.to_string(),
            BidOrderV2 {
                base: coin(30, "base"),
                events: vec![
                    ev(Action::Fill { base: coin(10, "base"), fee: Some(coin(2, "quote1")), price: "2.5".into(), quote: coin(25, "quote1") }),
                    ev(Action::Refund { fee: Some(coin(1, "quote1")), quote: coin(5, "quote1") }),
                    ev(Action::Reject { base: coin(10, "base"), fee: Some(coin(3, "quote1")), quote: coin(30, "quote1") }),
                ],
                fee: Some(coin(9, "quote1")),
                id: k.to_string(),
                owner: Addr::unchecked("buyer1"),
                price: "3".into(),
                quote: coin(90, "quote1"),
            },
        )
    };
    let v2plain = |k: &str| {
        (
            k.to_string(),
            BidOrderV2 {
                base: coin(30, "base"),
                // two identical consecutive fills (same block), then a reject; no fee anywhere
                events: vec![
                    ev(Action::Fill { base: coin(4, "base"), fee: None, price: "3".into(), quote: coin(12, "quote1") }),
                    ev(Action::Fill { base: coin(4, "base"), fee: None, price: "3".into(), quote: coin(12, "quote1") }),
                    ev(Action::Reject { base: coin(12, "base"), fee: None, quote: coin(36, "quote1") }),
                ],
                fee: None,
                id: k.to_string(),
                owner: Addr::unchecked("buyer1"),
                price: "3".into(),
                quote: coin(90, "quote1"),
            },
        )
    };
    let v2refund = |k: &str| {
        (
            k.to_string(),
            BidOrderV2 {
                base: coin(30, "base"),
                events: vec![
                    ev(Action::Fill { base: coin(10, "base"), fee: None, price: "2.5".into(), quote: coin(25, "quote1") }),
                    ev(Action::Refund { fee: None, quote: coin(5, "quote1") }),
                    ev(Action::Reject { base: coin(10, "base"), fee: None, quote: coin(30, "quote1") }),
                ],
                fee: None,
                id: k.to_string(),
                owner: Addr::unchecked("buyer1"),
                price: "3".into(),
                quote: coin(90, "quote1"),
            },
        )
    };
    let k_lo = "0b000000-0000-4000-8000-000000000001";
    let k_mid = "1a000000-0000-4000-8000-000000000002";
    let k_hi = "9f000000-0000-4000-8000-000000000003";
    let k_legacy = "c13f8888ca434a64ab1b1ca8d60aa49b";
    type Shape = (Vec<(String, AskOrderV1)>, Vec<(String, BidOrderV3)>, Vec<(String, BidOrderV2)>);
    let ready_ask = (
        A2.to_string(),
        AskOrderV1 {
            id: A2.to_string(),
            owner: Addr::unchecked("seller2"),
            class: AskOrderClass::Convertible {
                status: AskOrderStatus::Ready { approver: Addr::unchecked("approver1"), converted_base: coin(20, "base") },
            },
            base: "conv1".into(),
            quote: "quote1".into(),
            price: "2".into(),
            size: Uint128::new(20),
        },
    );
    let shapes: Vec<Shape> = vec![
        (vec![], vec![], vec![]),
        (vec![ask.clone()], vec![], vec![]),
        (vec![ask.clone()], vec![v3(k_mid)], vec![]),
        (vec![ask.clone()], vec![], vec![v2(k_lo), v2plain(k_hi)]),
        (vec![], vec![v3(k_mid)], vec![v2plain(k_lo), v2(k_hi)]),
        (vec![ask.clone()], vec![v3(k_lo)], vec![v2refund(k_hi)]),
        (vec![], vec![], vec![v2(k_legacy)]),
        // an approved convertible ask and a current-format bid it can be matched with
        (vec![ask.clone(), ready_ask.clone()], vec![v3(k_mid)], vec![]),
    ];
    let none = MigrateMsg {
        approvers: None,
        ask_fee_rate: None,
        ask_fee_account: None,
        bid_fee_rate: None,
        bid_fee_account: None,
        ask_required_attributes: None,
        bid_required_attributes: None,
    };
    let mut msgs = vec![none.clone()];
    msgs.push(MigrateMsg { approvers: Some(vec![s("approver2")]), ..none.clone() });
    msgs.push(MigrateMsg { approvers: Some(vec![]), ..none.clone() });
    msgs.push(MigrateMsg { ask_fee_rate: Some(s("0.07")), ask_fee_account: Some(s("askfee2")), ..none.clone() });
    msgs.push(MigrateMsg { ask_fee_rate: Some(s("")), ask_fee_account: Some(s("")), ..none.clone() });
    msgs.push(MigrateMsg { bid_fee_rate: Some(s("")), bid_fee_account: Some(s("")), ..none.clone() });
    msgs.push(MigrateMsg { ask_fee_rate: Some(s("0.07")), ..none.clone() });
    msgs.push(MigrateMsg { bid_fee_rate: Some(s("abc")), bid_fee_account: Some(s("bidfee2")), ..none.clone() });
    msgs.push(MigrateMsg { bid_fee_rate: Some(s("0.2")), bid_fee_account: Some(s("xy")), ..none.clone() });
    msgs.push(MigrateMsg { ask_required_attributes: Some(vec![s("kyc")]), bid_required_attributes: Some(vec![]), ..none.clone() });
    // the stored rates restated (same numbers, other spelling) with other accounts
    msgs.push(MigrateMsg { bid_fee_rate: Some(s("0.10")), bid_fee_account: Some(s("bidfee2")), ask_fee_rate: Some(s("0.050")), ask_fee_account: Some(s("askfee2")), ..none.clone() });
    // one side replaced while the other is removed; rates written with more fractional digits than a
    // 96-bit decimal keeps (`from_str` rounds them back, `from_str_exact` would refuse them)
    msgs.push(MigrateMsg { ask_fee_rate: Some(s("0.03")), ask_fee_account: Some(s("askfee2")), bid_fee_rate: Some(s("")), bid_fee_account: Some(s("")), ..none.clone() });
    msgs.push(MigrateMsg { bid_fee_rate: Some(s("0.002500000000000000000000000000")), bid_fee_account: Some(s("bidfee2")), ..none.clone() });
    msgs.push(MigrateMsg { ask_fee_rate: Some(s("0.0500000000000000000000000000000")), ask_fee_account: Some(s("askfee2")), bid_fee_rate: Some(s("0.2")), bid_fee_account: Some(s("bidfee2")), ..none.clone() });
    // blank (whitespace-only) strings are not the clearing pair
    msgs.push(MigrateMsg { bid_fee_rate: Some(s(" ")), bid_fee_account: Some(s(" ")), ..none.clone() });
    let mut out = vec![];
    for (vi, ver) in versions.iter().enumerate() {
        for (si, sh) in shapes.iter().enumerate() {
            for (mi, msg) in msgs.iter().enumerate() {
                // the full message list only on the interesting versions
                if mi > 1 && !matches!(*ver, "0.16.1" | "0.16.2" | "0.18.2" | "0.19.1" | "1.0.0") {
                    continue;
                }
                let state = SeedState {
                    info: info.clone(),
                    version: VersionInfoV1 { definition: "ats_smart_contract".into(), version: ver.to_string() },
                    asks: sh.0.clone(),
                    bids3: sh.1.clone(),
                    bids2: sh.2.clone(),
                };
                // configuration requests attempted on the not-yet-migrated book (old-format bids are open
                // orders too), then the migration twice
                let modify = |ap: Option<Vec<&str>>, br: Option<&str>, ba: Option<&str>, bt: Option<Vec<&str>>, at: Option<Vec<&str>>| ExecuteMsg::ModifyContract {
                    approvers: ap.map(|l| l.into_iter().map(s).collect()),
                    executors: None,
                    ask_fee_rate: None,
                    ask_fee_account: None,
                    bid_fee_rate: br.map(s),
                    bid_fee_account: ba.map(s),
                    ask_required_attributes: at.map(|l| l.into_iter().map(s).collect()),
                    bid_required_attributes: bt.map(|l| l.into_iter().map(s).collect()),
                };
                let mut steps = vec![];
                if mi == 0 {
                    for m in [
                        modify(None, Some("0.2"), Some("bidfee1"), None, None),
                        modify(None, None, None, Some(vec![]), None),
                        modify(Some(vec!["approver2"]), None, None, None, None),
                        modify(None, None, None, None, Some(vec!["kyc"])),
                    ] {
                        steps.push(Step::Try { sender: sc.exec.to_string(), funds: vec![], msg: m });
                    }
                }
                steps.push(Step::Migrate { msg: msg.clone() });
                steps.push(Step::Migrate { msg: msg.clone() });
                for (k, a) in &sh.0 {
                    steps.push(Step::Probe { sender: a.owner.to_string(), funds: vec![], msg: ExecuteMsg::CancelAsk { id: k.clone() } });
                    steps.push(Step::Query { msg: QueryMsg::GetAsk { id: k.clone() } });
                }
                for k in sh.1.iter().map(|x| x.0.clone()).chain(sh.2.iter().map(|x| x.0.clone())) {
                    steps.push(Step::Probe { sender: "buyer1".into(), funds: vec![], msg: ExecuteMsg::CancelBid { id: k.clone() } });
                    steps.push(Step::Probe { sender: sc.exec.into(), funds: vec![], msg: ExecuteMsg::RejectBid { id: k.clone(), size: Some(Uint128::new(10)) } });
                    steps.push(Step::Query { msg: QueryMsg::GetBid { id: k.clone() } });
                }
                // matches that were possible before the migration are possible after it
                // (current-format and converted bids alike; a lot, and a single unit – a fill so small that
                // its share of the bid's fee rounds to nothing, which must go through whatever the
                // migration did to the fee configuration)
                for (ak, a) in &sh.0 {
                    for bk in sh.1.iter().map(|x| x.0.clone()).chain(sh.2.iter().map(|x| x.0.clone())) {
                        for sz in [10u128, 1] {
                            steps.push(Step::Try { sender: sc.exec.into(), funds: vec![], msg: ExecuteMsg::ExecuteMatch { ask_id: ak.clone(), bid_id: bk.clone(), price: a.price.clone(), size: Uint128::new(sz) } });
                            steps.push(Step::Try { sender: sc.exec.into(), funds: vec![], msg: ExecuteMsg::ExecuteMatch { ask_id: ak.clone(), bid_id: bk.clone(), price: "3".into(), size: Uint128::new(sz) } });
                        }
                    }
                }
                steps.push(Step::Query { msg: QueryMsg::GetVersionInfo {} });
                steps.push(Step::Query { msg: QueryMsg::GetContractInfo {} });
                out.push(History {
                    label: format!("mig_v{}_s{}_m{}", vi, si, mi),
                    start: Start::Seed { markers: sc.markers.clone(), attrs: sc.attrs.clone(), state },
                    steps,
                });
            }
        }
    }
    out
}
