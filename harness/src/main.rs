//! atsharness — drives the real contract over generated / replayed histories and writes the
//! trace the Lean driver judges.
mod bfs;
mod corpus;
mod gen;
mod hist;
mod unit;
mod unknown;
mod wire;
mod world;

use gen::{Gen, Profile, Rng, Weights};
use hist::History;
use std::collections::BTreeMap;
use std::fs;
use std::io::Write;
use world::{Stats, World};

fn arg(args: &[String], name: &str) -> Option<String> {
    args.iter().position(|a| a == name).and_then(|i| args.get(i + 1).cloned())
}

fn replay(h: &History) -> World {
    let mut w = World::new();
    w.start(&h.label, &h.start);
    for s in &h.steps {
        w.step(s);
    }
    w
}

/// which kind of history index `i` is, per property emphasis
fn make_history(prop: &str, seed: u64, i: u64, len: usize) -> (History, World) {
    let mut pick = Rng(seed.wrapping_mul(0x9E3779B97F4A7C15) ^ i.wrapping_mul(0xD1B54A32D192ED03));
    let hseed = pick.next();
    let label = format!("g{}_{}", seed, i);
    let profile = match pick.below(10) {
        0..=4 => Profile::Small,
        5..=7 => Profile::Realistic,
        8 => Profile::Huge,
        _ => Profile::Malformed,
    };
    let mut g = Gen::new(hseed, profile, Weights::for_prop(prop));
    let (inst_pct, mig_pct, legacy_pct) = match prop {
        "C13" => (85, 5, 0),
        "C14" | "C15" => (5, 80, 5),
        "C06" | "C16" => (3, 12, 20),
        _ => (4, 8, 8),
    };
    let x = pick.below(100);
    if x < inst_pct {
        g.inst_only(&label)
    } else if x < inst_pct + mig_pct {
        g.seeded(&label, true, len / 2)
    } else if x < inst_pct + mig_pct + legacy_pct {
        g.seeded(&label, false, len / 2)
    } else {
        g.walk(&label, len)
    }
}

fn stats_json(s: &Stats, histories: u64) -> String {
    let m = |b: &BTreeMap<String, u64>| {
        let v: Vec<String> = b.iter().map(|(k, v)| format!("{:?}:{}", k, v)).collect();
        format!("{{{}}}", v.join(","))
    };
    let distinct: BTreeMap<String, u64> = s.distinct.iter().map(|(k, v)| (k.clone(), v.len() as u64)).collect();
    format!(
        "{{\"histories\":{},\"steps\":{},\"probes\":{},\"queries\":{},\"max_asks\":{},\"max_bids\":{},\"calls\":{},\"branches\":{},\"distinct\":{}}}",
        histories,
        s.steps,
        s.probes,
        s.queries,
        s.max_asks,
        s.max_bids,
        m(&s.calls),
        m(&s.branches),
        m(&distinct)
    )
}

fn main() {
    if std::env::var("ATS_SHOW_PANIC").is_err() {
        std::panic::set_hook(Box::new(|_| {}));
    }
    let args: Vec<String> = std::env::args().collect();
    let cmd = args.get(1).cloned().unwrap_or_default();
    match cmd.as_str() {
        "gen" => {
            let seed: u64 = arg(&args, "--seed").and_then(|s| s.parse().ok()).unwrap_or(1);
            let prop = arg(&args, "--prop").unwrap_or_else(|| "ALL".into());
            let count: u64 = arg(&args, "--count").and_then(|s| s.parse().ok()).unwrap_or(100);
            let len: usize = arg(&args, "--len").and_then(|s| s.parse().ok()).unwrap_or(25);
            let threads: u64 = arg(&args, "--threads").and_then(|s| s.parse().ok()).unwrap_or(8);
            let out = arg(&args, "--out").unwrap_or_else(|| ".".into());
            fs::create_dir_all(&out).unwrap();
            let mut handles = vec![];
            for t in 0..threads {
                let out = out.clone();
                let prop = prop.clone();
                handles.push(std::thread::spawn(move || {
                    let mut tf = std::io::BufWriter::new(fs::File::create(format!("{}/trace_{}.txt", out, t)).unwrap());
                    let mut hf = std::io::BufWriter::new(fs::File::create(format!("{}/hist_{}.jsonl", out, t)).unwrap());
                    let mut stats = Stats::default();
                    let mut n = 0u64;
                    let mut i = t;
                    while i < count {
                        let made = std::panic::catch_unwind(|| make_history(&prop, seed, i, len));
                        let (h, w) = match made {
                            Ok(x) => x,
                            Err(_) => {
                                // a bug of the harness itself: counted, reported by the check
                                stats.bump("HARNESS-PANIC:generator");
                                i += threads;
                                continue;
                            }
                        };
                        tf.write_all(w.trace.as_bytes()).unwrap();
                        hf.write_all(serde_json::to_string(&h).unwrap().as_bytes()).unwrap();
                        hf.write_all(b"\n").unwrap();
                        stats.merge(&w.stats);
                        n += 1;
                        i += threads;
                    }
                    (stats, n)
                }));
            }
            let mut total = Stats::default();
            let mut n = 0;
            for h in handles {
                let (s, k) = h.join().unwrap();
                total.merge(&s);
                n += k;
            }
            fs::write(format!("{}/stats.json", out), stats_json(&total, n)).unwrap();
        }
        "replay" => {
            // replay <history.json | dir of .json> --out trace.txt
            let src = args.get(2).cloned().expect("history file or directory");
            let out = arg(&args, "--out").unwrap_or_else(|| "trace.txt".into());
            let mut files: Vec<String> = vec![];
            if fs::metadata(&src).map(|m| m.is_dir()).unwrap_or(false) {
                for e in fs::read_dir(&src).unwrap() {
                    let p = e.unwrap().path();
                    if p.extension().map(|x| x == "json").unwrap_or(false) {
                        files.push(p.to_string_lossy().to_string());
                    }
                }
                files.sort();
            } else {
                files.push(src);
            }
            let mut trace = String::new();
            let mut stats = Stats::default();
            for f in &files {
                let txt = fs::read_to_string(f).unwrap();
                let h: History = serde_json::from_str(&txt).unwrap_or_else(|e| panic!("{}: {}", f, e));
                let w = replay(&h);
                trace.push_str(&w.trace);
                stats.merge(&w.stats);
            }
            fs::write(&out, trace).unwrap();
            println!("{}", stats_json(&stats, files.len() as u64));
        }
        "bfs" => {
            // bfs --scope K|all --max-states N --threads T --out DIR [--emit LABEL --to FILE]
            let scope = arg(&args, "--scope").unwrap_or_else(|| "all".into());
            let max_states: usize = arg(&args, "--max-states").and_then(|s| s.parse().ok()).unwrap_or(2000);
            let threads: usize = arg(&args, "--threads").and_then(|s| s.parse().ok()).unwrap_or(8);
            let out = arg(&args, "--out").unwrap_or_else(|| ".".into());
            let emit = arg(&args, "--emit");
            fs::create_dir_all(&out).unwrap();
            let n = bfs::scopes().len();
            let mut which: Vec<usize> = if scope == "all" { (0..n).collect() } else { vec![scope.parse().unwrap_or(0)] };
            if let Some(l) = &emit {
                // the label names its scope: bfs_<scope>_<index>
                which = bfs::scopes().iter().enumerate().filter(|(_, s)| l.starts_with(&format!("bfs_{}_", s.name))).map(|(i, _)| i).collect();
            }
            let n_walks: usize = arg(&args, "--walks").and_then(|s| s.parse().ok()).unwrap_or(0);
            let wdepth: usize = arg(&args, "--walk-depth").and_then(|s| s.parse().ok()).unwrap_or(8);
            let wseed: u64 = arg(&args, "--seed").and_then(|s| s.parse().ok()).unwrap_or(1);
            let mut total = Stats::default();
            let mut summary = vec![];
            let mut hists = 0u64;
            for k in which {
                let mut tf = std::io::BufWriter::new(fs::File::create(format!("{}/trace_bfs{}.txt", out, k)).unwrap());
                // a label of a deep walk: bfs_<scope>_w<walk>_<depth>
                let is_walk_label = emit.as_deref().map(|l| l.rsplitn(3, '_').nth(1).map(|x| x.starts_with('w')).unwrap_or(false)).unwrap_or(false);
                if n_walks > 0 || is_walk_label {
                    let nw = if is_walk_label { 100000 } else { n_walks };
                    let (o, h) = bfs::walks(k, nw, wdepth, wseed, |t| tf.write_all(t.as_bytes()).unwrap(), if is_walk_label { emit.as_deref() } else { None });
                    if let Some(h) = h {
                        let to = arg(&args, "--to").unwrap_or_else(|| format!("{}/{}.json", out, h.label));
                        fs::write(&to, serde_json::to_string_pretty(&h).unwrap()).unwrap();
                        println!("emitted {}", to);
                        return;
                    }
                    if is_walk_label {
                        continue;
                    }
                    hists += o.states as u64;
                    summary.push(format!("{{\"scope\":{},\"walks\":{},\"walk_depth\":{},\"states\":{},\"edges\":{},\"accepted\":{}}}", k, n_walks, wdepth, o.states, o.edges, o.accepted));
                    total.merge(&o.stats);
                }
                let (o, h) = bfs::run(k, max_states, threads, |t| tf.write_all(t.as_bytes()).unwrap(), emit.as_deref());
                if let Some(h) = h {
                    let to = arg(&args, "--to").unwrap_or_else(|| format!("{}/{}.json", out, h.label));
                    fs::write(&to, serde_json::to_string_pretty(&h).unwrap()).unwrap();
                    println!("emitted {}", to);
                    return;
                }
                hists += o.states as u64 + 1;
                summary.push(format!("{{\"scope\":{},\"states\":{},\"edges\":{},\"accepted\":{},\"depth\":{}}}", k, o.states, o.edges, o.accepted, o.depth));
                total.merge(&o.stats);
            }
            let sj = stats_json(&total, hists);
            fs::write(format!("{}/stats_bfs.json", out), format!("{{\"bfs\":[{}],\"stats\":{}}}", summary.join(","), sj)).unwrap();
            println!("[{}]", summary.join(","));
        }
        "miggrid" => {
            // miggrid --out DIR : the deterministic migration grid (trace_mig.txt + hist_mig.jsonl)
            let out = arg(&args, "--out").unwrap_or_else(|| ".".into());
            fs::create_dir_all(&out).unwrap();
            let mut tf = std::io::BufWriter::new(fs::File::create(format!("{}/trace_mig.txt", out)).unwrap());
            let mut hf = std::io::BufWriter::new(fs::File::create(format!("{}/hist_mig.jsonl", out)).unwrap());
            let mut total = Stats::default();
            let hs = bfs::mig_grid();
            for h in &hs {
                let w = replay(h);
                tf.write_all(w.trace.as_bytes()).unwrap();
                hf.write_all(serde_json::to_string(h).unwrap().as_bytes()).unwrap();
                hf.write_all(b"\n").unwrap();
                total.merge(&w.stats);
            }
            fs::write(format!("{}/stats_mig.json", out), stats_json(&total, hs.len() as u64)).unwrap();
            println!("{} migration histories", hs.len());
        }
        "mkcorpus" => {
            let out = arg(&args, "--out").unwrap_or_else(|| "corpus".into());
            fs::create_dir_all(&out).unwrap();
            for h in corpus::all() {
                fs::write(format!("{}/{}.json", out, h.label), serde_json::to_string_pretty(&h).unwrap()).unwrap();
            }
        }
        "unit" => {
            let seed: u64 = arg(&args, "--seed").and_then(|s| s.parse().ok()).unwrap_or(1);
            let count: u64 = arg(&args, "--count").and_then(|s| s.parse().ok()).unwrap_or(10000);
            let out = arg(&args, "--out").unwrap_or_else(|| "unit.txt".into());
            fs::write(&out, unit::stream(seed, count)).unwrap();
        }
        _ => {
            eprintln!("usage: atsharness gen|replay|unit ...");
            std::process::exit(2);
        }
    }
}
