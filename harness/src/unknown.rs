//! Request kinds the contract accepts that the model has no handler for.
//!
//! The model's `ExecMsg` lists the request kinds of the contract as of the pinned commit, and every
//! theorem quantifies over exactly those.  A request kind added to the contract later is covered by
//! none of them.  The set of request kinds is read from the contract's own JSON schema
//! (`schema_for!(ExecuteMsg)`, the derive the crate ships) on every run; for each kind the model does
//! not know, requests are synthesised from the schema with values drawn from the current book
//! (order ids, owners, executors, denominations, sizes) and run on a copy of the state.  The driver
//! demands that such a request has no effect (tag `CU`).  On the pinned tree the set is empty and
//! nothing here runs.
use crate::gen::Rng;
use crate::hist::Step;
use crate::world::World;
use ats_smart_contract::msg::ExecuteMsg;
use cosmwasm_std::{coin, Coin};
use serde_json::{json, Map, Value};
use std::sync::OnceLock;

pub const KNOWN_EXEC: [&str; 11] = [
    "approve_ask",
    "cancel_ask",
    "cancel_bid",
    "create_ask",
    "create_bid",
    "execute_match",
    "expire_ask",
    "expire_bid",
    "reject_ask",
    "reject_bid",
    "modify_contract",
];

pub struct Variant {
    pub name: String,
    /// schema of the variant's payload (`None`: a unit variant written as a bare string)
    pub payload: Option<Value>,
}

struct Schema {
    variants: Vec<Variant>,
    defs: Value,
}

fn schema() -> &'static Schema {
    static S: OnceLock<Schema> = OnceLock::new();
    S.get_or_init(|| {
        let root = serde_json::to_value(schemars::schema_for!(ExecuteMsg)).unwrap_or(Value::Null);
        let defs = root.get("definitions").cloned().unwrap_or(Value::Null);
        let mut variants = vec![];
        let mut alts: Vec<Value> = vec![];
        for k in ["oneOf", "anyOf"] {
            if let Some(Value::Array(a)) = root.get(k) {
                alts.extend(a.iter().cloned());
            }
        }
        if alts.is_empty() {
            alts.push(root.clone());
        }
        for alt in alts {
            if let Some(Value::Array(names)) = alt.get("enum") {
                for n in names {
                    if let Some(n) = n.as_str() {
                        variants.push(Variant { name: n.to_string(), payload: None });
                    }
                }
            }
            if let Some(Value::Object(props)) = alt.get("properties") {
                for (n, p) in props {
                    variants.push(Variant { name: n.clone(), payload: Some(p.clone()) });
                }
            }
        }
        variants.retain(|v| !KNOWN_EXEC.contains(&v.name.as_str()));
        Schema { variants, defs }
    })
}

/// names of the request kinds the model does not know
pub fn unknown_kinds() -> Vec<String> {
    schema().variants.iter().map(|v| v.name.clone()).collect()
}

struct Pools {
    ids: Vec<String>,
    accts: Vec<String>,
    denoms: Vec<String>,
    nums: Vec<u128>,
}

fn pools(w: &World) -> Pools {
    let (asks, bids, info) = w.book();
    let mut ids: Vec<String> = asks.iter().map(|(k, _)| k.clone()).chain(bids.iter().map(|(k, _)| k.clone())).collect();
    ids.extend(w.old_bids().into_iter().map(|(k, _)| k));
    let mut accts: Vec<String> = vec!["mallory".into(), "alice".into(), "bob".into(), "frank".into()];
    let mut denoms: Vec<String> = vec![];
    let mut nums: Vec<u128> = vec![1, 2, 10, 100];
    for (_, a) in &asks {
        accts.push(a.owner.to_string());
        nums.push(a.size.u128());
        denoms.push(a.base.clone());
    }
    for (_, b) in &bids {
        accts.push(b.owner.to_string());
        nums.push(b.base.amount.u128());
        nums.push(b.quote.amount.u128());
        denoms.push(b.quote.denom.clone());
    }
    if let Some(i) = &info {
        accts.extend(i.executors.iter().map(|a| a.to_string()));
        accts.extend(i.approvers.iter().map(|a| a.to_string()));
        denoms.push(i.base_denom.clone());
        denoms.extend(i.supported_quote_denoms.iter().cloned());
        denoms.extend(i.convertible_base_denoms.iter().cloned());
        nums.push(i.size_increment.u128());
    }
    accts.sort();
    accts.dedup();
    denoms.sort();
    denoms.dedup();
    if denoms.is_empty() {
        denoms.push("base".into());
    }
    Pools { ids, accts, denoms, nums }
}

fn pick<'a, T>(r: &mut Rng, v: &'a [T]) -> &'a T {
    &v[r.below(v.len() as u64) as usize]
}

fn gen_string(r: &mut Rng, p: &Pools, field: &str) -> String {
    let f = field.to_lowercase();
    if f.contains("id") && !p.ids.is_empty() && r.pct(85) {
        return pick(r, &p.ids).clone();
    }
    if f.contains("price") || f.contains("rate") {
        return pick(r, &["2", "2.5", "0.1", "1"]).to_string();
    }
    if f.contains("denom") || f == "base" || f == "quote" {
        return pick(r, &p.denoms).clone();
    }
    if f.contains("size") || f.contains("amount") {
        return pick(r, &p.nums).to_string();
    }
    if f.contains("account") || f.contains("owner") || f.contains("addr") || f.contains("recipient") || f == "to" || f.contains("sender") {
        return pick(r, &p.accts).clone();
    }
    match r.below(4) {
        0 if !p.ids.is_empty() => pick(r, &p.ids).clone(),
        1 => pick(r, &p.accts).clone(),
        2 => pick(r, &p.denoms).clone(),
        _ => pick(r, &p.nums).to_string(),
    }
}

fn gen_value(r: &mut Rng, p: &Pools, sch: &Value, defs: &Value, field: &str, depth: u32) -> Value {
    if depth > 6 {
        return Value::Null;
    }
    if let Some(rf) = sch.get("$ref").and_then(|x| x.as_str()) {
        let name = rf.rsplit('/').next().unwrap_or("");
        return match name {
            "Uint128" | "Uint64" | "Uint256" | "Uint512" | "Int128" | "Int64" => Value::String(pick(r, &p.nums).to_string()),
            "Decimal" | "Decimal256" => Value::String(pick(r, &["2", "0.5", "1"]).to_string()),
            "Addr" => Value::String(pick(r, &p.accts).clone()),
            "Coin" => json!({"denom": pick(r, &p.denoms).clone(), "amount": pick(r, &p.nums).to_string()}),
            _ => match defs.get(name) {
                Some(d) => gen_value(r, p, d, defs, field, depth + 1),
                None => Value::Null,
            },
        };
    }
    for k in ["allOf"] {
        if let Some(Value::Array(a)) = sch.get(k) {
            if let Some(first) = a.first() {
                return gen_value(r, p, first, defs, field, depth + 1);
            }
        }
    }
    for k in ["anyOf", "oneOf"] {
        if let Some(Value::Array(a)) = sch.get(k) {
            if !a.is_empty() {
                // prefer a non-null alternative
                let non_null: Vec<&Value> = a.iter().filter(|x| x.get("type").and_then(|t| t.as_str()) != Some("null")).collect();
                if !non_null.is_empty() && r.pct(80) {
                    let c = non_null[r.below(non_null.len() as u64) as usize];
                    return gen_value(r, p, c, defs, field, depth + 1);
                }
                let c = &a[r.below(a.len() as u64) as usize];
                return gen_value(r, p, c, defs, field, depth + 1);
            }
        }
    }
    if let Some(Value::Array(e)) = sch.get("enum") {
        if !e.is_empty() {
            return e[r.below(e.len() as u64) as usize].clone();
        }
    }
    let ty: Vec<String> = match sch.get("type") {
        Some(Value::String(s)) => vec![s.clone()],
        Some(Value::Array(a)) => a.iter().filter_map(|x| x.as_str().map(|s| s.to_string())).collect(),
        _ => vec![],
    };
    let nullable = ty.iter().any(|t| t == "null");
    let main = ty.iter().find(|t| *t != "null").cloned();
    if nullable && (main.is_none() || r.pct(25)) {
        return Value::Null;
    }
    match main.as_deref() {
        Some("string") => Value::String(gen_string(r, p, field)),
        Some("integer") | Some("number") => {
            let n = *pick(r, &p.nums);
            json!(n.min(u32::MAX as u128) as u64)
        }
        Some("boolean") => Value::Bool(r.pct(50)),
        Some("array") => {
            let n = r.below(3);
            let item = sch.get("items").cloned().unwrap_or(json!({"type": "string"}));
            Value::Array((0..n).map(|_| gen_value(r, p, &item, defs, field, depth + 1)).collect())
        }
        Some("object") | None => {
            let mut m = Map::new();
            let required: Vec<String> = match sch.get("required") {
                Some(Value::Array(a)) => a.iter().filter_map(|x| x.as_str().map(|s| s.to_string())).collect(),
                _ => vec![],
            };
            if let Some(Value::Object(props)) = sch.get("properties") {
                for (k, ps) in props {
                    if required.contains(k) || r.pct(60) {
                        m.insert(k.clone(), gen_value(r, p, ps, defs, k, depth + 1));
                    }
                }
            }
            Value::Object(m)
        }
        _ => Value::Null,
    }
}

/// requests of the kinds the model does not know, built for the current book
pub fn requests(r: &mut Rng, w: &World, per_kind: usize) -> Vec<Step> {
    let sc = schema();
    if sc.variants.is_empty() {
        return vec![];
    }
    let p = pools(w);
    let mut out = vec![];
    for v in &sc.variants {
        for _ in 0..per_kind {
            let body = match &v.payload {
                None => Value::String(v.name.clone()),
                Some(ps) => {
                    let mut m = Map::new();
                    m.insert(v.name.clone(), gen_value(r, &p, ps, &sc.defs, &v.name, 0));
                    Value::Object(m)
                }
            };
            let sender = pick(r, &p.accts).clone();
            let funds: Vec<Coin> = if r.pct(80) { vec![] } else { vec![coin(*pick(r, &p.nums), pick(r, &p.denoms).clone())] };
            out.push(Step::Unknown { sender, funds, kind: v.name.clone(), json: body.to_string() });
        }
    }
    out
}

pub fn parse(json: &str) -> Option<ExecuteMsg> {
    serde_json::from_str::<ExecuteMsg>(json).ok()
}
