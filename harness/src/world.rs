//! The real contract, run in-process: MockStorage + MockApi + a querier that answers marker
//! and attribute queries per denomination / per account.  Every call is wrapped in
//! snapshot / catch_unwind / restore (= on-chain rollback) and its complete effect on the
//! raw storage is reported as deltas.
use crate::hist::{Start, Step};
use crate::wire;
use ats_smart_contract::ask_order::{AskOrderV1, ASKS_V1};
#[allow(deprecated)]
use ats_smart_contract::bid_order::{BidOrderV2, BidOrderV3, BIDS_V2, BIDS_V3};
use ats_smart_contract::contract::{execute, instantiate, migrate, query};
use ats_smart_contract::contract_info::{set_contract_info, ContractInfoV3};
use ats_smart_contract::error::ContractError;
use ats_smart_contract::msg::{ExecuteMsg, InstantiateMsg, MigrateMsg, QueryMsg};
use ats_smart_contract::version_info::{set_version_info, VersionInfoV1, CRATE_NAME, PACKAGE_VERSION};
use cosmwasm_std::testing::{mock_env, mock_info, MockApi, MockStorage};
use cosmwasm_std::{
    from_slice, to_binary, Api, BankMsg, Binary, Coin, ContractResult, CosmosMsg, Empty, Order,
    OwnedDeps, Response, Storage, SystemError, SystemResult,
};
use prost::Message;
use provwasm_common::MockableQuerier;
use provwasm_mocks::{mock_provenance_dependencies, MockProvenanceQuerier};
use provwasm_std::shim::Any;
use provwasm_std::types::cosmos::auth::v1beta1::BaseAccount;
use provwasm_std::types::provenance::attribute::v1::{
    Attribute, AttributeType, QueryAttributesRequest, QueryAttributesResponse,
};
use provwasm_std::types::provenance::marker::v1::{
    AccessGrant, MarkerAccount, MarkerStatus, MarkerType, MsgTransferRequest, QueryMarkerRequest,
    QueryMarkerResponse,
};
use std::cell::RefCell;
use std::collections::BTreeMap;
use std::panic::{catch_unwind, AssertUnwindSafe};
use std::rc::Rc;

pub type Deps = OwnedDeps<MockStorage, MockApi, MockProvenanceQuerier, Empty>;
pub type Raw = BTreeMap<Vec<u8>, Vec<u8>>;

/// marker kind per denomination: 0 none, 1 coin, 2 restricted
#[derive(Clone, Debug, Default)]
pub struct Tables {
    pub markers: BTreeMap<String, u8>,
    /// attribute names per account; `None` = the attribute query fails; absent = no attributes
    pub attrs: BTreeMap<String, Option<Vec<String>>>,
}

pub struct World {
    pub deps: Deps,
    pub tables: Rc<RefCell<Tables>>,
    pub trace: String,
    pub contract: String,
    /// ids ever used on each side (for queries on closed orders)
    pub seen_asks: Vec<String>,
    pub seen_bids: Vec<String>,
    pub stats: Stats,
    /// offset in `trace` where the current step's record starts
    pub mark: usize,
}

#[derive(Default, Clone, Debug)]
pub struct Stats {
    pub calls: BTreeMap<String, u64>, // "<kind>:<outcome>"
    pub branches: BTreeMap<String, u64>,
    pub probes: u64,
    pub queries: u64,
    pub steps: u64,
    pub max_asks: usize,
    pub max_bids: usize,
    /// hashes of normalised step records per "<kind>:<outcome>" (ids replaced by '#')
    pub distinct: BTreeMap<String, std::collections::BTreeSet<u64>>,
}

impl Stats {
    pub fn bump(&mut self, k: &str) {
        *self.calls.entry(k.to_string()).or_insert(0) += 1;
    }
    pub fn branch(&mut self, k: &str) {
        *self.branches.entry(k.to_string()).or_insert(0) += 1;
    }
    pub fn merge(&mut self, o: &Stats) {
        for (k, v) in &o.calls {
            *self.calls.entry(k.clone()).or_insert(0) += v;
        }
        for (k, v) in &o.branches {
            *self.branches.entry(k.clone()).or_insert(0) += v;
        }
        self.probes += o.probes;
        self.queries += o.queries;
        self.steps += o.steps;
        self.max_asks = self.max_asks.max(o.max_asks);
        self.max_bids = self.max_bids.max(o.max_bids);
        for (k, v) in &o.distinct {
            self.distinct.entry(k.clone()).or_default().extend(v.iter().cloned());
        }
    }
    pub fn note_distinct(&mut self, key: &str, record: &str) {
        use std::hash::{Hash, Hasher};
        let mut norm = String::with_capacity(record.len());
        for tok in record.split_whitespace() {
            let t = tok.trim_start_matches('~');
            let hexish = t.len() >= 32 && t.chars().all(|c| c.is_ascii_hexdigit() || c == '-' || c == '{' || c == '}');
            norm.push_str(if hexish { "#" } else { tok });
            norm.push(' ');
        }
        let mut h = std::collections::hash_map::DefaultHasher::new();
        norm.hash(&mut h);
        self.distinct.entry(key.to_string()).or_default().insert(h.finish());
    }
}

fn marker_resp(denom: &str, t: MarkerType) -> QueryMarkerResponse {
    let m = MarkerAccount {
        base_account: Some(BaseAccount {
            address: format!("marker_{}", denom),
            pub_key: None,
            account_number: 10,
            sequence: 0,
        }),
        manager: "".into(),
        access_control: vec![AccessGrant { address: "x".into(), permissions: vec![1, 2, 3, 4, 5, 6, 7] }],
        status: MarkerStatus::Active.into(),
        denom: denom.into(),
        supply: "1000".into(),
        marker_type: t.into(),
        supply_fixed: false,
        allow_governance_control: true,
        allow_forced_transfer: false,
        required_attributes: vec![],
    };
    QueryMarkerResponse {
        marker: Some(Any {
            type_url: "/provenance.marker.v1.MarkerAccount".into(),
            value: m.encode_to_vec(),
        }),
    }
}

pub fn raw_dump(st: &dyn Storage) -> Raw {
    st.range(None, None, Order::Ascending).collect()
}

fn ns_key(ns: &str) -> Vec<u8> {
    let mut k = vec![0u8, ns.len() as u8];
    k.extend_from_slice(ns.as_bytes());
    k
}

pub enum Entry {
    Ask(String, AskOrderV1),
    Bid3(String, BidOrderV3),
    #[allow(deprecated)]
    Bid2(String, BidOrderV2),
    Info(ContractInfoV3),
    Version(VersionInfoV1),
    /// an entry under one of the four known keys / prefixes that does not decode
    Unknown(String),
    /// a storage item outside the book, the configuration and the version record (bookkeeping
    /// the properties do not speak about): counted, not judged
    Foreign(String),
}

#[allow(deprecated)]
pub fn decode_entry(k: &[u8], v: &[u8]) -> Entry {
    let askp = ns_key("ask");
    let bidp = ns_key("bid");
    let hexk = || k.iter().map(|b| format!("{:02x}", b)).collect::<String>();
    if k.starts_with(&askp) {
        if let (Ok(key), Ok(a)) = (String::from_utf8(k[askp.len()..].to_vec()), from_slice::<AskOrderV1>(v)) {
            return Entry::Ask(key, a);
        }
        return Entry::Unknown(hexk());
    }
    if k.starts_with(&bidp) {
        if let Ok(key) = String::from_utf8(k[bidp.len()..].to_vec()) {
            if let Ok(b) = from_slice::<BidOrderV3>(v) {
                return Entry::Bid3(key, b);
            }
            if let Ok(b) = from_slice::<BidOrderV2>(v) {
                return Entry::Bid2(key, b);
            }
        }
        return Entry::Unknown(hexk());
    }
    if k == b"contract_info" {
        if let Ok(i) = from_slice::<ContractInfoV3>(v) {
            return Entry::Info(i);
        }
    }
    if k == b"version_info" {
        if let Ok(i) = from_slice::<VersionInfoV1>(v) {
            return Entry::Version(i);
        }
    }
    if k == b"contract_info" || k == b"version_info" {
        return Entry::Unknown(hexk());
    }
    Entry::Foreign(hexk())
}

pub fn err_kind(e: &ContractError) -> String {
    let d = format!("{:?}", e);
    let end = d.find(|c: char| !(c.is_ascii_alphanumeric() || c == '_')).unwrap_or(d.len());
    d[..end].to_string()
}

pub enum Outcome {
    Ok(Response),
    Err(String),
}

impl World {
    pub fn new() -> World {
        let mut deps = mock_provenance_dependencies();
        let tables = Rc::new(RefCell::new(Tables::default()));
        let t1 = tables.clone();
        deps.querier.register_custom_query(
            "/provenance.marker.v1.Query/Marker".to_string(),
            Box::new(move |data: &Binary| {
                let req = match QueryMarkerRequest::decode(data.as_slice()) {
                    Ok(r) => r,
                    Err(_) => {
                        return SystemResult::Err(SystemError::InvalidRequest {
                            error: "bad marker request".into(),
                            request: data.clone(),
                        })
                    }
                };
                match t1.borrow().markers.get(&req.id).copied().unwrap_or(0) {
                    2 => SystemResult::Ok(ContractResult::Ok(
                        to_binary(&marker_resp(&req.id, MarkerType::Restricted)).unwrap(),
                    )),
                    1 => SystemResult::Ok(ContractResult::Ok(
                        to_binary(&marker_resp(&req.id, MarkerType::Coin)).unwrap(),
                    )),
                    _ => SystemResult::Ok(ContractResult::Err("no marker".into())),
                }
            }),
        );
        let t2 = tables.clone();
        deps.querier.register_custom_query(
            "/provenance.attribute.v1.Query/Attributes".to_string(),
            Box::new(move |data: &Binary| {
                let req = match QueryAttributesRequest::decode(data.as_slice()) {
                    Ok(r) => r,
                    Err(_) => {
                        return SystemResult::Err(SystemError::InvalidRequest {
                            error: "bad attribute request".into(),
                            request: data.clone(),
                        })
                    }
                };
                let names = match t2.borrow().attrs.get(&req.account) {
                    Some(None) => return SystemResult::Ok(ContractResult::Err("attribute query failed".into())),
                    Some(Some(v)) => v.clone(),
                    None => vec![],
                };
                let resp = QueryAttributesResponse {
                    account: req.account.clone(),
                    attributes: names
                        .into_iter()
                        .map(|n| Attribute {
                            name: n,
                            value: b"v".to_vec(),
                            attribute_type: AttributeType::String.into(),
                            address: req.account.clone(),
                        })
                        .collect(),
                    pagination: None,
                };
                SystemResult::Ok(ContractResult::Ok(to_binary(&resp).unwrap()))
            }),
        );
        let contract = mock_env().contract.address.to_string();
        World {
            deps,
            tables,
            trace: String::new(),
            contract,
            seen_asks: vec![],
            seen_bids: vec![],
            stats: Stats::default(),
            mark: 0,
        }
    }

    pub fn line(&mut self, s: &str) {
        self.trace.push_str(s);
        self.trace.push('\n');
    }

    fn restore(&mut self, snap: &Raw) {
        let keys: Vec<Vec<u8>> = raw_dump(&self.deps.storage).into_keys().collect();
        for k in keys {
            self.deps.storage.remove(&k);
        }
        for (k, v) in snap {
            self.deps.storage.set(k, v);
        }
    }

    fn env_line(&mut self, sender: &str, addrs: &[String]) {
        self.mark = self.trace.len();
        let t = self.tables.borrow().clone();
        let restricted: Vec<String> =
            t.markers.iter().filter(|(_, v)| **v == 2).map(|(k, _)| k.clone()).collect();
        let attrs = match t.attrs.get(sender) {
            Some(None) => "N".to_string(),
            Some(Some(v)) => format!("S {}", wire::list_str(v)),
            None => "S 0".to_string(),
        };
        let api = MockApi::default();
        let mut invalid: Vec<String> = vec![];
        for a in addrs {
            if api.addr_validate(a).is_err() && !invalid.contains(a) {
                invalid.push(a.clone());
            }
        }
        let l = format!(
            "E {} {} {} {} {} {}",
            wire::enc(&self.contract),
            wire::list_str(&restricted),
            attrs,
            wire::list_str(&invalid),
            wire::enc(PACKAGE_VERSION),
            wire::enc(CRATE_NAME)
        );
        self.line(&l);
    }

    fn emit_deltas(&mut self, before: &Raw, after: &Raw) {
        let mut lines = vec![];
        for (k, v) in after {
            if before.get(k) != Some(v) {
                if let Entry::Foreign(h) = decode_entry(k, v) {
                    self.stats.branch(&format!("foreign_key_written:{}", String::from_utf8_lossy(k).chars().filter(|c| c.is_ascii_graphic()).take(24).collect::<String>()));
                    let _ = h;
                    continue;
                }
                lines.push(match decode_entry(k, v) {
                    Entry::Ask(key, a) => format!("DA {} {}", wire::enc(&key), wire::ask(&a)),
                    Entry::Bid3(key, b) => format!("DB3 {} {}", wire::enc(&key), wire::bid3(&b)),
                    Entry::Bid2(key, b) => format!("DB2 {} {}", wire::enc(&key), wire::bid2(&b)),
                    Entry::Info(i) => format!("DI {}", wire::info(&i)),
                    Entry::Version(v) => format!("DV {} {}", wire::enc(&v.definition), wire::enc(&v.version)),
                    Entry::Unknown(h) | Entry::Foreign(h) => format!("DU {}", wire::enc(&h)),
                });
            }
        }
        let askp = ns_key("ask");
        let bidp = ns_key("bid");
        for k in before.keys() {
            if !after.contains_key(k) {
                if k.starts_with(&askp) {
                    if let Ok(key) = String::from_utf8(k[askp.len()..].to_vec()) {
                        lines.push(format!("XA {}", wire::enc(&key)));
                        continue;
                    }
                }
                if k.starts_with(&bidp) {
                    if let Ok(key) = String::from_utf8(k[bidp.len()..].to_vec()) {
                        lines.push(format!("XB {}", wire::enc(&key)));
                        continue;
                    }
                }
                if k == b"contract_info" || k == b"version_info" {
                    lines.push(format!("DU {}", wire::enc(&k.iter().map(|b| format!("{:02x}", b)).collect::<String>())));
                } else {
                    self.stats.branch("foreign_key_removed");
                }
            }
        }
        for l in lines {
            self.line(&l);
        }
    }

    fn emit_response(&mut self, r: &Response) {
        for sm in &r.messages {
            let l = match &sm.msg {
                CosmosMsg::Bank(BankMsg::Send { to_address, amount }) if amount.len() == 1 => {
                    format!("M bank {} {}", wire::enc(to_address), wire::coin(&amount[0]))
                }
                CosmosMsg::Stargate { type_url, value } if type_url == "/provenance.marker.v1.MsgTransferRequest" => {
                    match MsgTransferRequest::decode(value.as_slice()) {
                        Ok(t) => match &t.amount {
                            Some(c) => match c.amount.parse::<u128>() {
                                Ok(n) => format!(
                                    "M xfer {} {} {} {} {}",
                                    wire::enc(&c.denom),
                                    n,
                                    wire::enc(&t.to_address),
                                    wire::enc(&t.from_address),
                                    wire::enc(&t.administrator)
                                ),
                                Err(_) => "M other".to_string(),
                            },
                            None => "M other".to_string(),
                        },
                        Err(_) => "M other".to_string(),
                    }
                }
                _ => "M other".to_string(),
            };
            self.line(&l);
        }
        for a in &r.attributes {
            let l = format!("T {} {}", wire::enc(&a.key), wire::enc(&a.value));
            self.line(&l);
        }
    }

    /// run `f` atomically; returns the outcome
    fn atomic<F: FnOnce(&mut Deps) -> Result<Response, ContractError>>(&mut self, f: F) -> (Outcome, Raw, Raw) {
        let before = raw_dump(&self.deps.storage);
        let deps = &mut self.deps;
        let r = catch_unwind(AssertUnwindSafe(|| f(deps)));
        match r {
            Ok(Ok(resp)) => {
                let after = raw_dump(&self.deps.storage);
                (Outcome::Ok(resp), before, after)
            }
            Ok(Err(e)) => {
                // what a refused call left behind before the (emulated) rollback: reported, so that a
                // handler that writes first and refuses afterwards is seen
                let k = err_kind(&e);
                let dirty = raw_dump(&self.deps.storage);
                self.restore(&before);
                (Outcome::Err(k), before, dirty)
            }
            Err(_) => {
                let dirty = raw_dump(&self.deps.storage);
                self.restore(&before);
                (Outcome::Err("PANIC".into()), before, dirty)
            }
        }
    }

    fn finish(&mut self, kind: &str, out: &Outcome, before: &Raw, after: &Raw) {
        match out {
            Outcome::Ok(r) => {
                self.line("R ok");
                self.emit_response(r);
                self.emit_deltas(before, after);
                self.stats.bump(&format!("{}:ok", kind));
                let rec = self.trace[self.mark..].to_string();
                self.stats.note_distinct(&format!("{}:ok", kind), &rec);
            }
            Outcome::Err(k) => {
                self.line(&format!("R {}", k));
                if before != after {
                    self.emit_deltas(before, after);
                    self.stats.branch("refused_call_had_written");
                }
                self.stats.bump(&format!("{}:{}", kind, k));
                let rec = self.trace[self.mark..].to_string();
                self.stats.note_distinct(&format!("{}:{}", kind, k), &rec);
            }
        }
        self.line("Z");
    }

    pub fn start(&mut self, label: &str, start: &Start) {
        self.line(&format!("H {}", label.replace(' ', "_")));
        match start {
            Start::Instantiate { markers, attrs, msg } => {
                {
                    let mut t = self.tables.borrow_mut();
                    t.markers = markers.clone();
                    t.attrs = attrs.clone();
                }
                self.do_instantiate(msg);
            }
            Start::Seed { markers, attrs, state } => {
                {
                    let mut t = self.tables.borrow_mut();
                    t.markers = markers.clone();
                    t.attrs = attrs.clone();
                }
                let empty = Raw::new();
                let st = &mut self.deps.storage;
                set_contract_info(st, &state.info).unwrap();
                set_version_info(st, &state.version).unwrap();
                for (k, a) in &state.asks {
                    ASKS_V1.save(st, k.as_bytes(), a).unwrap();
                    self.seen_asks.push(k.clone());
                }
                for (k, b) in &state.bids3 {
                    BIDS_V3.save(st, k.as_bytes(), b).unwrap();
                    self.seen_bids.push(k.clone());
                }
                #[allow(deprecated)]
                for (k, b) in &state.bids2 {
                    BIDS_V2.save(st, k.as_bytes(), b).unwrap();
                    self.seen_bids.push(k.clone());
                }
                let after = raw_dump(&self.deps.storage);
                self.emit_deltas(&empty, &after);
                self.line("CS");
            }
        }
    }

    pub fn do_instantiate(&mut self, msg: &InstantiateMsg) -> bool {
        let mut addrs: Vec<String> = msg.approvers.clone();
        addrs.extend(msg.executors.clone());
        addrs.extend(msg.ask_fee_account.clone());
        addrs.extend(msg.bid_fee_account.clone());
        self.env_line("admin", &addrs);
        self.line(&format!("CI {}", wire::inst_msg(msg)));
        let m = msg.clone();
        let (out, b, a) = self.atomic(|d| instantiate(d.as_mut(), mock_env(), mock_info("admin", &[]), m));
        self.finish("instantiate", &out, &b, &a);
        matches!(out, Outcome::Ok(_))
    }

    fn exec_addrs(msg: &ExecuteMsg) -> Vec<String> {
        match msg {
            ExecuteMsg::ModifyContract { approvers, executors, ask_fee_account, bid_fee_account, .. } => {
                let mut v = vec![];
                v.extend(approvers.clone().unwrap_or_default());
                v.extend(executors.clone().unwrap_or_default());
                v.extend(ask_fee_account.clone());
                v.extend(bid_fee_account.clone());
                v
            }
            _ => vec![],
        }
    }

    pub fn kind_of(msg: &ExecuteMsg) -> &'static str {
        match msg {
            ExecuteMsg::ApproveAsk { .. } => "approve_ask",
            ExecuteMsg::CancelAsk { .. } => "cancel_ask",
            ExecuteMsg::CancelBid { .. } => "cancel_bid",
            ExecuteMsg::CreateAsk { .. } => "create_ask",
            ExecuteMsg::CreateBid { .. } => "create_bid",
            ExecuteMsg::ExecuteMatch { .. } => "execute_match",
            ExecuteMsg::ExpireAsk { .. } => "expire_ask",
            ExecuteMsg::ExpireBid { .. } => "expire_bid",
            ExecuteMsg::RejectAsk { .. } => "reject_ask",
            ExecuteMsg::RejectBid { .. } => "reject_bid",
            ExecuteMsg::ModifyContract { .. } => "modify_contract",
            #[allow(unreachable_patterns)]
            _ => "unknown_exec",
        }
    }

    /// one execute call; `probe` = run on a copy (always rolled back)
    pub fn do_exec(&mut self, sender: &str, funds: &[Coin], msg: &ExecuteMsg, probe: bool) -> bool {
        self.env_line(sender, &Self::exec_addrs(msg));
        self.line(&format!(
            "{} {} {} {}",
            if probe { "CP" } else { "CX" },
            wire::enc(sender),
            wire::coins(funds),
            wire::exec_msg(msg)
        ));
        let m = msg.clone();
        let s = sender.to_string();
        let f = funds.to_vec();
        let (out, b, a) = self.atomic(|d| execute(d.as_mut(), mock_env(), mock_info(&s, &f), m));
        let kind = if probe { format!("probe_{}", Self::kind_of(msg)) } else { Self::kind_of(msg).to_string() };
        self.finish(&kind, &out, &b, &a);
        let ok = matches!(out, Outcome::Ok(_));
        if probe {
            self.restore(&b);
            self.stats.probes += 1;
        } else if ok {
            match msg {
                ExecuteMsg::CreateAsk { id, .. } => self.seen_asks.push(id.clone()),
                ExecuteMsg::CreateBid { id, .. } => self.seen_bids.push(id.clone()),
                _ => {}
            }
            if let Outcome::Ok(r) = &out {
                self.note_branches(msg, r);
            }
        }
        ok
    }

    /// attempt a request on a copy of the state: judged like an executed request, the history
    /// does not advance; returns the storage the request would have left when it is accepted
    pub fn do_try(&mut self, sender: &str, funds: &[Coin], msg: &ExecuteMsg) -> Option<Raw> {
        self.env_line(sender, &Self::exec_addrs(msg));
        self.line(&format!("CT {} {} {}", wire::enc(sender), wire::coins(funds), wire::exec_msg(msg)));
        let m = msg.clone();
        let s = sender.to_string();
        let f = funds.to_vec();
        let (out, b, a) = self.atomic(|d| execute(d.as_mut(), mock_env(), mock_info(&s, &f), m));
        let kind = Self::kind_of(msg).to_string();
        self.finish(&kind, &out, &b, &a);
        let ok = matches!(out, Outcome::Ok(_));
        if let (true, Outcome::Ok(r)) = (ok, &out) {
            self.note_branches(msg, r);
        }
        self.restore(&b);
        if ok {
            Some(a)
        } else {
            None
        }
    }

    /// a request of a kind the model has no handler for, on a copy of the state
    pub fn do_unknown(&mut self, sender: &str, funds: &[Coin], kind: &str, json: &str) {
        let msg = match crate::unknown::parse(json) {
            Some(m) => m,
            None => {
                // not a request of this tree's contract (a replay on a tree without that kind)
                self.stats.branch("unknown:unparsable");
                return;
            }
        };
        self.env_line(sender, &[]);
        self.line(&format!("CU {} {} {} {}", wire::enc(sender), wire::coins(funds), wire::enc(kind), wire::enc(json)));
        let s = sender.to_string();
        let f = funds.to_vec();
        let (out, b, a) = self.atomic(|d| execute(d.as_mut(), mock_env(), mock_info(&s, &f), msg));
        self.finish("unknown_exec", &out, &b, &a);
        self.stats.branch(&format!("unknown:{}:{}", kind, if matches!(out, Outcome::Ok(_)) { "ok" } else { "err" }));
        self.restore(&b);
    }

    fn note_branches(&mut self, msg: &ExecuteMsg, r: &Response) {
        let get = |k: &str| r.attributes.iter().find(|a| a.key == k).map(|a| a.value.clone());
        match msg {
            ExecuteMsg::ExecuteMatch { .. } => {
                let af = get("ask_fee").unwrap_or_default();
                let bf = get("bid_fee").unwrap_or_default();
                self.stats.branch(if af == "0" { "match:ask_fee=0" } else { "match:ask_fee>0" });
                self.stats.branch(if bf == "0" { "match:bid_fee=0" } else { "match:bid_fee>0" });
                self.stats.branch(&format!("match:msgs={}", r.messages.len()));
            }
            ExecuteMsg::RejectAsk { size, .. } | ExecuteMsg::RejectBid { size, .. } => {
                let open = get("order_open").unwrap_or_default();
                self.stats.branch(&format!(
                    "reject:{}:{}",
                    if size.is_some() { "partial" } else { "full" },
                    if open == "true" { "stays" } else { "closes" }
                ));
            }
            _ => {}
        }
    }

    pub fn do_migrate(&mut self, msg: &MigrateMsg) -> bool {
        let mut addrs: Vec<String> = msg.approvers.clone().unwrap_or_default();
        addrs.extend(msg.ask_fee_account.clone());
        addrs.extend(msg.bid_fee_account.clone());
        self.env_line("admin", &addrs);
        self.line(&format!("CM {}", wire::mig_msg(msg)));
        let m = msg.clone();
        let (out, b, a) = self.atomic(|d| migrate(d.as_mut(), mock_env(), m));
        self.finish("migrate", &out, &b, &a);
        matches!(out, Outcome::Ok(_))
    }

    pub fn do_query(&mut self, q: &QueryMsg) {
        self.env_line("admin", &[]);
        self.line(&format!("CQ {}", wire::query_msg(q)));
        let before = raw_dump(&self.deps.storage);
        let deps = &self.deps;
        let qq = q.clone();
        let r = catch_unwind(AssertUnwindSafe(|| query(deps.as_ref(), mock_env(), qq)));
        let after = raw_dump(&self.deps.storage);
        self.stats.queries += 1;
        match r {
            Ok(Ok(bin)) => {
                self.line("R ok");
                let l = match q {
                    QueryMsg::GetAsk { .. } => from_slice::<AskOrderV1>(bin.as_slice()).map(|a| format!("QA {}", wire::ask(&a))),
                    QueryMsg::GetBid { .. } => from_slice::<BidOrderV3>(bin.as_slice()).map(|b| format!("QB {}", wire::bid3(&b))),
                    QueryMsg::GetContractInfo {} => from_slice::<ContractInfoV3>(bin.as_slice()).map(|i| format!("QI {}", wire::info(&i))),
                    QueryMsg::GetVersionInfo {} => from_slice::<VersionInfoV1>(bin.as_slice())
                        .map(|v| format!("QV {} {}", wire::enc(&v.definition), wire::enc(&v.version))),
                    #[allow(unreachable_patterns)]
                    _ => Ok("QU".to_string()),
                };
                if let Ok(l) = l {
                    self.line(&l);
                }
                self.stats.bump("query:ok");
            }
            Ok(Err(_)) => {
                self.line("R Std");
                self.stats.bump("query:err");
            }
            Err(_) => {
                self.line("R PANIC");
                self.stats.bump("query:PANIC");
            }
        }
        self.line(if before == after { "QS same" } else { "QS changed" });
        self.line("Z");
    }

    pub fn step(&mut self, st: &Step) {
        self.stats.steps += 1;
        match st {
            Step::Exec { sender, funds, msg } => {
                self.do_exec(sender, funds, msg, false);
            }
            Step::Probe { sender, funds, msg } => {
                self.do_exec(sender, funds, msg, true);
            }
            Step::Try { sender, funds, msg } => {
                self.do_try(sender, funds, msg);
            }
            Step::Unknown { sender, funds, kind, json } => {
                self.do_unknown(sender, funds, kind, json);
            }
            Step::Migrate { msg } => {
                self.do_migrate(msg);
            }
            Step::Query { msg } => self.do_query(msg),
            Step::SetMarker { denom, kind } => {
                self.tables.borrow_mut().markers.insert(denom.clone(), *kind);
            }
            Step::SetAttrs { account, names } => {
                self.tables.borrow_mut().attrs.insert(account.clone(), names.clone());
            }
        }
        let (na, nb) = self.book_sizes();
        self.stats.max_asks = self.stats.max_asks.max(na);
        self.stats.max_bids = self.stats.max_bids.max(nb);
    }

    pub fn book_sizes(&self) -> (usize, usize) {
        let (a, b, _) = self.book();
        (a.len(), b.len())
    }

    /// bids still stored in the old (event-log) format: key and owner
    pub fn old_bids(&self) -> Vec<(String, String)> {
        let mut v = vec![];
        for (k, val) in raw_dump(&self.deps.storage) {
            if let Entry::Bid2(key, b) = decode_entry(&k, &val) {
                v.push((key, b.owner.to_string()));
            }
        }
        v
    }

    /// decoded book: asks, V3 bids, contract info
    pub fn book(&self) -> (Vec<(String, AskOrderV1)>, Vec<(String, BidOrderV3)>, Option<ContractInfoV3>) {
        let mut asks = vec![];
        let mut bids = vec![];
        let mut info = None;
        for (k, v) in raw_dump(&self.deps.storage) {
            match decode_entry(&k, &v) {
                Entry::Ask(key, a) => asks.push((key, a)),
                Entry::Bid3(key, b) => bids.push((key, b)),
                Entry::Info(i) => info = Some(i),
                _ => {}
            }
        }
        (asks, bids, info)
    }
}
