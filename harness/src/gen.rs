//! Seeded, state-aware generation of histories.  Every random choice comes from one splitmix64
//! state, so a seed reproduces a run exactly; the produced `History` replays without the PRNG.
use crate::hist::{History, SeedState, Start, Step};
use crate::world::World;
use ats_smart_contract::ask_order::{AskOrderClass, AskOrderStatus, AskOrderV1};
#[allow(deprecated)]
use ats_smart_contract::bid_order::{BidOrderV2, BidOrderV3};
use ats_smart_contract::common::{Action, BlockInfo, Event, FeeInfo};
use ats_smart_contract::contract_info::ContractInfoV3;
use ats_smart_contract::msg::{ExecuteMsg, InstantiateMsg, MigrateMsg, QueryMsg};
use ats_smart_contract::version_info::VersionInfoV1;
use cosmwasm_std::{coin, Addr, Coin, Timestamp, Uint128};
use std::collections::BTreeMap;

#[derive(Clone)]
pub struct Rng(pub u64);
impl Rng {
    pub fn next(&mut self) -> u64 {
        self.0 = self.0.wrapping_add(0x9E3779B97F4A7C15);
        let mut z = self.0;
        z = (z ^ (z >> 30)).wrapping_mul(0xBF58476D1CE4E5B9);
        z = (z ^ (z >> 27)).wrapping_mul(0x94D049BB133111EB);
        z ^ (z >> 31)
    }
    pub fn below(&mut self, n: u64) -> u64 {
        if n == 0 {
            0
        } else {
            self.next() % n
        }
    }
    pub fn pct(&mut self, p: u64) -> bool {
        self.below(100) < p
    }
    pub fn pick<'a, T>(&mut self, v: &'a [T]) -> &'a T {
        &v[self.below(v.len() as u64) as usize]
    }
    pub fn big(&mut self, bits: u32) -> u128 {
        let v = ((self.next() as u128) << 64) | self.next() as u128;
        if bits >= 128 {
            v
        } else {
            v & ((1u128 << bits) - 1)
        }
    }
    /// random value of 1..=maxbits bits
    pub fn bigr(&mut self, maxbits: u64) -> u128 {
        let b = 1 + self.below(maxbits) as u32;
        self.big(b)
    }
    pub fn uuid(&mut self) -> String {
        // the two extreme uuids are ids like any other
        match self.below(400) {
            0 => return "00000000-0000-0000-0000-000000000000".to_string(),
            1 => return "ffffffff-ffff-ffff-ffff-ffffffffffff".to_string(),
            _ => {}
        }
        let a = self.next();
        let b = self.next();
        let h = format!("{:016x}{:016x}", a, b);
        format!("{}-{}-{}-{}-{}", &h[0..8], &h[8..12], &h[12..16], &h[16..20], &h[20..32])
    }
}

pub const ACCTS: [&str; 8] = ["alice", "bob", "carol", "dave", "erin", "frank", "gina", "hank"];
pub const BASE: &str = "base";
// (one traded denomination is a fragment of another: "quote1" of "quote12", the base of "base2")
pub const CONVS: [&str; 2] = ["conv1", "base2"];
pub const QUOTES: [&str; 2] = ["quote1", "quote12"];

#[derive(Clone, Copy, PartialEq, Debug)]
pub enum Profile {
    Small,
    Realistic,
    Huge,
    Malformed,
}

#[derive(Clone, Debug)]
pub struct Weights {
    pub create_ask: u64,
    pub create_bid: u64,
    pub approve: u64,
    pub matchx: u64,
    pub cancel_ask: u64,
    pub cancel_bid: u64,
    pub expire_ask: u64,
    pub expire_bid: u64,
    pub reject_ask: u64,
    pub reject_bid: u64,
    pub modify: u64,
    pub env: u64,
    pub probe_pct: u64,
    pub query_pct: u64,
    pub perturb_pct: u64,
}

impl Weights {
    pub fn base() -> Weights {
        Weights {
            create_ask: 14,
            create_bid: 14,
            approve: 8,
            matchx: 22,
            cancel_ask: 4,
            cancel_bid: 4,
            expire_ask: 3,
            expire_bid: 3,
            reject_ask: 7,
            reject_bid: 7,
            modify: 4,
            env: 2,
            probe_pct: 15,
            query_pct: 10,
            perturb_pct: 30,
        }
    }
    pub fn for_prop(p: &str) -> Weights {
        let mut w = Weights::base();
        match p {
            "C02" | "C03" => {
                w.matchx = 40;
                w.reject_bid = 10;
            }
            "C09" => {
                // fee at entry, fee on fills, fee on partial rejects
                w.matchx = 34;
                w.reject_bid = 12;
                w.create_bid = 22;
                w.perturb_pct = 40;
            }
            "C04" | "C08" => {
                w.reject_ask = 14;
                w.reject_bid = 14;
                w.approve = 12;
                w.cancel_ask = 7;
                w.cancel_bid = 7;
            }
            "C05" => w.perturb_pct = 45,
            "C06" => w.probe_pct = 60,
            "C07" => {
                w.create_ask = 30;
                w.create_bid = 30;
                w.perturb_pct = 55;
            }
            "C10" => w.env = 8,
            "C12" => {
                w.modify = 25;
            }
            "C16" => w.query_pct = 70,
            _ => {}
        }
        w
    }
}

/// a decimal written as mantissa / 10^scale (generation helper only)
#[derive(Clone, Copy, Debug)]
pub struct D {
    pub m: u128,
    pub s: u32,
}
impl D {
    pub fn parse(s: &str) -> Option<D> {
        let t = s.trim_start_matches('+');
        if t.is_empty() || t.starts_with('-') {
            return None;
        }
        let mut m: u128 = 0;
        let mut sc = 0u32;
        let mut point = false;
        let mut any = false;
        for c in t.chars() {
            if c == '.' {
                if point {
                    return None;
                }
                point = true;
            } else if c == '_' {
                // rust_decimal accepts an underscore only after the first digit
                if !any {
                    return None;
                }
                continue;
            } else if let Some(d) = c.to_digit(10) {
                m = m.checked_mul(10)?.checked_add(d as u128)?;
                if point {
                    sc += 1;
                }
                any = true;
            } else {
                return None;
            }
        }
        // a long form (more than 28 fractional digits, the excess all zeros) is the same number
        while sc > 28 && m % 10 == 0 {
            m /= 10;
            sc -= 1;
        }
        if !any || sc > 28 {
            return None;
        }
        Some(D { m, s: sc })
    }
    pub fn render(&self) -> String {
        let digits = self.m.to_string();
        if self.s == 0 {
            return digits;
        }
        let s = self.s as usize;
        let padded = if digits.len() <= s { format!("{}{}", "0".repeat(s + 1 - digits.len()), digits) } else { digits };
        let (a, b) = padded.split_at(padded.len() - s);
        format!("{}.{}", a, b)
    }
    /// mant*n / 10^s when exact
    pub fn times(&self, n: u128) -> Option<u128> {
        let p = self.m.checked_mul(n)?;
        let d = 10u128.checked_pow(self.s)?;
        if p % d == 0 {
            Some(p / d)
        } else {
            None
        }
    }
    /// nearest integer to self * n, halves up
    pub fn fee_of(&self, n: u128) -> Option<u128> {
        let d = 10u128.checked_pow(self.s)?;
        let num = self.m.checked_mul(n)?.checked_mul(2)?.checked_add(d)?;
        Some(num / d.checked_mul(2)?)
    }
    pub fn lt(&self, o: &D) -> bool {
        // compare m/10^s
        let a = self.m.checked_mul(10u128.pow(o.s));
        let b = o.m.checked_mul(10u128.pow(self.s));
        match (a, b) {
            (Some(a), Some(b)) => a < b,
            _ => false,
        }
    }
    pub fn le(&self, o: &D) -> bool {
        !o.lt(self)
    }
}

pub struct Gen {
    pub rng: Rng,
    pub profile: Profile,
    pub w: Weights,
}

/// the same number written with 29 – 31 fractional digits (trailing zeros): `Decimal::from_str`
/// rounds such a string back, `from_str_exact` refuses it
fn long_form(rng: &mut Rng, s: &str) -> String {
    let (int, frac) = match s.split_once('.') {
        Some((a, b)) => (a.to_string(), b.to_string()),
        None => (s.to_string(), String::new()),
    };
    if !frac.chars().all(|c| c.is_ascii_digit()) || frac.len() > 28 {
        return s.to_string();
    }
    let want = 29 + rng.below(3) as usize;
    format!("{}.{}{}", int, frac, "0".repeat(want - frac.len()))
}

/// a denomination whose name is a proper fragment (or an extension) of a configured one: "uote1",
/// "quote", "quote1x" for "quote1" – never one the contract trades
fn fragment(rng: &mut Rng, d: &str) -> String {
    if d.len() < 2 {
        return format!("{}x", d);
    }
    match rng.below(3) {
        0 => d[1..].to_string(),
        1 => d[..d.len() - 1].to_string(),
        _ => format!("{}x", d),
    }
}

fn respell(rng: &mut Rng, s: &str) -> String {
    match rng.below(8) {
        6 | 7 => long_form(rng, s),
        0 => format!("{}{}", s, if s.contains('.') { "0" } else { ".0" }),
        1 => format!("0{}", s),
        2 => format!("+{}", s),
        3 => format!("{}{}", s, if s.contains('.') { "00" } else { ".00" }),
        4 => {
            if s.len() > 1 && !s.contains('.') {
                format!("{}_{}", &s[..1], &s[1..])
            } else {
                s.to_string()
            }
        }
        _ => s.to_string(),
    }
}

impl Gen {
    pub fn new(seed: u64, profile: Profile, w: Weights) -> Gen {
        Gen { rng: Rng(seed), profile, w }
    }

    pub fn price(&mut self, precision: u32) -> String {
        let r = &mut self.rng;
        let d = match self.profile {
            Profile::Small | Profile::Malformed => {
                let table: [(u128, u32); 14] = [
                    (1, 0), (2, 0), (3, 0), (5, 0), (10, 0), (7, 0), (100, 0), (5, 1), (15, 1), (25, 1),
                    (25, 2), (125, 2), (1, 3), (33, 1),
                ];
                let ok: Vec<(u128, u32)> = table.iter().cloned().filter(|(_, s)| *s <= precision).collect();
                let (m, s) = *r.pick(&ok);
                D { m, s }
            }
            Profile::Realistic => {
                let s = (r.below(7) as u32).min(precision);
                let k = 3 + r.below(6) as u32;
                D { m: 1 + r.below(10u64.pow(k)) as u128, s }
            }
            Profile::Huge => {
                let s = (r.below(19) as u32).min(precision);
                let bits = 20 + r.below(72) as u32;
                D { m: 1 + r.big(bits), s }
            }
        };
        let base = d.render();
        if r.pct(15) {
            respell(r, &base)
        } else {
            base
        }
    }

    pub fn lots(&mut self) -> u128 {
        let r = &mut self.rng;
        match self.profile {
            Profile::Small | Profile::Malformed => 1 + r.below(8) as u128,
            Profile::Realistic => 1 + r.below(1_000_000) as u128,
            Profile::Huge => { let b = 10 + r.below(80) as u32; 1 + r.big(b) }
        }
    }

    pub fn subset(&mut self, pool: &[&str], nonempty: bool) -> Vec<String> {
        let mut v: Vec<String> = pool.iter().filter(|_| self.rng.pct(55)).map(|s| s.to_string()).collect();
        if nonempty && v.is_empty() {
            v.push(self.rng.pick(pool).to_string());
        }
        v
    }

    pub fn rate(&mut self) -> String {
        // (rates above 1 are legal: the fee then exceeds what it is a fee on)
        let rates = ["0", "0.003", "0.01", "0.010", "0.1", "0.25", "0.5", "1", "0.0005", "0.02", "0.15", "0.0126", "0.125", "0.0349", "1.5", "2"];
        if self.profile == Profile::Malformed && self.rng.pct(20) {
            return self.rng.pick(&["-0.1", "abc", "1e-3", "", " 0.1", "0..1", "0.02 ", "\t0.1", "+0.1", "0.1_", "_0.1", "0.1\n", "0,1", "0.33333333333333333333333333333", "0.02000000000000000000000000005zz"]).to_string();
        }
        if self.rng.pct(3) {
            return "-0.1".to_string();
        }
        if self.rng.pct(6) {
            // a valid rate written with more fractional digits than a 96-bit decimal keeps
            return self.rng.pick(&["0.010000000000000000000000000000", "0.0025000000000000000520417042793", "0.10000000000000000000000000000", "0.33333333333333333333333333333"]).to_string();
        }
        self.rng.pick(&rates).to_string()
    }

    pub fn tables(&mut self) -> (BTreeMap<String, u8>, BTreeMap<String, Option<Vec<String>>>) {
        let mut markers = BTreeMap::new();
        for d in [BASE, CONVS[0], CONVS[1], QUOTES[0], QUOTES[1]] {
            markers.insert(d.to_string(), *self.rng.pick(&[0u8, 1, 2, 2]));
        }
        let mut attrs = BTreeMap::new();
        for a in ACCTS {
            let v = match a {
                "gina" => Some(vec![]),
                "hank" => {
                    if self.rng.pct(50) {
                        None
                    } else {
                        Some(vec!["kyc".to_string()])
                    }
                }
                // one attribute held twice (two records with the same name), the other one missing
                "frank" if self.rng.pct(30) => Some(vec!["kyc".to_string(), "kyc".to_string()]),
                _ => Some(vec!["kyc".to_string(), "accred".to_string(), "extra".to_string()]),
            };
            attrs.insert(a.to_string(), v);
        }
        (markers, attrs)
    }

    pub fn inst_valid(&mut self) -> InstantiateMsg {
        let precision = *self.rng.pick(&[0u32, 0, 0, 1, 2, 2, 3, 6, 18, 9, 10, 12, 2, 0]);
        let mult = *self.rng.pick(&[1u128, 1, 1, 2, 5, 10, 100]);
        let increment = 10u128.pow(precision) * mult;
        let mut quotes: Vec<String> = QUOTES.iter().map(|s| s.to_string()).collect();
        if self.rng.pct(10) {
            quotes.push(BASE.to_string());
        }
        if self.rng.pct(15) {
            quotes.truncate(1);
        }
        let mut convs: Vec<String> = if self.rng.pct(10) { vec![] } else { CONVS.iter().map(|s| s.to_string()).collect() };
        if self.rng.pct(8) {
            // unusual but accepted configuration: the base denomination is also listed as convertible
            convs.push(BASE.to_string());
        }
        // a denomination listed twice (legal: nothing validates the lists)
        if self.rng.pct(5) && !quotes.is_empty() {
            let q = quotes[0].clone();
            quotes.push(q);
        }
        if self.rng.pct(5) && !convs.is_empty() {
            let c = convs[0].clone();
            convs.insert(0, c);
        }
        let (afr, afa) = if self.rng.pct(50) {
            (None, None)
        } else {
            (Some(self.rate()), Some(self.rng.pick(&["frank", "erin", "alice", "carol"]).to_string()))
        };
        let (bfr, bfa) = if self.rng.pct(45) {
            (None, None)
        } else {
            (Some(self.rate()), Some(self.rng.pick(&["frank", "erin", "alice", "carol", "bob"]).to_string()))
        };
        let req = |g: &mut Gen| -> Vec<String> {
            match g.rng.below(9) {
                0 => vec!["kyc".to_string()],
                1 => vec!["kyc".to_string(), "accred".to_string()],
                // a name listed twice (legal, nothing validates the list): still satisfiable
                2 => g.rng.pick(&[vec!["kyc", "kyc"], vec!["kyc", "accred", "kyc"]]).iter().map(|x| x.to_string()).collect(),
                _ => vec![],
            }
        };
        InstantiateMsg {
            name: "ats".into(),
            base_denom: BASE.into(),
            convertible_base_denoms: convs,
            supported_quote_denoms: quotes,
            approvers: self.subset(&["carol", "dave", "alice"], true),
            executors: {
                let mut e = self.subset(&["dave", "bob"], false);
                e.push("erin".to_string());
                e
            },
            ask_fee_rate: afr,
            ask_fee_account: afa,
            bid_fee_rate: bfr,
            bid_fee_account: bfa,
            ask_required_attributes: req(self),
            bid_required_attributes: req(self),
            price_precision: Uint128::new(precision as u128),
            size_increment: Uint128::new(increment),
        }
    }

    /// any instantiate message: valid ones and every kind of incoherence (C13)
    pub fn inst_any(&mut self) -> InstantiateMsg {
        let mut m = self.inst_valid();
        let n = self.rng.below(4);
        for _ in 0..n {
            match self.rng.below(15) {
                14 => {
                    // a bid rate without its account
                    m.bid_fee_account = None;
                    if m.bid_fee_rate.is_none() {
                        m.bid_fee_rate = Some("0.02".into());
                    }
                }
                0 => m.name = "".into(),
                1 => m.base_denom = "".into(),
                2 => m.supported_quote_denoms = vec![],
                3 => m.executors = vec![],
                4 => m.approvers = vec![],
                5 => {
                    // the bound itself (18 / 19) as often as everything else together
                    let p = if self.rng.pct(50) { *self.rng.pick(&[17u32, 18, 18, 19, 19, 19, 20]) } else { self.rng.below(21) as u32 };
                    m.price_precision = Uint128::new(p as u128);
                    if self.rng.pct(25) {
                        // precisions whose low 8 / 16 / 32 / 64 bits look legal (a narrowing cast before the bound)
                        let hi = *self.rng.pick(&[1u128 << 8, 1 << 16, 1 << 32, 3 << 32, 1 << 64, 1 << 127, u128::MAX - 18]);
                        m.price_precision = Uint128::new(hi.saturating_add(p.min(18) as u128));
                    }
                    let pw = 10u128.pow(p.min(25));
                    let k = 1 + self.rng.below(12) as u128;
                    m.size_increment = Uint128::new(match self.rng.below(8) {
                        0 | 6 | 7 => pw * k,
                        1 => pw * k + 1,
                        2 => (pw * k).saturating_sub(1),
                        3 => pw / 10,
                        4 => 0,
                        _ => pw,
                    });
                    if self.rng.pct(12) {
                        // coherent increments beyond 2^64 / 2^96 (anything converting them to a 96-bit
                        // decimal or a narrower integer breaks): the largest multiples of 10^p that fit
                        let lim = *self.rng.pick(&[1u128 << 64, 1 << 96, (1 << 96) + 12345, 1 << 127, u128::MAX]);
                        let inc = lim - lim % pw;
                        if inc >= 1 {
                            m.size_increment = Uint128::new(inc);
                        }
                    }
                }
                6 => m.ask_fee_rate = None,
                7 => m.ask_fee_account = None,
                8 => {
                    m.ask_fee_rate = Some("".into());
                    m.ask_fee_account = Some("".into());
                }
                9 => {
                    let r = self.rng.pick(&["abc", "", "1e3", "0.5", "-1", ".5", "5.", "1_0", "0.1234567890123456789012345678", "0.02 ", " 0.02", "+0.5", "0.5\n", "0x1", "0.33333333333333333333333333333", "0.010000000000000000000000000049", "0.00000000000000000000000000005x", "0.1000000000000000000000000000_"]).to_string();
                    if self.rng.pct(50) {
                        m.bid_fee_rate = Some(r);
                        if m.bid_fee_account.is_none() {
                            m.bid_fee_account = Some("frank".into());
                        }
                    } else {
                        m.ask_fee_rate = Some(r);
                        if m.ask_fee_account.is_none() {
                            m.ask_fee_account = Some("frank".into());
                        }
                    }
                }
                10 => m.bid_fee_account = Some(self.rng.pick(&["ab", "Frank", "", "frank", "a_very_long_address_that_is_fine_0123456789"]).to_string()),
                11 => m.approvers.push(self.rng.pick(&["ab", "Carol", "", "zed"]).to_string()),
                12 => m.executors.push(self.rng.pick(&["x", "ERIN", "zed"]).to_string()),
                _ => {
                    m.bid_fee_rate = Some("".into());
                    m.bid_fee_account = Some(self.rng.pick(&["", "frank", " "]).to_string());
                    if self.rng.pct(15) {
                        m.bid_fee_rate = Some(" ".into());
                    }
                }
            }
        }
        m
    }

    fn acct(&mut self) -> String {
        self.rng.pick(&ACCTS).to_string()
    }

    fn marker(&self, w: &World, d: &str) -> u8 {
        w.tables.borrow().markers.get(d).copied().unwrap_or(0)
    }

    fn funds_for(&mut self, w: &World, denom: &str, amount: u128) -> Vec<Coin> {
        if self.marker(w, denom) == 2 {
            vec![]
        } else {
            vec![coin(amount, denom)]
        }
    }

    fn perturb_funds(&mut self, funds: &mut Vec<Coin>) {
        match self.rng.below(6) {
            0 => {
                if let Some(c) = funds.get_mut(0) {
                    c.amount = Uint128::new(c.amount.u128().wrapping_add(1));
                } else {
                    funds.push(coin(1, QUOTES[0]));
                }
            }
            1 => {
                if let Some(c) = funds.get_mut(0) {
                    c.amount = Uint128::new(c.amount.u128().saturating_sub(1));
                }
            }
            2 => funds.push(coin(1, "other")),
            3 => {
                if let Some(c) = funds.get_mut(0) {
                    c.denom = "other".into();
                }
            }
            4 => funds.clear(),
            _ => funds.push(coin(5, BASE)),
        }
    }

    fn odd_id(&mut self, w: &World, good: &str) -> String {
        let plain: String = good.chars().filter(|c| *c != '-').collect();
        match self.rng.below(11) {
            // padded with white space (before, after): not an id
            9 => format!("{}{}", good, self.rng.pick(&[" ", "\n", "\t", "  "])),
            10 => format!(" {}", good),
            0 => plain,
            1 => good.to_uppercase(),
            2 => format!("{{{}}}", good),
            3 => format!("urn:uuid:{}", good),
            4 => "".into(),
            5 => "not-a-uuid".into(),
            6 => w.seen_asks.last().cloned().unwrap_or_else(|| good.to_string()),
            7 => w.seen_bids.last().cloned().unwrap_or_else(|| good.to_string()),
            _ => format!("{}0", &good[..good.len().saturating_sub(1)]),
        }
    }

    fn gen_create_ask(&mut self, w: &World, info: &ContractInfoV3) -> Step {
        let base = if self.rng.pct(60) || info.convertible_base_denoms.is_empty() {
            info.base_denom.clone()
        } else {
            self.rng.pick(&info.convertible_base_denoms).clone()
        };
        let mut quote = self.rng.pick(&info.supported_quote_denoms).clone();
        let mut base = base;
        match self.rng.below(60) {
            // a base / quote that is only a fragment of a traded denomination, funded in that very coin
            0 => base = fragment(&mut self.rng, &base),
            1 => quote = fragment(&mut self.rng, &quote),
            _ => {}
        }
        let price = self.price(info.price_precision.u128() as u32);
        let mut size = info.size_increment.u128().saturating_mul(self.lots());
        let mut price = price;
        if self.profile == Profile::Huge && self.rng.pct(8) {
            // at the 96-bit limit of the decimal type: the largest lot multiple below 2^96, or the next one
            let inc = info.size_increment.u128().max(1);
            let below = ((1u128 << 96) - 1) / inc * inc;
            size = if self.rng.pct(50) { below } else { below.saturating_add(inc) };
            if self.rng.pct(70) {
                price = "1".to_string();
            }
        }
        if info.size_increment.u128() > 1 && self.rng.pct(6) {
            // off the size grid, everything else (totals, fee, funds) consistent with it
            size = size.saturating_add(1 + self.rng.below((info.size_increment.u128() - 1).min(1 << 40) as u64) as u128);
        }
        let mut id = self.rng.uuid();
        let mut sender = self.acct();
        let mut funds = self.funds_for(w, &base, size);
        let mut msg_base = base;
        let mut msg_quote = quote;
        let mut msg_price = price;
        let mut msg_size = size;
        if self.rng.pct(self.w.perturb_pct) {
            match self.rng.below(9) {
                0 => self.perturb_funds(&mut funds),
                1 => id = self.odd_id(w, &id),
                2 => {
                    msg_size = match self.rng.below(3) {
                        0 => size + 1,
                        1 => size.saturating_sub(1),
                        _ => 0,
                    }
                }
                3 => msg_price = self.rng.pick(&["0", "-1", "abc", "", "0.0000000000000000001", "1.23456789", "0.000", "1e2"]).to_string(),
                4 => msg_base = self.rng.pick(&["other", "", QUOTES[0]]).to_string(),
                5 => msg_quote = self.rng.pick(&["other", "", BASE, QUOTES[0], QUOTES[1]]).to_string(),
                6 => sender = self.rng.pick(&["gina", "hank"]).to_string(),
                7 => {
                    if let Some(c) = funds.get_mut(0) {
                        c.amount = Uint128::new(msg_size + 1);
                    }
                }
                _ => funds = vec![coin(msg_size, msg_base.clone())],
            }
        }
        Step::Exec {
            sender,
            funds,
            msg: ExecuteMsg::CreateAsk { id, base: msg_base, quote: msg_quote, price: msg_price, size: Uint128::new(msg_size) },
        }
    }

    fn gen_create_bid(&mut self, w: &World, info: &ContractInfoV3) -> Step {
        let mut quote = self.rng.pick(&info.supported_quote_denoms).clone();
        if self.rng.pct(3) {
            // the whole request (quote, fee coin, funds) coherently in a denomination that is only a
            // fragment of a traded one
            quote = fragment(&mut self.rng, &quote);
        }
        let price = self.price(info.price_precision.u128() as u32);
        let mut size = info.size_increment.u128().saturating_mul(self.lots());
        let mut price = price;
        if self.profile == Profile::Huge && self.rng.pct(8) {
            // at the 96-bit limit of the decimal type: the largest lot multiple below 2^96, or the next one
            let inc = info.size_increment.u128().max(1);
            let below = ((1u128 << 96) - 1) / inc * inc;
            size = if self.rng.pct(50) { below } else { below.saturating_add(inc) };
            if self.rng.pct(70) {
                price = "1".to_string();
            }
        }
        if info.size_increment.u128() > 1 && self.rng.pct(6) {
            // off the size grid, everything else (totals, fee, funds) consistent with it
            size = size.saturating_add(1 + self.rng.below((info.size_increment.u128() - 1).min(1 << 40) as u64) as u128);
        }
        let total = D::parse(&price).and_then(|d| d.times(size)).unwrap_or(size);
        let rate = info.bid_fee_info.as_ref().and_then(|f| D::parse(&f.rate));
        let fee_amt = rate.and_then(|r| r.fee_of(total)).unwrap_or(0);
        // (an explicit zero-fee coin is a legal way of saying "no fee", with or without a configured rate)
        let mut fee = if fee_amt > 0 || (info.bid_fee_info.is_some() && self.rng.pct(30)) || (info.bid_fee_info.is_none() && self.rng.pct(10)) { Some(coin(fee_amt, quote.clone())) } else { None };
        let mut id = self.rng.uuid();
        let mut sender = self.acct();
        let mut funds = self.funds_for(w, &quote, total.saturating_add(fee_amt));
        let mut base = info.base_denom.clone();
        let mut msg_price = price;
        let mut msg_size = size;
        let mut quote_size = total;
        let mut msg_quote = quote.clone();
        if self.rng.pct(self.w.perturb_pct) {
            match self.rng.below(12) {
                0 => self.perturb_funds(&mut funds),
                1 => id = self.odd_id(w, &id),
                2 => msg_size = if self.rng.pct(50) { size + 1 } else { size.saturating_sub(1) },
                3 => msg_price = self.rng.pick(&["0", "-1", "abc", "", "0.0000000000000000001", "1.23456789", "2.5"]).to_string(),
                4 => base = self.rng.pick(&["other", CONVS[0], ""]).to_string(),
                5 => msg_quote = self.rng.pick(&["other", "", BASE, QUOTES[0], QUOTES[1]]).to_string(),
                6 => sender = self.rng.pick(&["gina", "hank"]).to_string(),
                7 => quote_size = if self.rng.pct(50) { total + 1 } else { total.saturating_sub(1) },
                8 => {
                    fee = match fee {
                        Some(c) => {
                            if self.rng.pct(50) {
                                Some(coin(c.amount.u128() + 1, c.denom))
                            } else {
                                None
                            }
                        }
                        None => Some(coin(1, quote.clone())),
                    }
                }
                9 => {
                    // the fee labelled with another denomination: unknown, the base, or the *other*
                    // supported quote denomination
                    if let Some(c) = fee.as_mut() {
                        let cur = c.denom.clone();
                        let mut opts: Vec<String> = vec!["other".into(), BASE.into()];
                        opts.extend(info.supported_quote_denoms.iter().filter(|q| **q != cur).cloned());
                        c.denom = self.rng.pick(&opts).clone();
                    }
                }
                10 => {
                    if let Some(c) = fee.as_mut() {
                        c.amount = Uint128::new(c.amount.u128().saturating_sub(1));
                    }
                }
                _ => funds = vec![coin(total, quote.clone())],
            }
        }
        Step::Exec {
            sender,
            funds,
            msg: ExecuteMsg::CreateBid {
                id,
                base,
                fee,
                price: msg_price,
                quote: msg_quote,
                quote_size: Uint128::new(quote_size),
                size: Uint128::new(msg_size),
            },
        }
    }

    fn executor(&mut self, info: &ContractInfoV3) -> String {
        if info.executors.is_empty() {
            "erin".into()
        } else {
            self.rng.pick(&info.executors).to_string()
        }
    }

    fn gen_match(&mut self, w: &World, info: &ContractInfoV3, asks: &[(String, AskOrderV1)], bids: &[(String, BidOrderV3)]) -> Option<Step> {
        if asks.is_empty() || bids.is_empty() {
            return None;
        }
        let mut pairs: Vec<(usize, usize)> = vec![];
        for (i, (_, a)) in asks.iter().enumerate() {
            for (j, (_, b)) in bids.iter().enumerate() {
                if a.quote == b.quote.denom {
                    if let (Some(ap), Some(bp)) = (D::parse(&a.price), D::parse(&b.price)) {
                        if ap.le(&bp) {
                            pairs.push((i, j));
                        }
                    }
                }
            }
        }
        let (i, j) = if !pairs.is_empty() && self.rng.pct(85) {
            *self.rng.pick(&pairs)
        } else {
            (self.rng.below(asks.len() as u64) as usize, self.rng.below(bids.len() as u64) as usize)
        };
        let (ak, a) = &asks[i];
        let (bk, b) = &bids[j];
        let rem = b.base.amount.u128().saturating_sub(b.accumulated_base.u128());
        let m = a.size.u128().min(rem).max(1);
        let mut price = if self.rng.pct(50) { a.price.clone() } else { b.price.clone() };
        if self.rng.pct(12) {
            price = respell(&mut self.rng, &price);
        }
        if self.rng.pct(6) {
            // a price one digit finer than the price precision, within half a tick of a limit price
            let prec = (info.price_precision.u128() as u32).min(18);
            if let Some(d) = D::parse(&price) {
                if d.s <= prec {
                    let k = 1 + self.rng.below(4) as u128;
                    let m10 = d.m * 10u128.pow(prec + 1 - d.s);
                    let m2 = if self.rng.pct(50) { m10 + k } else { m10.saturating_sub(k) };
                    price = D { m: m2, s: prec + 1 }.render();
                }
            }
        }
        let sc = D::parse(&price).map(|d| d.s).unwrap_or(0);
        let unit = 10u128.pow(sc.min(30));
        let mut size = match self.rng.below(11) {
            // one to three units: price improvement below a unit, fee shares that round to nothing
            10 => 1 + self.rng.below(3) as u128,
            0..=3 => m,
            4..=6 => {
                let k = m / unit;
                if k >= 1 {
                    unit * (1 + self.rng.below(k.min(u64::MAX as u128) as u64) as u128)
                } else {
                    m
                }
            }
            7 => m + 1,
            8 => 1 + self.rng.below(m.min(u64::MAX as u128) as u64) as u128,
            _ => {
                let inc = info.size_increment.u128().max(1);
                let k = m / inc;
                if k >= 1 {
                    inc * (1 + self.rng.below(k.min(u64::MAX as u128) as u64) as u128)
                } else {
                    m
                }
            }
        };
        let mut sender = self.executor(info);
        let mut funds = vec![];
        let mut ask_id = ak.clone();
        let mut bid_id = bk.clone();
        if self.rng.pct(self.w.perturb_pct / 2) {
            match self.rng.below(7) {
                0 => sender = self.acct(),
                1 => funds = vec![coin(1, QUOTES[0])],
                2 => price = self.rng.pick(&["1.75", "0", "abc", "4", "-2", ""]).to_string(),
                3 => size = 0,
                4 => ask_id = self.odd_id(w, &ask_id),
                5 => bid_id = self.odd_id(w, &bid_id),
                _ => size = m.saturating_mul(2),
            }
        }
        Some(Step::Exec { sender, funds, msg: ExecuteMsg::ExecuteMatch { ask_id, bid_id, price, size: Uint128::new(size) } })
    }

    /// another spelling of the same uuid (every form the id grammar of cancel / expire / reject accepts)
    fn other_spelling(&mut self, id: &str) -> String {
        let plain: String = id.chars().filter(|c| *c != '-').collect();
        match self.rng.below(5) {
            0 => plain,
            1 => id.to_uppercase(),
            2 => format!("{{{}}}", id),
            3 => format!("urn:uuid:{}", id),
            _ => {
                // a legacy (un-hyphenated) key written with hyphens
                if plain.len() == 32 && !id.contains('-') {
                    format!("{}-{}-{}-{}-{}", &plain[0..8], &plain[8..12], &plain[12..16], &plain[16..20], &plain[20..32])
                } else {
                    plain.to_uppercase()
                }
            }
        }
    }

    fn pick_ask_id(&mut self, w: &World, asks: &[(String, AskOrderV1)]) -> (String, Option<AskOrderV1>) {
        if !asks.is_empty() && self.rng.pct(7) {
            // an existing order addressed by a different spelling of its id: no such key
            let (k, _) = self.rng.pick(asks).clone();
            return (self.other_spelling(&k), None);
        }
        if !asks.is_empty() && self.rng.pct(90) {
            let (k, a) = self.rng.pick(asks).clone();
            (k, Some(a))
        } else if !w.seen_asks.is_empty() && self.rng.pct(60) {
            (self.rng.pick(&w.seen_asks).clone(), None)
        } else {
            let g = self.rng.uuid();
            (self.odd_id(w, &g), None)
        }
    }

    fn pick_bid_id(&mut self, w: &World, bids: &[(String, BidOrderV3)]) -> (String, Option<BidOrderV3>) {
        if !bids.is_empty() && self.rng.pct(7) {
            let (k, _) = self.rng.pick(bids).clone();
            return (self.other_spelling(&k), None);
        }
        if !bids.is_empty() && self.rng.pct(90) {
            let (k, b) = self.rng.pick(bids).clone();
            (k, Some(b))
        } else if !w.seen_bids.is_empty() && self.rng.pct(60) {
            (self.rng.pick(&w.seen_bids).clone(), None)
        } else {
            let g = self.rng.uuid();
            (self.odd_id(w, &g), None)
        }
    }

    fn partial(&mut self, info: &ContractInfoV3, rem: u128) -> Option<Uint128> {
        let inc = info.size_increment.u128().max(1);
        match self.rng.below(21) {
            20 => Some(Uint128::zero()),
            0..=2 | 10..=12 => None,
            3..=6 | 13..=16 => {
                let k = rem / inc;
                if k >= 1 {
                    Some(Uint128::new(inc * (1 + self.rng.below(k.min(1 << 40) as u64) as u128)))
                } else {
                    Some(Uint128::new(inc))
                }
            }
            7 | 17 => Some(Uint128::new(1 + self.rng.below((rem + inc).min(1 << 40) as u64) as u128)),
            8 | 18 => Some(Uint128::new(rem)),
            _ => Some(Uint128::new(rem + inc)),
        }
    }

    fn gen_modify(&mut self, info: &ContractInfoV3) -> Step {
        let r = &mut self.rng;
        let mut approvers = None;
        let mut executors = None;
        let (mut afr, mut afa, mut bfr, mut bfa) = (None, None, None, None);
        let mut aattrs = None;
        let mut battrs = None;
        if r.pct(35) {
            let mut l: Vec<String> = info.approvers.iter().map(|a| a.to_string()).collect();
            match r.below(6) {
                0 => l.push(r.pick(&ACCTS).to_string()),
                1 => {
                    l.pop();
                }
                5 => {
                    // same length, only known addresses, one of them dropped (a repeated entry takes its place)
                    if l.len() > 1 {
                        let k = r.below(l.len() as u64) as usize;
                        let j = (k + 1) % l.len();
                        l[k] = l[j].clone();
                    }
                }
                2 => l.reverse(),
                3 => l = vec![],
                _ => l.push("Bad".into()),
            }
            approvers = Some(l);
        }
        if r.pct(25) {
            let mut l: Vec<String> = info.executors.iter().map(|a| a.to_string()).collect();
            match r.below(6) {
                0 => l.push(r.pick(&ACCTS).to_string()),
                1 => {
                    if l.len() > 1 {
                        l.remove(0);
                    }
                }
                5 => {
                    if l.len() > 1 {
                        let k = r.below(l.len() as u64) as usize;
                        let j = (k + 1) % l.len();
                        l[k] = l[j].clone();
                    }
                }
                2 => l.reverse(),
                3 => l = vec![],
                _ => l.push("xy".into()),
            }
            executors = Some(l);
        }
        let fee_change = |r: &mut Rng, cur: &Option<FeeInfo>| -> (Option<String>, Option<String>) {
            let acct = r.pick(&["frank", "erin", "alice", "carol", "Bad"]).to_string();
            match r.below(12) {
                10 | 11 => {
                    // one decimal place more than the current rate, rounding back to it: a different number
                    let finer = cur.as_ref().and_then(|f| D::parse(&f.rate)).and_then(|d| {
                        if d.s >= 27 {
                            return None;
                        }
                        let m = if r.pct(50) { d.m * 10 + 4 } else { (d.m * 10).saturating_sub(5) };
                        Some(D { m, s: d.s + 1 }.render())
                    });
                    (finer.or(Some("0.014".into())), Some(acct))
                }
                8 | 9 => {
                    // the current rate written with one decimal place fewer (rounded): a different number
                    // unless the dropped digit was a zero
                    let rounded = cur.as_ref().and_then(|f| D::parse(&f.rate)).and_then(|d| {
                        if d.s == 0 {
                            return None;
                        }
                        let m = (d.m + 5) / 10;
                        Some(D { m, s: d.s - 1 }.render())
                    });
                    (rounded.or(Some("0.01".into())), Some(acct))
                }
                0 => (cur.as_ref().map(|f| f.rate.clone()).or(Some("0.01".into())), Some(acct)),
                1 => (cur.as_ref().map(|f| respell(r, &f.rate)).or(Some("0.02".into())), Some(acct)),
                2 => (Some(r.pick(&["0.003", "0.01", "0.25", "0.5", "0"]).to_string()), Some(acct)),
                3 => {
                    // the clearing pair, or almost: blank (whitespace-only) strings are not empty
                    let (a, b) = *r.pick(&[("", ""), ("", ""), (" ", " "), (" ", ""), ("", " "), ("\t", "\n")]);
                    (Some(a.into()), Some(b.into()))
                }
                4 => (Some("0.01".into()), None),
                5 => (None, Some(acct)),
                6 => (Some(r.pick(&["abc", "", "1e-2"]).to_string()), Some(acct)),
                _ => (cur.as_ref().map(|f| f.rate.clone()).or(Some("0.01".into())), Some("".into())),
            }
        };
        if r.pct(35) {
            let (a, b) = fee_change(r, &info.ask_fee_info);
            afr = a;
            afa = b;
        }
        if r.pct(35) {
            let (a, b) = fee_change(r, &info.bid_fee_info);
            bfr = a;
            bfa = b;
        }
        if r.pct(20) {
            aattrs = Some(match r.below(4) {
                0 => vec![],
                1 => vec!["kyc".to_string()],
                3 => vec!["kyc".to_string(), "kyc".to_string()],
                _ => info.ask_required_attributes.clone(),
            });
        }
        if r.pct(20) {
            battrs = Some(match r.below(4) {
                0 => vec![],
                1 => vec!["kyc".to_string()],
                3 => vec!["kyc".to_string(), "accred".to_string(), "kyc".to_string()],
                _ => info.bid_required_attributes.clone(),
            });
        }
        let sender = if r.pct(85) && !info.executors.is_empty() { r.pick(&info.executors).to_string() } else { r.pick(&ACCTS).to_string() };
        let funds = if r.pct(5) { vec![coin(1, BASE)] } else { vec![] };
        Step::Exec {
            sender,
            funds,
            msg: ExecuteMsg::ModifyContract {
                approvers,
                executors,
                ask_fee_rate: afr,
                ask_fee_account: afa,
                bid_fee_rate: bfr,
                bid_fee_account: bfa,
                ask_required_attributes: aattrs,
                bid_required_attributes: battrs,
            },
        }
    }

    /// next request, given the current book
    pub fn next_step(&mut self, w: &World) -> Step {
        let (asks, bids, info) = w.book();
        let info = match info {
            Some(i) => i,
            None => {
                return Step::Query { msg: QueryMsg::GetContractInfo {} };
            }
        };
        let wt = self.w.clone();
        let table = [
            wt.create_ask, wt.create_bid, wt.approve, wt.matchx, wt.cancel_ask, wt.cancel_bid, wt.expire_ask,
            wt.expire_bid, wt.reject_ask, wt.reject_bid, wt.modify, wt.env,
        ];
        let total: u64 = table.iter().sum();
        let mut x = self.rng.below(total);
        let mut k = 0;
        while x >= table[k] {
            x -= table[k];
            k += 1;
        }
        // keep the book small enough to stay interesting
        if asks.len() > 6 && k == 0 {
            k = 4;
        }
        if bids.len() > 6 && k == 1 {
            k = 5;
        }
        match k {
            0 => self.gen_create_ask(w, &info),
            1 => self.gen_create_bid(w, &info),
            2 => {
                let pend: Vec<(String, AskOrderV1)> = asks
                    .iter()
                    .filter(|(_, a)| matches!(a.class, AskOrderClass::Convertible { status: AskOrderStatus::PendingIssuerApproval }))
                    .cloned()
                    .collect();
                let (id, a) = if !pend.is_empty() && self.rng.pct(80) {
                    let (k, a) = self.rng.pick(&pend).clone();
                    (k, Some(a))
                } else {
                    self.pick_ask_id(w, &asks)
                };
                let mut size = a.as_ref().map(|a| a.size.u128()).unwrap_or(10);
                let mut base = info.base_denom.clone();
                let mut sender = if info.approvers.is_empty() { self.acct() } else { self.rng.pick(&info.approvers).to_string() };
                if self.rng.pct(self.w.perturb_pct / 2) {
                    match self.rng.below(8) {
                        0 => size += 1,
                        1 => base = a.as_ref().map(|a| a.base.clone()).unwrap_or_else(|| "other".into()),
                        2 => sender = self.acct(),
                        3 => base = String::new(),
                        4 => size = 0,
                        5 => base = fragment(&mut self.rng, &info.base_denom),
                        _ => size = size.saturating_sub(1),
                    }
                }
                let mut funds = self.funds_for(w, &base, size);
                if self.rng.pct(self.w.perturb_pct / 3) {
                    self.perturb_funds(&mut funds);
                }
                Step::Exec { sender, funds, msg: ExecuteMsg::ApproveAsk { id, base, size: Uint128::new(size) } }
            }
            3 => match self.gen_match(w, &info, &asks, &bids) {
                Some(s) => s,
                None => {
                    if asks.is_empty() {
                        self.gen_create_ask(w, &info)
                    } else {
                        self.gen_create_bid(w, &info)
                    }
                }
            },
            4 => {
                let (id, a) = self.pick_ask_id(w, &asks);
                let sender = match (&a, self.rng.pct(85)) {
                    (Some(a), true) => a.owner.to_string(),
                    _ => {
                        if self.rng.pct(50) {
                            self.executor(&info)
                        } else {
                            self.acct()
                        }
                    }
                };
                let funds = if self.rng.pct(5) { vec![coin(1, BASE)] } else { vec![] };
                Step::Exec { sender, funds, msg: ExecuteMsg::CancelAsk { id } }
            }
            5 => {
                let (id, b) = self.pick_bid_id(w, &bids);
                let sender = match (&b, self.rng.pct(85)) {
                    (Some(b), true) => b.owner.to_string(),
                    _ => {
                        if self.rng.pct(50) {
                            self.executor(&info)
                        } else {
                            self.acct()
                        }
                    }
                };
                let funds = if self.rng.pct(5) { vec![coin(1, BASE)] } else { vec![] };
                Step::Exec { sender, funds, msg: ExecuteMsg::CancelBid { id } }
            }
            6 | 8 => {
                let (id, a) = self.pick_ask_id(w, &asks);
                let sender = if self.rng.pct(85) {
                    self.executor(&info)
                } else if let (Some(a), true) = (&a, self.rng.pct(50)) {
                    a.owner.to_string()
                } else {
                    self.acct()
                };
                let funds = if self.rng.pct(5) { vec![coin(1, BASE)] } else { vec![] };
                let msg = if k == 6 {
                    ExecuteMsg::ExpireAsk { id }
                } else {
                    let rem = a.map(|a| a.size.u128()).unwrap_or(10);
                    ExecuteMsg::RejectAsk { id, size: self.partial(&info, rem) }
                };
                Step::Exec { sender, funds, msg }
            }
            7 | 9 => {
                let (id, b) = self.pick_bid_id(w, &bids);
                let sender = if self.rng.pct(85) {
                    self.executor(&info)
                } else if let (Some(b), true) = (&b, self.rng.pct(50)) {
                    b.owner.to_string()
                } else {
                    self.acct()
                };
                let funds = if self.rng.pct(5) { vec![coin(1, BASE)] } else { vec![] };
                let msg = if k == 7 {
                    ExecuteMsg::ExpireBid { id }
                } else {
                    let rem = b.map(|b| b.base.amount.u128().saturating_sub(b.accumulated_base.u128())).unwrap_or(10);
                    ExecuteMsg::RejectBid { id, size: self.partial(&info, rem) }
                };
                Step::Exec { sender, funds, msg }
            }
            10 => self.gen_modify(&info),
            _ => {
                if self.rng.pct(70) {
                    let d = *self.rng.pick(&[BASE, CONVS[0], CONVS[1], QUOTES[0], QUOTES[1]]);
                    Step::SetMarker { denom: d.to_string(), kind: *self.rng.pick(&[0u8, 1, 2]) }
                } else {
                    let a = self.acct();
                    let names = match self.rng.below(5) {
                        0 => None,
                        1 => Some(vec![]),
                        2 => Some(vec!["kyc".to_string()]),
                        3 => Some(vec!["kyc".to_string(), "accred".to_string()]),
                        _ => Some(vec!["accred".to_string(), "accred".to_string()]),
                    };
                    Step::SetAttrs { account: a, names }
                }
            }
        }
    }

    /// exit probes for every open order (C06) – run on a copy of the state
    pub fn probes(&mut self, w: &World) -> Vec<Step> {
        let (asks, bids, info) = w.book();
        let mut v = vec![];
        let exec = info.as_ref().and_then(|i| i.executors.first().map(|a| a.to_string())).unwrap_or_else(|| "erin".into());
        for (k, a) in &asks {
            v.push(Step::Probe { sender: a.owner.to_string(), funds: vec![], msg: ExecuteMsg::CancelAsk { id: k.clone() } });
            v.push(Step::Probe { sender: exec.clone(), funds: vec![], msg: ExecuteMsg::ExpireAsk { id: k.clone() } });
        }
        for (k, b) in &bids {
            v.push(Step::Probe { sender: b.owner.to_string(), funds: vec![], msg: ExecuteMsg::CancelBid { id: k.clone() } });
            v.push(Step::Probe { sender: exec.clone(), funds: vec![], msg: ExecuteMsg::ExpireBid { id: k.clone() } });
        }
        // bids still in the old format (before a migration they are legitimately stuck; after an
        // accepted one they must be as live as any other – the driver knows which is which)
        for (k, owner) in w.old_bids() {
            v.push(Step::Probe { sender: owner, funds: vec![], msg: ExecuteMsg::CancelBid { id: k.clone() } });
        }
        v
    }

    pub fn queries(&mut self, w: &World) -> Vec<Step> {
        let mut v = vec![];
        let n = 1 + self.rng.below(3);
        for _ in 0..n {
            let q = match self.rng.below(8) {
                0 => QueryMsg::GetContractInfo {},
                1 => QueryMsg::GetVersionInfo {},
                2 | 3 => {
                    let id = if w.seen_asks.is_empty() { self.rng.uuid() } else { self.rng.pick(&w.seen_asks).clone() };
                    QueryMsg::GetAsk { id }
                }
                4 | 5 => {
                    let id = if w.seen_bids.is_empty() { self.rng.uuid() } else { self.rng.pick(&w.seen_bids).clone() };
                    QueryMsg::GetBid { id }
                }
                6 => {
                    // another spelling of an id that is (or was) on the book, or of a fresh one
                    let g = if !w.seen_asks.is_empty() && self.rng.pct(70) { self.rng.pick(&w.seen_asks).clone() } else { self.rng.uuid() };
                    QueryMsg::GetAsk { id: self.odd_id(w, &g) }
                }
                _ => {
                    let g = if !w.seen_bids.is_empty() && self.rng.pct(70) { self.rng.pick(&w.seen_bids).clone() } else { self.rng.uuid() };
                    QueryMsg::GetBid { id: self.odd_id(w, &g) }
                }
            };
            v.push(Step::Query { msg: q });
        }
        v
    }

    /// random walk from instantiation
    pub fn walk(&mut self, label: &str, len: usize) -> (History, World) {
        let (markers, attrs) = self.tables();
        let msg = if self.profile == Profile::Malformed { self.inst_any() } else { self.inst_valid() };
        let start = Start::Instantiate { markers, attrs, msg };
        let mut w = World::new();
        w.start(label, &start);
        let mut steps = vec![];
        self.continue_walk(&mut w, &mut steps, len);
        (History { label: label.to_string(), start, steps }, w)
    }

    pub fn continue_walk(&mut self, w: &mut World, steps: &mut Vec<Step>, len: usize) {
        for _ in 0..len {
            let st = self.next_step(w);
            w.step(&st);
            steps.push(st);
            if self.rng.pct(self.w.probe_pct) {
                for p in self.probes(w) {
                    w.step(&p);
                    steps.push(p);
                }
            }
            if self.rng.pct(self.w.query_pct) {
                for q in self.queries(w) {
                    w.step(&q);
                    steps.push(q);
                }
            }
            // request kinds the model does not know (none on the pinned tree)
            if !crate::unknown::unknown_kinds().is_empty() && self.rng.pct(35) {
                for u in crate::unknown::requests(&mut self.rng, w, 3) {
                    w.step(&u);
                    steps.push(u);
                }
            }
        }
    }

    /// instantiate-only history (C13)
    pub fn inst_only(&mut self, label: &str) -> (History, World) {
        let (markers, attrs) = self.tables();
        let msg = self.inst_any();
        let start = Start::Instantiate { markers, attrs, msg };
        let mut w = World::new();
        w.start(label, &start);
        let mut steps = vec![];
        for q in [QueryMsg::GetContractInfo {}, QueryMsg::GetVersionInfo {}] {
            let s = Step::Query { msg: q };
            w.step(&s);
            steps.push(s);
        }
        (History { label: label.to_string(), start, steps }, w)
    }

    fn legacy_key(&mut self) -> String {
        let g = self.rng.uuid();
        match self.rng.below(8) {
            0 | 4 => g.chars().filter(|c| *c != '-').collect(),
            1 => g.to_uppercase(),
            // the other forms the id grammar of the queries and of cancel / expire / reject admits
            5 => format!("{{{}}}", g),
            6 => format!("urn:uuid:{}", g),
            _ => g,
        }
    }

    /// a seeded (legacy / to-be-migrated) state
    #[allow(deprecated)]
    pub fn seed_state(&mut self, with_v2: bool) -> SeedState {
        let m = self.inst_valid();
        let fee = |r: &Option<String>, a: &Option<String>| match (r, a) {
            (Some(r), Some(a)) if D::parse(r).is_some() => Some(FeeInfo { account: Addr::unchecked(a.clone()), rate: r.clone() }),
            _ => None,
        };
        let info = ContractInfoV3 {
            name: m.name.clone(),
            bind_name: "".into(),
            base_denom: m.base_denom.clone(),
            convertible_base_denoms: m.convertible_base_denoms.clone(),
            supported_quote_denoms: m.supported_quote_denoms.clone(),
            approvers: m.approvers.iter().map(|a| Addr::unchecked(a.clone())).collect(),
            executors: m.executors.iter().map(|a| Addr::unchecked(a.clone())).collect(),
            ask_fee_info: fee(&m.ask_fee_rate, &m.ask_fee_account),
            bid_fee_info: fee(&m.bid_fee_rate, &m.bid_fee_account),
            ask_required_attributes: m.ask_required_attributes.clone(),
            bid_required_attributes: m.bid_required_attributes.clone(),
            price_precision: m.price_precision,
            size_increment: m.size_increment,
        };
        let versions = [
            "0.14.9", "0.15.0", "0.16.1", "0.16.2", "0.16.3", "0.17.0", "0.18.2", "0.19.0", "0.19.1", "0.19.2", "1.0.0",
            "1.0.0-rc1", "0.19.0-beta.1", "0.17.0+build5", "abc", "1.0", "", "0.16.02", "0.16.2-0", "2.3.4", "0.16",
            "v0.18.0", "0.18.0 ",
        ];
        let version = if self.rng.pct(if with_v2 { 75 } else { 40 }) {
            self.rng.pick(&["0.16.2", "0.16.3", "0.17.0", "0.18.2", "0.19.0"]).to_string()
        } else if self.rng.pct(35) {
            // just below the supported minimum (and inside the weaker gate of the ask migration)
            self.rng.pick(&["0.15.0", "0.16.1", "0.16.0", "0.15.5", "0.14.9"]).to_string()
        } else {
            self.rng.pick(&versions).to_string()
        };
        let prec = info.price_precision.u128() as u32;
        let inc = info.size_increment.u128();
        let mut asks = vec![];
        let na = if self.rng.pct(10) { 0 } else { self.rng.below(4) };
        for _ in 0..na {
            let k = self.legacy_key();
            // a convertible ask is denominated in a convertible denomination other than the base
            let real_convs: Vec<String> =
                info.convertible_base_denoms.iter().filter(|d| **d != info.base_denom).cloned().collect();
            let conv = !real_convs.is_empty() && self.rng.pct(40);
            let base = if conv { self.rng.pick(&real_convs).clone() } else { info.base_denom.clone() };
            let size = inc.saturating_mul(self.lots().min(1 << 40));
            let class = if !conv {
                AskOrderClass::Basic
            } else if self.rng.pct(50) {
                AskOrderClass::Convertible { status: AskOrderStatus::PendingIssuerApproval }
            } else {
                AskOrderClass::Convertible {
                    status: AskOrderStatus::Ready {
                        approver: Addr::unchecked(self.rng.pick(&["carol", "dave", "alice"]).to_string()),
                        converted_base: coin(size, info.base_denom.clone()),
                    },
                }
            };
            asks.push((
                k.clone(),
                AskOrderV1 {
                    id: k,
                    owner: Addr::unchecked(self.acct()),
                    class,
                    base,
                    quote: self.rng.pick(&info.supported_quote_denoms).clone(),
                    price: self.price(prec),
                    size: Uint128::new(size),
                },
            ));
        }
        let mut bids3 = vec![];
        let mut bids2 = vec![];
        // now and then one side of the book (or both) is empty when the migration arrives
        let nb = if self.rng.pct(15) { 0 } else { self.rng.below(5) + if with_v2 { 1 } else { 0 } };
        for _ in 0..nb {
            let k = self.legacy_key();
            let price = self.price(prec);
            let d = match D::parse(&price) {
                Some(d) => d,
                None => continue,
            };
            let lots = self.lots().min(1 << 40) + 1;
            let size = inc.saturating_mul(lots);
            let total = match d.times(size) {
                Some(t) => t,
                None => continue,
            };
            // only books some version of the contract could have admitted: a bid's base, quote and fee
            // amounts all passed through 96-bit decimals when it was created
            const LIM96: u128 = 1u128 << 96;
            if size >= LIM96 || total >= LIM96 {
                continue;
            }
            let quote = self.rng.pick(&info.supported_quote_denoms).clone();
            let fee_amt = if self.rng.pct(50) { total / 50 + self.rng.below(3) as u128 } else { 0 };
            let fee = if fee_amt > 0 { Some(coin(fee_amt, quote.clone())) } else { None };
            // consume part of the order in lot-sized events
            let mut used_lots = 0u128;
            let mut events: Vec<Action> = vec![];
            let mut fee_used = 0u128;
            for _ in 0..self.rng.below(4) {
                let left = lots - used_lots;
                if left <= 1 {
                    break;
                }
                let e = 1 + self.rng.below((left - 1).min(1 << 30) as u64) as u128;
                used_lots += e;
                let eb = inc.saturating_mul(e);
                let eq = d.times(eb).unwrap_or(0);
                let fpart = if fee_amt > 0 { (fee_amt - fee_used).min(fee_amt.checked_mul(e).map(|x| x / lots).unwrap_or(fee_amt / lots)) } else { 0 };
                fee_used += fpart;
                let fcoin = if fpart > 0 || (fee_amt > 0 && self.rng.pct(30)) { Some(coin(fpart, quote.clone())) } else { None };
                if self.rng.pct(60) {
                    // fill, possibly at an improved price: split eq into fill + refund
                    if eq > 1 && self.rng.pct(40) {
                        let r = 1 + self.rng.below((eq - 1).min(1 << 40) as u64) as u128;
                        events.push(Action::Fill { base: coin(eb, info.base_denom.clone()), fee: fcoin, price: price.clone(), quote: coin(eq - r, quote.clone()) });
                        // the refund may hand back a share of the fee as well
                        let rfee = if fee_amt > fee_used && self.rng.pct(50) {
                            let x = 1 + self.rng.below((fee_amt - fee_used).min(1 << 30) as u64) as u128;
                            fee_used += x;
                            Some(coin(x, quote.clone()))
                        } else {
                            None
                        };
                        events.push(Action::Refund { fee: rfee, quote: coin(r, quote.clone()) });
                    } else {
                        events.push(Action::Fill { base: coin(eb, info.base_denom.clone()), fee: fcoin, price: price.clone(), quote: coin(eq, quote.clone()) });
                    }
                } else {
                    events.push(Action::Reject { base: coin(eb, info.base_denom.clone()), fee: fcoin, quote: coin(eq, quote.clone()) });
                }
            }
            let owner = Addr::unchecked(self.acct());
            if with_v2 && self.rng.pct(65) {
                bids2.push((
                    k.clone(),
                    BidOrderV2 {
                        base: coin(size, info.base_denom.clone()),
                        events: events
                            .into_iter()
                            .map(|a| Event { action: a, block_info: BlockInfo { height: 7, time: Timestamp::from_seconds(1_600_000_000) } })
                            .collect(),
                        fee,
                        id: k,
                        owner,
                        price,
                        quote: coin(total, quote),
                    },
                ));
            } else {
                let ab = inc.saturating_mul(used_lots);
                let aq = d.times(ab).unwrap_or(0);
                bids3.push((
                    k.clone(),
                    BidOrderV3 {
                        base: coin(size, info.base_denom.clone()),
                        accumulated_base: Uint128::new(ab),
                        accumulated_quote: Uint128::new(aq),
                        accumulated_fee: Uint128::new(fee_used),
                        fee,
                        id: k,
                        owner,
                        price,
                        quote: coin(total, quote),
                    },
                ));
            }
        }
        SeedState { info, version: VersionInfoV1 { definition: "ats_smart_contract".into(), version }, asks, bids3, bids2 }
    }

    pub fn mig_msg(&mut self) -> MigrateMsg {
        let r = &mut self.rng;
        let mut m = MigrateMsg {
            approvers: None,
            ask_fee_rate: None,
            ask_fee_account: None,
            bid_fee_rate: None,
            bid_fee_account: None,
            ask_required_attributes: None,
            bid_required_attributes: None,
        };
        if r.pct(30) {
            m.approvers = Some(match r.below(4) {
                0 => vec![],
                1 => vec!["carol".into(), "gina".into()],
                2 => vec!["Bad".into()],
                _ => vec!["dave".into()],
            });
        }
        if r.pct(30) {
            match r.below(6) {
                0 => {
                    m.ask_fee_rate = Some("".into());
                    m.ask_fee_account = Some("".into());
                }
                1 => m.ask_fee_rate = Some("0.01".into()),
                5 => m.ask_fee_account = Some("frank".into()),
                2 => {
                    m.ask_fee_rate = Some("abc".into());
                    m.ask_fee_account = Some("frank".into());
                }
                3 => {
                    m.ask_fee_rate = Some("0.02".into());
                    m.ask_fee_account = Some("xy".into());
                }
                _ => {
                    m.ask_fee_rate = Some("0.02".into());
                    m.ask_fee_account = Some("frank".into());
                }
            }
        }
        if r.pct(30) {
            match r.below(5) {
                0 => {
                    m.bid_fee_rate = Some("".into());
                    m.bid_fee_account = Some("".into());
                }
                1 => m.bid_fee_account = Some("erin".into()),
                4 => m.bid_fee_rate = Some("0.005".into()),
                _ => {
                    m.bid_fee_rate = Some("0.005".into());
                    m.bid_fee_account = Some("erin".into());
                }
            }
        }
        if r.pct(20) {
            m.ask_required_attributes = Some(if r.pct(50) { vec![] } else { vec!["kyc".into()] });
        }
        if r.pct(20) {
            m.bid_required_attributes = Some(match r.below(3) { 0 => vec![], 1 => vec!["accred".into()], _ => vec!["kyc".into(), "kyc".into()] });
        }
        m
    }

    /// seeded book → (optional) migrate, twice → continuation
    pub fn seeded(&mut self, label: &str, migrate: bool, len: usize) -> (History, World) {
        let (markers, attrs) = self.tables();
        let state = self.seed_state(migrate);
        let start = Start::Seed { markers, attrs, state };
        let mut w = World::new();
        w.start(label, &start);
        let mut steps = vec![];
        if migrate && self.rng.pct(30) {
            // the not-yet-migrated book is in use for a few requests first
            let n = 1 + self.rng.below(3) as usize;
            self.continue_walk(&mut w, &mut steps, n);
        }
        if migrate {
            let m = self.mig_msg();
            for _ in 0..2 {
                let s = Step::Migrate { msg: m.clone() };
                w.step(&s);
                steps.push(s);
            }
            if self.rng.pct(30) {
                let s = Step::Migrate { msg: self.mig_msg() };
                w.step(&s);
                steps.push(s);
            }
        }
        for p in self.probes(&w) {
            w.step(&p);
            steps.push(p);
        }
        for q in self.queries(&w) {
            w.step(&q);
            steps.push(q);
        }
        self.continue_walk(&mut w, &mut steps, len);
        (History { label: label.to_string(), start, steps }, w)
    }
}
