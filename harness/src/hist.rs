//! Replayable histories (JSON via serde; request types are the contract's own).
use ats_smart_contract::ask_order::AskOrderV1;
#[allow(deprecated)]
use ats_smart_contract::bid_order::{BidOrderV2, BidOrderV3};
use ats_smart_contract::contract_info::ContractInfoV3;
use ats_smart_contract::msg::{ExecuteMsg, InstantiateMsg, MigrateMsg, QueryMsg};
use ats_smart_contract::version_info::VersionInfoV1;
use cosmwasm_std::Coin;
use serde::{Deserialize, Serialize};
use std::collections::BTreeMap;

#[allow(deprecated)]
#[derive(Serialize, Deserialize, Clone, Debug)]
pub struct SeedState {
    pub info: ContractInfoV3,
    pub version: VersionInfoV1,
    pub asks: Vec<(String, AskOrderV1)>,
    pub bids3: Vec<(String, BidOrderV3)>,
    pub bids2: Vec<(String, BidOrderV2)>,
}

#[derive(Serialize, Deserialize, Clone, Debug)]
pub enum Start {
    Instantiate {
        markers: BTreeMap<String, u8>,
        attrs: BTreeMap<String, Option<Vec<String>>>,
        msg: InstantiateMsg,
    },
    Seed {
        markers: BTreeMap<String, u8>,
        attrs: BTreeMap<String, Option<Vec<String>>>,
        state: SeedState,
    },
}

#[derive(Serialize, Deserialize, Clone, Debug)]
pub enum Step {
    Exec { sender: String, funds: Vec<Coin>, msg: ExecuteMsg },
    Probe { sender: String, funds: Vec<Coin>, msg: ExecuteMsg },
    /// executed on a copy and judged like an executed request (exhaustive exploration)
    Try { sender: String, funds: Vec<Coin>, msg: ExecuteMsg },
    /// a request of a kind the model does not know (JSON text of the contract's own message type);
    /// executed on a copy, must have no effect
    Unknown { sender: String, funds: Vec<Coin>, kind: String, json: String },
    Migrate { msg: MigrateMsg },
    Query { msg: QueryMsg },
    SetMarker { denom: String, kind: u8 },
    SetAttrs { account: String, names: Option<Vec<String>> },
}

#[derive(Serialize, Deserialize, Clone, Debug)]
pub struct History {
    pub label: String,
    pub start: Start,
    pub steps: Vec<Step>,
}
