//! Minimised histories that must always run first: the defects repaired by `fix:` commits
//! (D1–D6) and the two recorded findings (F6, F7).
use crate::hist::{History, SeedState, Start, Step};
use ats_smart_contract::bid_order::BidOrderV3;
use ats_smart_contract::common::FeeInfo;
use ats_smart_contract::contract_info::ContractInfoV3;
use ats_smart_contract::msg::{ExecuteMsg, InstantiateMsg};
use ats_smart_contract::version_info::VersionInfoV1;
use cosmwasm_std::{coin, coins, Addr, Uint128};
use std::collections::BTreeMap;

const A1: &str = "ab5f5a62-f6fc-46d1-aa84-51ccc51ec367";
const B1: &str = "c13f8888-ca43-4a64-ab1b-1ca8d60aa49b";

fn inst(prec: u128, inc: u128, ask_fee: Option<&str>, bid_fee: Option<&str>) -> InstantiateMsg {
    InstantiateMsg {
        name: "ats".into(),
        base_denom: "base".into(),
        convertible_base_denoms: vec!["conv1".into()],
        supported_quote_denoms: vec!["quote1".into()],
        approvers: vec!["carol".into()],
        executors: vec!["erin".into()],
        ask_fee_rate: ask_fee.map(|s| s.to_string()),
        ask_fee_account: ask_fee.map(|_| "frank".to_string()),
        bid_fee_rate: bid_fee.map(|s| s.to_string()),
        bid_fee_account: bid_fee.map(|_| "gina".to_string()),
        ask_required_attributes: vec![],
        bid_required_attributes: vec![],
        price_precision: Uint128::new(prec),
        size_increment: Uint128::new(inc),
    }
}

fn start(markers: &[(&str, u8)], msg: InstantiateMsg) -> Start {
    Start::Instantiate {
        markers: markers.iter().map(|(d, k)| (d.to_string(), *k)).collect(),
        attrs: BTreeMap::new(),
        msg,
    }
}

fn ex(sender: &str, funds: Vec<cosmwasm_std::Coin>, msg: ExecuteMsg) -> Step {
    Step::Exec { sender: sender.into(), funds, msg }
}
fn probe(sender: &str, msg: ExecuteMsg) -> Step {
    Step::Probe { sender: sender.into(), funds: vec![], msg }
}
fn ask(id: &str, base: &str, price: &str, size: u128) -> ExecuteMsg {
    ExecuteMsg::CreateAsk { id: id.into(), base: base.into(), quote: "quote1".into(), price: price.into(), size: Uint128::new(size) }
}
fn bid(id: &str, price: &str, size: u128, quote_size: u128, fee: Option<u128>) -> ExecuteMsg {
    ExecuteMsg::CreateBid {
        id: id.into(),
        base: "base".into(),
        fee: fee.map(|f| coin(f, "quote1")),
        price: price.into(),
        quote: "quote1".into(),
        quote_size: Uint128::new(quote_size),
        size: Uint128::new(size),
    }
}
fn mtch(price: &str, size: u128) -> ExecuteMsg {
    ExecuteMsg::ExecuteMatch { ask_id: A1.into(), bid_id: B1.into(), price: price.into(), size: Uint128::new(size) }
}

pub fn all() -> Vec<History> {
    let mut v = vec![];
    // D1: partial reject then cancel of an approved convertible ask
    v.push(History {
        label: "d1_reject_then_cancel_convertible".into(),
        start: start(&[], inst(0, 1, None, None)),
        steps: vec![
            ex("alice", coins(10, "conv1"), ask(A1, "conv1", "2", 10)),
            ex("carol", coins(10, "base"), ExecuteMsg::ApproveAsk { id: A1.into(), base: "base".into(), size: Uint128::new(10) }),
            ex("erin", vec![], ExecuteMsg::RejectAsk { id: A1.into(), size: Some(Uint128::new(4)) }),
            ex("alice", vec![], ExecuteMsg::CancelAsk { id: A1.into() }),
        ],
    });
    // D2: final fill at an improved price whose own fee rounds to zero
    v.push(History {
        label: "d2_zero_rounded_fee_refund".into(),
        start: start(&[], inst(0, 1, None, Some("0.01"))),
        steps: vec![
            ex("bob", coins(101, "quote1"), bid(B1, "100", 1, 100, Some(1))),
            ex("alice", coins(1, "base"), ask(A1, "base", "10", 1)),
            ex("erin", vec![], mtch("10", 1)),
        ],
    });
    // D2b: the same on a non-final fill, then cancel
    v.push(History {
        label: "d2b_zero_rounded_fee_refund_partial".into(),
        start: start(&[], inst(0, 1, None, Some("0.01"))),
        steps: vec![
            ex("bob", coins(202, "quote1"), bid(B1, "100", 2, 200, Some(2))),
            ex("alice", coins(1, "base"), ask(A1, "base", "10", 1)),
            ex("erin", vec![], mtch("10", 1)),
            ex("bob", vec![], ExecuteMsg::CancelBid { id: B1.into() }),
        ],
    });
    // D3: a fill that is not a lot multiple, then every exit
    v.push(History {
        label: "d3_exit_after_off_grid_fill".into(),
        start: start(&[], inst(0, 10, None, None)),
        steps: vec![
            ex("bob", coins(40, "quote1"), bid(B1, "2", 20, 40, None)),
            ex("alice", coins(20, "base"), ask(A1, "base", "2", 20)),
            ex("erin", vec![], mtch("2", 15)),
            probe("bob", ExecuteMsg::CancelBid { id: B1.into() }),
            probe("erin", ExecuteMsg::ExpireBid { id: B1.into() }),
            probe("erin", ExecuteMsg::ExpireAsk { id: A1.into() }),
            probe("alice", ExecuteMsg::CancelAsk { id: A1.into() }),
            ex("erin", vec![], ExecuteMsg::ExpireBid { id: B1.into() }),
            ex("erin", vec![], ExecuteMsg::ExpireAsk { id: A1.into() }),
        ],
    });
    // D4: restricted base, unrestricted convertible denomination
    v.push(History {
        label: "d4_mixed_marker_types_convertible_match".into(),
        start: start(&[("base", 2), ("conv1", 1), ("quote1", 1)], inst(0, 1, None, None)),
        steps: vec![
            ex("alice", coins(10, "conv1"), ask(A1, "conv1", "2", 10)),
            ex("carol", vec![], ExecuteMsg::ApproveAsk { id: A1.into(), base: "base".into(), size: Uint128::new(10) }),
            ex("bob", coins(20, "quote1"), bid(B1, "2", 10, 20, None)),
            ex("erin", vec![], mtch("2", 10)),
        ],
    });
    // D4b: the opposite mix
    v.push(History {
        label: "d4b_mixed_marker_types_convertible_match".into(),
        start: start(&[("base", 1), ("conv1", 2), ("quote1", 2)], inst(0, 1, None, None)),
        steps: vec![
            ex("alice", vec![], ask(A1, "conv1", "2", 10)),
            ex("carol", coins(10, "base"), ExecuteMsg::ApproveAsk { id: A1.into(), base: "base".into(), size: Uint128::new(10) }),
            ex("bob", vec![], bid(B1, "2", 10, 20, None)),
            ex("erin", vec![], mtch("2", 4)),
            ex("erin", vec![], ExecuteMsg::RejectAsk { id: A1.into(), size: Some(Uint128::new(2)) }),
            ex("alice", vec![], ExecuteMsg::CancelAsk { id: A1.into() }),
        ],
    });
    // D5: the ask fee swallows the whole proceeds (unrestricted and restricted quote)
    for (label, k) in [("d5_fee_equals_gross", 1u8), ("d5b_fee_equals_gross_restricted_quote", 2u8)] {
        v.push(History {
            label: label.into(),
            start: start(&[("quote1", k)], inst(0, 1, Some("0.5"), None)),
            steps: vec![
                ex("bob", if k == 2 { vec![] } else { coins(1, "quote1") }, bid(B1, "1", 1, 1, None)),
                ex("alice", coins(1, "base"), ask(A1, "base", "1", 1)),
                ex("erin", vec![], mtch("1", 1)),
            ],
        });
    }
    // D6: funds attached to a configuration change
    v.push(History {
        label: "d6_modify_with_funds".into(),
        start: start(&[], inst(0, 1, None, None)),
        steps: vec![ex(
            "erin",
            coins(1, "base"),
            ExecuteMsg::ModifyContract {
                approvers: None,
                executors: None,
                ask_fee_rate: None,
                ask_fee_account: None,
                bid_fee_rate: None,
                bid_fee_account: None,
                ask_required_attributes: None,
                bid_required_attributes: None,
            },
        )],
    });
    // F6: a product that needs 97 bits is rounded by the 96-bit decimal
    let big: u128 = 10_600_000_000_000_000_000_000_000_000;
    let half: u128 = 5_300_000_000_000_000_000_000_000_001;
    v.push(History {
        label: "f6_lossy_product".into(),
        start: start(&[], inst(1, 10, None, None)),
        steps: vec![
            ex("bob", coins(big / 2 * 3, "quote1"), bid(B1, "1.5", big, big / 2 * 3, None)),
            ex("alice", coins(big, "base"), ask(A1, "base", "1.5", big)),
            ex("erin", vec![], mtch("1.5", half)),
        ],
    });
    // F7: pro-rata fee one unit off the nearest (4·F·Q > 10^28)
    let q_total: u128 = 2_888_046_710_984_459;
    let f_total: u128 = 9_952_633_520_079;
    let q_left: u128 = 828_079_463_750_856;
    let need: u128 = 2_853_683_562_966; // what the 28-digit pipeline computes for q_left
    let info = ContractInfoV3 {
        name: "ats".into(),
        bind_name: "".into(),
        base_denom: "base".into(),
        convertible_base_denoms: vec![],
        supported_quote_denoms: vec!["quote1".into()],
        approvers: vec![Addr::unchecked("carol")],
        executors: vec![Addr::unchecked("erin")],
        ask_fee_info: None,
        bid_fee_info: Some(FeeInfo { account: Addr::unchecked("gina"), rate: "0.0034461470038642".into() }),
        ask_required_attributes: vec![],
        bid_required_attributes: vec![],
        price_precision: Uint128::new(0),
        size_increment: Uint128::new(1),
    };
    v.push(History {
        label: "f7_fee_one_unit_off_nearest".into(),
        start: Start::Seed {
            markers: BTreeMap::new(),
            attrs: BTreeMap::new(),
            state: SeedState {
                info,
                version: VersionInfoV1 { definition: "ats_smart_contract".into(), version: "1.0.0".into() },
                asks: vec![],
                bids3: vec![(
                    B1.to_string(),
                    BidOrderV3 {
                        base: coin(q_total, "base"),
                        accumulated_base: Uint128::new(q_total - q_left),
                        accumulated_quote: Uint128::new(q_total - q_left),
                        accumulated_fee: Uint128::new(f_total - need),
                        fee: Some(coin(f_total, "quote1")),
                        id: B1.to_string(),
                        owner: Addr::unchecked("bob"),
                        price: "1".into(),
                        quote: coin(q_total, "quote1"),
                    },
                )],
                bids2: vec![],
            },
        },
        steps: vec![ex("alice", coins(5, "base"), ask(A1, "base", "1", 5))],
    });
    v
}
