//! Unit-level streams: the glue primitives (rust_decimal, uuid, semver) evaluated by the real
//! crates; the Lean driver recomputes each line with the model's definition.
use crate::gen::Rng;
use crate::wire::enc;
use cosmwasm_std::Uint128;
use rust_decimal::prelude::*;
use rust_decimal::{Decimal, RoundingStrategy};
use semver::{Version, VersionReq};
use std::panic::{catch_unwind, AssertUnwindSafe};
use uuid::Uuid;

// The two compositions of crate primitives below are spelled out here rather than imported from
// the contract's `util` module: the unit streams validate the model's arithmetic / grammar
// against rust_decimal and uuid themselves, and must not break when the contract renames or
// re-types an internal helper (harmless rewrite H18-r14).  What the *contract* does with them is
// tied by the histories through the entry points (prices at every precision, ids in every form).
fn is_invalid_price_precision(price: Decimal, price_precision: Uint128) -> bool {
    // (the contract is built with overflow checks: the power panics instead of wrapping)
    let factor = 10u128.checked_pow(price_precision.u128() as u32).expect("attempt to multiply with overflow");
    price.checked_mul(Decimal::from(factor)).unwrap().fract().ne(&Decimal::zero())
}

fn is_hyphenated_uuid_str(uuid: &str) -> bool {
    match Uuid::parse_str(uuid) {
        Ok(u) => u.hyphenated().to_string() == uuid,
        Err(_) => false,
    }
}

fn dec_str(r: &mut Rng) -> String {
    fn digits(r: &mut Rng, lo: u64, span: u64) -> String {
        let n = lo + r.below(span.max(1));
        (0..n).map(|_| char::from(b'0' + r.below(10) as u8)).collect()
    }
    match r.below(16) {
        0 => r.pick(&["", "+", "-", ".", "_", "-.", "+.5", "-.5", "1.", ".5", "1_0", "_1", "1__0", "1._5", "._5", "-_1", "+-1", "1e3", " 1", "1 ", "0x10", "1.2.3", "--1", "-0", "-0.0", "+0", "00", "007", "0.10", "1,5"]).to_string(),
        1 => format!("{}.{}", digits(r, 1, 4), digits(r, 27, 4)),
        2 => digits(r, 27, 5),
        3 => "79228162514264337593543950335".to_string(),
        4 => "79228162514264337593543950336".to_string(),
        5 => { let a = r.below(10); let b = digits(r, 0, 3); format!("7922816251426433759354395033{}.{}", a, b) },
        6 => format!("-{}", digits(r, 1, 6)),
        7 => { let a = digits(r, 0, 3); let b = digits(r, 0, 6); format!("{}.{}", a, b) }
        8 => { let a = digits(r, 1, 3); let b = digits(r, 1, 3); format!("{}_{}", a, b) }
        9 => {
            // 28 fractional digits, then the byte that decides the rounding, then anything at all
            let a = digits(r, 1, 3);
            let b = digits(r, 28, 1);
            let next = *r.pick(&["0", "4", "5", "9", "_", ".", "x", " ", "-", "e"]);
            let tail = *r.pick(&["", "", "7", "xyz", "..", " 1", "_5", "e9"]);
            let sign = *r.pick(&["", "", "-", "+"]);
            format!("{}{}.{}{}{}", sign, a, b, next, tail)
        }
        10 => {
            // the mantissa reaches 96 bits inside the fraction: rounding on the digit that would overflow
            let head = *r.pick(&["7922816251426433759354395033", "7922816251426433759354395", "79228162514264337593543950335", "99999999999999999999999999999"]);
            let k = r.below(head.len() as u64 - 1) as usize + 1;
            let (ip, fp) = head.split_at(k);
            let more = digits(r, 0, 6);
            let tail = *r.pick(&["", "", "x", "_", "."]);
            format!("{}.{}{}{}", ip, fp, more, tail)
        }
        _ => {
            let a = digits(r, 1, 9);
            let b = digits(r, 0, 8);
            let sign = *r.pick(&["", "", "", "+", "-"]);
            if b.is_empty() {
                format!("{}{}", sign, a)
            } else {
                format!("{}{}.{}", sign, a, b)
            }
        }
    }
}

fn dec_fields(d: &Decimal) -> String {
    format!("{} {} {}", if d.is_sign_negative() { 1 } else { 0 }, d.mantissa().unsigned_abs(), d.scale())
}

fn rand_dec(r: &mut Rng) -> Decimal {
    let bits = 1 + r.below(96) as u32;
    let m = r.big(bits);
    let s = r.below(29) as u32;
    let neg = r.pct(10);
    let mut d = Decimal::from_i128_with_scale(m as i128, s);
    if neg {
        d.set_sign_negative(true);
    }
    d
}

pub fn stream(seed: u64, count: u64) -> String {
    let mut r = Rng(seed ^ 0xA5A5_5A5A_1234_5678);
    let mut o = String::new();
    for i in 0..count {
        if i % 16 == 9 {
            // monotonicity of the pro-rata fee in the unspent quote (hypothesis FeeMono of C09)
            let small = r.pct(50);
            let q_total: u128 = if small { 1 + r.below(5000) as u128 } else { (1 + r.bigr(96)).min((1u128 << 96) - 1) };
            let f: u128 = if small { r.below(2000) as u128 } else { r.bigr(96).min((1u128 << 96) - 1) };
            let pick = |r: &mut Rng| -> u128 {
                if q_total > u64::MAX as u128 { r.big(96) % (q_total + 1) } else { r.below(q_total as u64 + 1) as u128 }
            };
            let (mut q1, mut q2) = (pick(&mut r), pick(&mut r));
            if r.pct(40) { q2 = (q1 + 1 + r.below(3) as u128).min(q_total); }
            if q1 > q2 { std::mem::swap(&mut q1, &mut q2); }
            let fee_for = |q: u128| -> Option<u128> {
                catch_unwind(AssertUnwindSafe(|| {
                    let ratio = Decimal::from_u128(q).unwrap().checked_div(Decimal::from_u128(q_total).unwrap()).unwrap();
                    ratio.checked_mul(Decimal::from(f)).and_then(|p| p.round_dp_with_strategy(0, RoundingStrategy::MidpointAwayFromZero).to_u128())
                })).ok().flatten()
            };
            if let (Some(n1), Some(n2)) = (fee_for(q1), fee_for(q2)) {
                o.push_str(&format!("UFM {} {} {} {} {} {}\n", f, q_total, q1, q2, n1, n2));
            }
            continue;
        }
        match i % 8 {
            0 => {
                let s = dec_str(&mut r);
                match Decimal::from_str(&s) {
                    Ok(d) => o.push_str(&format!("UDP {} ok {}\n", enc(&s), dec_fields(&d))),
                    Err(_) => o.push_str(&format!("UDP {} bad\n", enc(&s))),
                }
            }
            1 => {
                let a = rand_dec(&mut r);
                let b = if r.pct(30) { Decimal::from_u128(r.bigr(96)).unwrap() } else { rand_dec(&mut r) };
                match a.checked_mul(b) {
                    Some(p) => o.push_str(&format!("UDM {} {} ok {}\n", dec_fields(&a), dec_fields(&b), dec_fields(&p))),
                    None => o.push_str(&format!("UDM {} {} ovf\n", dec_fields(&a), dec_fields(&b))),
                }
            }
            2 => {
                // feeFor pipeline
                let small = r.pct(50);
                let q_total: u128 = if small { 1 + r.below(2000) as u128 } else { 1 + r.bigr(96) };
                let q_total = q_total.min((1u128 << 96) - 1);
                let q = match r.below(5) {
                    0 => 0,
                    1 => q_total,
                    _ => {
                        if q_total > u64::MAX as u128 {
                            r.big(96) % (q_total + 1)
                        } else {
                            r.below(q_total as u64 + 1) as u128
                        }
                    }
                };
                let f: u128 = if small { r.below(500) as u128 } else { r.bigr(96).min((1u128 << 96) - 1) };
                let res = catch_unwind(AssertUnwindSafe(|| {
                    let ratio = Decimal::from_u128(q).unwrap().checked_div(Decimal::from_u128(q_total).unwrap()).unwrap();
                    ratio
                        .checked_mul(Decimal::from(f))
                        .map(|p| p.round_dp_with_strategy(0, RoundingStrategy::MidpointAwayFromZero).to_u128())
                }));
                let s = match res {
                    Err(_) => "panic".to_string(),
                    Ok(None) => "ovf".to_string(),
                    Ok(Some(None)) => "ovf".to_string(),
                    Ok(Some(Some(v))) => v.to_string(),
                };
                o.push_str(&format!("UFF {} {} {} {}\n", f, q_total, q, s));
            }
            3 => {
                let rates = ["0", "0.003", "0.01", "0.010", "0.1", "0.25", "0.5", "1", "0.0005", "-0.1", "-0.5", "-0.004", "2.5", "0.3333333333333333333333333333"];
                let rate = r.pick(&rates).to_string();
                let amount: u128 = if r.pct(70) { r.below(100_000) as u128 } else { r.bigr(96).min((1u128 << 96) - 1) };
                let rd = Decimal::from_str(&rate).unwrap();
                let res = rd
                    .checked_mul(Decimal::from(amount))
                    .and_then(|p| p.round_dp_with_strategy(0, RoundingStrategy::MidpointAwayFromZero).to_u128());
                match res {
                    Some(v) => o.push_str(&format!("URF {} {} {}\n", enc(&rate), amount, v)),
                    None => o.push_str(&format!("URF {} {} ovf\n", enc(&rate), amount)),
                }
            }
            4 => {
                let s = dec_str(&mut r);
                // every precision up to the first that panics, and precisions whose low 32 bits look legal
                let prec = *r.pick(&[0u128, 1, 2, 3, 6, 18, 9, 12, 19, 27, 28, 29, 30, 38, 39, 40, 255, 4294967295, 4294967296, 4294967298, 4294967296 + 18, 4294967296 + 29, 3 << 32, (1 << 64) + 2, u128::MAX]);
                if let Ok(d) = Decimal::from_str(&s) {
                    let res = catch_unwind(AssertUnwindSafe(|| is_invalid_price_precision(d, Uint128::new(prec))));
                    let t = match res {
                        Ok(true) => "1",
                        Ok(false) => "0",
                        Err(_) => "panic",
                    };
                    o.push_str(&format!("UBP {} {} {}\n", enc(&s), prec, t));
                }
            }
            5 | 6 => {
                let g = r.uuid();
                let plain: String = g.chars().filter(|c| *c != '-').collect();
                let s = match r.below(14) {
                    0 => g.clone(),
                    1 => plain,
                    2 => g.to_uppercase(),
                    3 => format!("{{{}}}", g),
                    4 => format!("urn:uuid:{}", g),
                    5 => format!("{{{}}}", plain),
                    6 => format!("{}g", &g[..35]),
                    7 => g.replace('-', "_"),
                    8 => format!("{}é", &g[..34]),
                    9 => format!("URN:UUID:{}", g),
                    10 => "".to_string(),
                    11 => format!("{} ", &g[..35]),
                    12 => {
                        let mut c: Vec<char> = g.chars().collect();
                        c.swap(8, 9);
                        c.into_iter().collect()
                    }
                    _ => format!("{{{}", &g[..37.min(g.len())]),
                };
                o.push_str(&format!(
                    "UUI {} {} {}\n",
                    enc(&s),
                    if is_hyphenated_uuid_str(&s) { 1 } else { 0 },
                    if Uuid::parse_str(&s).is_ok() { 1 } else { 0 }
                ));
            }
            _ => {
                let nums = ["0", "1", "15", "16", "17", "18", "19", "2", "00", "01", "18446744073709551615", "18446744073709551616", ""];
                let s = match r.below(10) {
                    0 => r.pick(&["abc", "", "1.0", "1", "1.2.3.4", "v1.2.3", " 1.2.3", "1.2.3 ", "0.16.2-", "0.16.2+", "0.16.2-a..b", "0.16.2-01", "0.16.2-0a", "0.16.2-a+", "0.16.2+a-b.c", "0.16.2-a_b", "1.2.-3"]).to_string(),
                    1 | 2 => { let (a, b, c) = (*r.pick(&nums), *r.pick(&nums), *r.pick(&nums)); let d = *r.pick(&["rc1", "0", "alpha.1", "a-b", "00", "0.0", "x.7.z.92"]); format!("{}.{}.{}-{}", a, b, c, d) },
                    3 => { let (a, b, c) = (*r.pick(&nums), *r.pick(&nums), *r.pick(&nums)); let d = *r.pick(&["b5", "001", "a.b", "a..b"]); format!("{}.{}.{}+{}", a, b, c, d) },
                    _ => { let (a, b, c) = (*r.pick(&nums), *r.pick(&nums), *r.pick(&nums)); format!("{}.{}.{}", a, b, c) }
                };
                match Version::parse(&s) {
                    Ok(v) => {
                        let m = |req: &str| if VersionReq::parse(req).unwrap().matches(&v) { 1 } else { 0 };
                        o.push_str(&format!(
                            "USV {} ok {} {} {} {}\n",
                            enc(&s),
                            m(">=0.16.2"),
                            m(">=0.15.0"),
                            m("<0.16.2"),
                            m(">=0.16.2, <0.19.1")
                        ));
                    }
                    Err(_) => o.push_str(&format!("USV {} bad\n", enc(&s))),
                }
            }
        }
    }
    o
}
