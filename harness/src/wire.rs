//! Line protocol towards the Lean driver (see lean/Ats/Wire.lean).
use ats_smart_contract::ask_order::{AskOrderClass, AskOrderStatus, AskOrderV1};
#[allow(deprecated)]
use ats_smart_contract::bid_order::{BidOrderV2, BidOrderV3};
use ats_smart_contract::common::Action;
use ats_smart_contract::contract_info::ContractInfoV3;
use ats_smart_contract::msg::{ExecuteMsg, InstantiateMsg, MigrateMsg, QueryMsg};
use cosmwasm_std::Coin;

pub fn enc(s: &str) -> String {
    let mut o = String::with_capacity(s.len() + 1);
    o.push('~');
    for b in s.bytes() {
        let c = b as char;
        if c.is_ascii_alphanumeric() || "-._:{}+/".contains(c) {
            o.push(c);
        } else {
            o.push_str(&format!("%{:02X}", b));
        }
    }
    o
}

pub fn list_str(v: &[String]) -> String {
    let mut o = v.len().to_string();
    for s in v {
        o.push(' ');
        o.push_str(&enc(s));
    }
    o
}

pub fn opt_str(v: &Option<String>) -> String {
    match v {
        None => "N".into(),
        Some(s) => format!("S {}", enc(s)),
    }
}

pub fn opt_list(v: &Option<Vec<String>>) -> String {
    match v {
        None => "N".into(),
        Some(l) => format!("S {}", list_str(l)),
    }
}

pub fn coin(c: &Coin) -> String {
    format!("{} {}", enc(&c.denom), c.amount.u128())
}

pub fn opt_coin(c: &Option<Coin>) -> String {
    match c {
        None => "N".into(),
        Some(c) => format!("S {}", coin(c)),
    }
}

pub fn coins(v: &[Coin]) -> String {
    let mut o = v.len().to_string();
    for c in v {
        o.push(' ');
        o.push_str(&coin(c));
    }
    o
}

pub fn ask(a: &AskOrderV1) -> String {
    let cls = match &a.class {
        AskOrderClass::Basic => "b".to_string(),
        AskOrderClass::Convertible { status } => match status {
            AskOrderStatus::PendingIssuerApproval => "p".to_string(),
            AskOrderStatus::Ready { approver, converted_base } => {
                format!("r {} {}", enc(approver.as_str()), coin(converted_base))
            }
            // a status this harness does not know (the driver reports it as a protocol error)
            #[allow(unreachable_patterns)]
            _ => "?".to_string(),
        },
        #[allow(unreachable_patterns)]
        _ => "?".to_string(),
    };
    format!(
        "{} {} {} {} {} {} {}",
        enc(&a.id),
        enc(a.owner.as_str()),
        cls,
        enc(&a.base),
        enc(&a.quote),
        enc(&a.price),
        a.size.u128()
    )
}

pub fn bid3(b: &BidOrderV3) -> String {
    format!(
        "{} {} {} {} {} {} {} {} {}",
        coin(&b.base),
        b.accumulated_base.u128(),
        b.accumulated_quote.u128(),
        b.accumulated_fee.u128(),
        opt_coin(&b.fee),
        enc(&b.id),
        enc(b.owner.as_str()),
        enc(&b.price),
        coin(&b.quote)
    )
}

pub fn action(a: &Action) -> String {
    match a {
        Action::Fill { base, fee, price, quote } => {
            format!("f {} {} {} {}", coin(base), opt_coin(fee), enc(price), coin(quote))
        }
        Action::Refund { fee, quote } => format!("u {} {}", opt_coin(fee), coin(quote)),
        Action::Reject { base, fee, quote } => {
            format!("j {} {} {}", coin(base), opt_coin(fee), coin(quote))
        }
        #[allow(unreachable_patterns)]
        _ => "?".to_string(),
    }
}

#[allow(deprecated)]
pub fn bid2(b: &BidOrderV2) -> String {
    let mut ev = b.events.len().to_string();
    for e in &b.events {
        ev.push(' ');
        ev.push_str(&action(&e.action));
    }
    format!(
        "{} {} {} {} {} {} {}",
        coin(&b.base),
        ev,
        opt_coin(&b.fee),
        enc(&b.id),
        enc(b.owner.as_str()),
        enc(&b.price),
        coin(&b.quote)
    )
}

pub fn info(i: &ContractInfoV3) -> String {
    let fee = |f: &Option<ats_smart_contract::common::FeeInfo>| match f {
        None => "N".to_string(),
        Some(f) => format!("S {} {}", enc(f.account.as_str()), enc(&f.rate)),
    };
    let addrs = |v: &Vec<cosmwasm_std::Addr>| {
        list_str(&v.iter().map(|a| a.to_string()).collect::<Vec<_>>())
    };
    format!(
        "{} {} {} {} {} {} {} {} {} {} {} {} {}",
        enc(&i.name),
        enc(&i.bind_name),
        enc(&i.base_denom),
        list_str(&i.convertible_base_denoms),
        list_str(&i.supported_quote_denoms),
        addrs(&i.approvers),
        addrs(&i.executors),
        fee(&i.ask_fee_info),
        fee(&i.bid_fee_info),
        list_str(&i.ask_required_attributes),
        list_str(&i.bid_required_attributes),
        i.price_precision.u128(),
        i.size_increment.u128()
    )
}

pub fn inst_msg(m: &InstantiateMsg) -> String {
    format!(
        "{} {} {} {} {} {} {} {} {} {} {} {} {} {}",
        enc(&m.name),
        enc(&m.base_denom),
        list_str(&m.convertible_base_denoms),
        list_str(&m.supported_quote_denoms),
        list_str(&m.approvers),
        list_str(&m.executors),
        opt_str(&m.ask_fee_rate),
        opt_str(&m.ask_fee_account),
        opt_str(&m.bid_fee_rate),
        opt_str(&m.bid_fee_account),
        list_str(&m.ask_required_attributes),
        list_str(&m.bid_required_attributes),
        m.price_precision.u128(),
        m.size_increment.u128()
    )
}

pub fn mig_msg(m: &MigrateMsg) -> String {
    format!(
        "{} {} {} {} {} {} {}",
        opt_list(&m.approvers),
        opt_str(&m.ask_fee_rate),
        opt_str(&m.ask_fee_account),
        opt_str(&m.bid_fee_rate),
        opt_str(&m.bid_fee_account),
        opt_list(&m.ask_required_attributes),
        opt_list(&m.bid_required_attributes)
    )
}

pub fn query_msg(q: &QueryMsg) -> String {
    match q {
        QueryMsg::GetAsk { id } => format!("get_ask {}", enc(id)),
        QueryMsg::GetBid { id } => format!("get_bid {}", enc(id)),
        QueryMsg::GetContractInfo {} => "get_contract_info".into(),
        QueryMsg::GetVersionInfo {} => "get_version_info".into(),
        // a query kind added to the contract after this harness was written: never generated
        #[allow(unreachable_patterns)]
        _ => "unknown_query".into(),
    }
}

pub fn exec_msg(m: &ExecuteMsg) -> String {
    let on = |v: &Option<cosmwasm_std::Uint128>| match v {
        None => "N".to_string(),
        Some(n) => format!("S {}", n.u128()),
    };
    match m {
        ExecuteMsg::ApproveAsk { id, base, size } => {
            format!("approve_ask {} {} {}", enc(id), enc(base), size.u128())
        }
        ExecuteMsg::CancelAsk { id } => format!("cancel_ask {}", enc(id)),
        ExecuteMsg::CancelBid { id } => format!("cancel_bid {}", enc(id)),
        ExecuteMsg::CreateAsk { id, base, quote, price, size } => format!(
            "create_ask {} {} {} {} {}",
            enc(id),
            enc(base),
            enc(quote),
            enc(price),
            size.u128()
        ),
        ExecuteMsg::CreateBid { id, base, fee, price, quote, quote_size, size } => format!(
            "create_bid {} {} {} {} {} {} {}",
            enc(id),
            enc(base),
            opt_coin(fee),
            enc(price),
            enc(quote),
            quote_size.u128(),
            size.u128()
        ),
        ExecuteMsg::ExecuteMatch { ask_id, bid_id, price, size } => format!(
            "execute_match {} {} {} {}",
            enc(ask_id),
            enc(bid_id),
            enc(price),
            size.u128()
        ),
        ExecuteMsg::ExpireAsk { id } => format!("expire_ask {}", enc(id)),
        ExecuteMsg::ExpireBid { id } => format!("expire_bid {}", enc(id)),
        ExecuteMsg::RejectAsk { id, size } => format!("reject_ask {} {}", enc(id), on(size)),
        ExecuteMsg::RejectBid { id, size } => format!("reject_bid {} {}", enc(id), on(size)),
        ExecuteMsg::ModifyContract {
            approvers,
            executors,
            ask_fee_rate,
            ask_fee_account,
            bid_fee_rate,
            bid_fee_account,
            ask_required_attributes,
            bid_required_attributes,
        } => format!(
            "modify_contract {} {} {} {} {} {} {} {}",
            opt_list(approvers),
            opt_list(executors),
            opt_str(ask_fee_rate),
            opt_str(ask_fee_account),
            opt_str(bid_fee_rate),
            opt_str(bid_fee_account),
            opt_list(ask_required_attributes),
            opt_list(bid_required_attributes)
        ),
        // a request kind added to the contract after this harness was written: never generated
        #[allow(unreachable_patterns)]
        _ => "unknown_exec".into(),
    }
}
