#!/usr/bin/env python3
"""mut_eval.py <ID> [props...]: confirm a seeded change in its scratch worktree, run the checks
against it (applied to /repo, undone afterwards), store it under seeded/<ID>/."""
import json, os, shutil, subprocess, sys
ID = sys.argv[1]
props = sys.argv[2:]
RND = os.environ.get("MUT_ROUND", "")          # "" = first round, "2" = second round …
out = f"/tmp/mut{RND}_out/{ID}"
wt = f"/tmp/mut{RND}/{ID}"
SID = ID + (f"-r{RND}" if RND else "")          # directory name under seeded/
env = dict(os.environ, CARGO_NET_OFFLINE="true", ATS_EVAL_NO_PROOF="1")
def sh(cmd, cwd=None):
    return subprocess.run(cmd, shell=True, cwd=cwd, env=env, stdout=subprocess.PIPE, stderr=subprocess.STDOUT, text=True)
meta = json.load(open(f"{out}/meta.json"))
demo = meta.get("demo_test", "")
log = []
# 1. confirm in the scratch worktree
sh("git reset -q --hard HEAD && git clean -fdq src tests", wt)
r = sh(f"git apply {out}/demo.diff && cargo test --offline {demo} 2>&1 | grep -E '^test result' | head -8", wt)
log.append(("orig+demo", r.stdout.strip()))
import re
def counts(txt):
    ps = sum(int(x) for x in re.findall(r"(\d+) passed", txt)); fs = sum(int(x) for x in re.findall(r"(\d+) failed", txt))
    return ps, fs
pa, fa = counts(r.stdout)
ok_a = pa >= 1 and fa == 0 and "FAILED" not in r.stdout
r = sh(f"git apply {out}/patch.diff && cargo test --offline 2>&1 | grep -E '^test result' | head -8", wt)
log.append(("orig+demo+patch", r.stdout.strip()))
ok_c = "FAILED" in r.stdout
sh("git reset -q --hard HEAD && git clean -fdq src tests", wt)
r = sh(f"git apply {out}/patch.diff && cargo test --offline 2>&1 | grep -E '^test result' | head -8", wt)
log.append(("orig+patch", r.stdout.strip()))
ok_b = "178 passed; 0 failed" in r.stdout
print("confirm: demo passes on original:", ok_a, "| suite passes with patch:", ok_b, "| demo fails with patch:", ok_c)
# 2. run the checks against it
res = {}
if ok_a and ok_b and ok_c:
    assert sh("git status --porcelain", "/repo").stdout.strip() == "", "/repo not clean"
    try:
        r = sh(f"git apply {out}/patch.diff", "/repo")
        assert r.returncode == 0, r.stdout
        if not props:
            props = ["C%02d" % i for i in range(1, 18)]
        for p in props:
            r = sh(f"./check {p}", "/verif")
            line = [l for l in r.stdout.splitlines() if l.startswith("VIOLATION") or l.startswith("OK ")]
            desc = [l for l in r.stdout.splitlines() if l.startswith("# ")]
            res[p] = {"exit": r.returncode, "line": line[-1] if line else r.stdout[-300:], "why": desc[:2]}
            print(p, r.returncode, (desc[0] if desc else ""), "|", line[-1] if line else "")
            if r.returncode != 0 and line:
                rp = line[-1].split("replay=")[1].split(" ")[0]
                if os.path.exists(rp):
                    os.makedirs(f"/verif/seeded/{SID}", exist_ok=True)
                    shutil.copy(rp, f"/verif/seeded/{SID}/replay_{p}.json")
    finally:
        sh("git checkout -q -- .", "/repo")
    assert sh("git status --porcelain", "/repo").stdout.strip() == ""
d = f"/verif/seeded/{SID}"
os.makedirs(d, exist_ok=True)
shutil.copy(f"{out}/patch.diff", d)
shutil.copy(f"{out}/demo.diff", d)
meta["confirmed"] = {"demo_passes_on_original": ok_a, "suite_passes_with_patch": ok_b, "demo_fails_with_patch": ok_c, "log": log}
meta["checks"] = res
meta["caught_by"] = sorted(p for p, v in res.items() if v["exit"] != 0)
json.dump(meta, open(f"{d}/meta.json", "w"), indent=1)
print("caught by:", meta["caught_by"])
