#!/usr/bin/env python3
"""prints the markdown tables of DESIGN.md §11 from seeded/*/meta.json and harmless/*/meta.json"""
import json, glob, os, re
def short(s, n):
    s = re.sub(r"\s+", " ", s or "").strip()
    return s if len(s) <= n else s[:n - 1] + "…"
rows = []
for d in sorted(glob.glob("/verif/seeded/*")):
    mp = os.path.join(d, "meta.json")
    if not os.path.exists(mp):
        continue
    m = json.load(open(mp))
    sid = os.path.basename(d)
    conf = m.get("confirmed", {})
    ok = all(conf.get(k) for k in ("demo_passes_on_original", "suite_passes_with_patch", "demo_fails_with_patch")) if conf else True
    own = m.get("property", sid[:3])
    cb = m.get("caught_by", [])
    rows.append((sid, own, ok, cb, short(m.get("summary", ""), 150), short(m.get("needs", ""), 110)))
print("| seeded | what | needs | caught by |")
print("|---|---|---|---|")
tot = caught = 0
for sid, own, ok, cb, summ, needs in rows:
    if not ok:
        continue
    tot += 1
    caught += own in cb
    mark = " ".join(("**%s**" % p) if p == own else p for p in cb) or "— (missed)"
    print(f"| {sid} | {summ} | {needs} | {mark} |")
print(f"\n{tot} confirmed changes, {caught} caught by the check of the property they were written against.")
bad = [r[0] for r in rows if not r[2]]
if bad:
    print("Not kept (could not be confirmed – the demonstration did not behave as claimed): " + ", ".join(bad))
print()
print("| harmless rewrite | what | alarms |")
print("|---|---|---|")
for d in sorted(glob.glob("/verif/harmless/*")):
    mp = os.path.join(d, "meta.json")
    if not os.path.exists(mp):
        continue
    m = json.load(open(mp))
    pats = {p.get("file"): p for p in m.get("patches", [])}
    for name, res in sorted(m.get("checks", {}).items()):
        al = sorted(k for k in res if not k.startswith("_"))
        print(f"| {os.path.basename(d)}/{name} | {short(pats.get(name, {}).get('summary', ''), 170)} | {' '.join(al) or 'none'} |")
