#!/usr/bin/env python3
"""harmless_eval.py <ID> : run every check against each behaviour-preserving patch of
/tmp/mut<R>_out/<ID>/patch*.diff (applied to /repo, undone afterwards).  A harmless rewrite must
raise no alarm; whatever is raised is recorded in harmless/<ID>/meta.json."""
import json, os, shutil, subprocess, sys, glob
ID = sys.argv[1]
RND = os.environ.get("MUT_ROUND", "3")
out = f"/tmp/mut{RND}_out/{ID}"
env = dict(os.environ, CARGO_NET_OFFLINE="true", ATS_EVAL_NO_PROOF="1")
def sh(cmd, cwd=None):
    return subprocess.run(cmd, shell=True, cwd=cwd, env=env, stdout=subprocess.PIPE, stderr=subprocess.STDOUT, text=True)
meta = json.load(open(f"{out}/meta.json")) if os.path.exists(f"{out}/meta.json") else {"id": ID}
d = f"/verif/harmless/{ID}"
os.makedirs(d, exist_ok=True)
results = {}
props = sys.argv[2:] or ["C%02d" % i for i in range(1, 18)]
for pf in sorted(glob.glob(f"{out}/patch*.diff")):
    name = os.path.basename(pf)
    assert sh("git status --porcelain", "/repo").stdout.strip() == "", "/repo not clean"
    res = {}
    try:
        r = sh(f"git apply {pf}", "/repo")
        assert r.returncode == 0, r.stdout
        t = sh("cargo test --offline 2>&1 | grep -E '^test result' | head -3", "/repo")
        res["_suite"] = t.stdout.strip()
        for p in props:
            r = sh(f"./check {p}", "/verif")
            line = [l for l in r.stdout.splitlines() if l.startswith("VIOLATION") or l.startswith("OK ")]
            desc = [l for l in r.stdout.splitlines() if l.startswith("# ")]
            if r.returncode != 0:
                res[p] = {"exit": r.returncode, "line": line[-1] if line else r.stdout[-300:], "why": desc[:3]}
                print(name, p, "ALARM", desc[:1], line[-1] if line else "")
                if line and "replay=" in line[-1]:
                    rp = line[-1].split("replay=")[1].split(" ")[0]
                    if os.path.exists(rp):
                        shutil.copy(rp, f"{d}/{name}.alarm_{p}.json")
    finally:
        sh("git checkout -q -- . && git clean -fdq src schema", "/repo")
    assert sh("git status --porcelain", "/repo").stdout.strip() == ""
    results[name] = res
    print(name, "suite:", res.get("_suite", "")[:60].replace("\n", " | "), "alarms:", sorted(k for k in res if k != "_suite"))
    shutil.copy(pf, d)
meta["checks"] = results
json.dump(meta, open(f"{d}/meta.json", "w"), indent=1)
