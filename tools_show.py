#!/usr/bin/env python3
"""show the trace lines of one step: tools_show.py trace.txt label step [context]"""
import sys,urllib.parse
tr,label,step=sys.argv[1],sys.argv[2],int(sys.argv[3])
ctx=int(sys.argv[4]) if len(sys.argv)>4 else 0
cur=None;n=0;buf=[]
def dec(t):
    return urllib.parse.unquote(t[1:]) if t.startswith('~') else t
for line in open(tr):
    line=line.rstrip('\n')
    if line.startswith('H '):
        cur=line[2:];n=0;continue
    if cur!=label: continue
    buf.append(line)
    if line=='Z':
        if step-ctx<=n<=step:
            print(f'--- step {n}')
            for l in buf: print('  '+' '.join(dec(t) if t.startswith('~') else t for t in l.split(' ')))
        n+=1;buf=[]
    if line=='CS':
        print('--- seed'); 
        for l in buf: print('  '+' '.join(dec(t) if t.startswith('~') else t for t in l.split(' ')))
        buf=[]
