#!/usr/bin/env python3
"""par_eval.py --round R [--workers N] [--kind seeded|harmless] ID...

Evaluate seeded changes (or harmless rewrites) produced by sub-agents in parallel, each worker in
its own scratch copy (a git worktree of /repo plus a copy of the harness pointed at it) so that
/repo itself is never touched.  Not a registered command.

seeded  : /tmp/mut<R>_out/<ID>/{patch.diff,demo.diff,meta.json}, confirmed in /tmp/mut<R>/<ID>
          (demo passes on the original, suite passes with the patch, demo fails with the patch),
          then every check is run against the patched copy -> /verif/seeded/<ID>-r<R>/
harmless: /tmp/mut<R>_out/<ID>/patch*.diff -> /verif/harmless/<ID>[-r<R>]/
"""
import json, os, re, shutil, subprocess, sys, threading, queue, glob

args = sys.argv[1:]
RND, WORKERS, KIND, IDS = "4", 3, "seeded", []
ONLY = ""
ROOT = "/tmp/evalw"
i = 0
while i < len(args):
    if args[i] == "--round":
        RND = args[i + 1]; i += 2
    elif args[i] == "--workers":
        WORKERS = int(args[i + 1]); i += 2
    elif args[i] == "--kind":
        KIND = args[i + 1]; i += 2
    elif args[i] == "--root":
        ROOT = args[i + 1]; i += 2
    elif args[i] == "--props":          # "own" = the change's own property, C01 and C11 only (a short run)
        ONLY = args[i + 1]; i += 2
    else:
        IDS.append(args[i]); i += 1
PROPS = ["C%02d" % k for k in range(1, 18)]
lock = threading.Lock()
wt_locks = {}


def sh(cmd, cwd=None, env=None, timeout=3600):
    e = dict(os.environ, CARGO_NET_OFFLINE="true")
    if env:
        e.update(env)
    try:
        return subprocess.run(cmd, shell=True, cwd=cwd, env=e, stdout=subprocess.PIPE, stderr=subprocess.STDOUT, text=True, timeout=timeout)
    except subprocess.TimeoutExpired:
        class R: returncode = 124; stdout = "TIMEOUT"
        return R()


def setup(k):
    w = f"{ROOT}/w{k}"
    os.makedirs(w, exist_ok=True)
    if not os.path.exists(f"{w}/repo/src"):
        sh(f"git -C /repo worktree add -q --detach {w}/repo HEAD")
    sh("git checkout -q -- . && git clean -fdq src schema tests", f"{w}/repo")
    sh(f"rsync -a --delete --exclude .git --exclude .work --exclude harness/target --exclude lean/.lake --exclude seeded --exclude harmless --exclude sweep /verif/ {w}/verif/")
    ct = f"{w}/verif/harness/Cargo.toml"
    shutil.copy("/verif/lean/.lake/build/bin/atsdrv", f"{w}/atsdrv")      # a private copy: the driver may be rebuilt meanwhile
    txt = open(ct).read().replace('path = "/repo"', f'path = "{w}/repo"')
    open(ct, "w").write(txt)
    return w


def run_checks(w, props):
    res = {}
    env = {"ATS_EVAL_NO_PROOF": "1", "ATS_REPO": f"{w}/repo", "ATS_DRV": f"{w}/atsdrv"}
    for p in props:
        r = sh(f"./check {p}", f"{w}/verif", env)
        line = [l for l in r.stdout.splitlines() if l.startswith("VIOLATION") or l.startswith("OK ")]
        desc = [l for l in r.stdout.splitlines() if l.startswith("# ")]
        if not line:
            # the check itself broke (not a verdict): run it once more
            r = sh(f"./check {p}", f"{w}/verif", env)
            line = [l for l in r.stdout.splitlines() if l.startswith("VIOLATION") or l.startswith("OK ")]
            desc = [l for l in r.stdout.splitlines() if l.startswith("# ")]
        res[p] = {"exit": r.returncode if line else 0, "line": line[-1] if line else "CHECK-ERROR " + r.stdout[-300:], "why": desc[:2]}
    return res


def counts(txt):
    ps = sum(int(x) for x in re.findall(r"(\d+) passed", txt)); fs = sum(int(x) for x in re.findall(r"(\d+) failed", txt))
    return ps, fs


def do_seeded(w, ID):
    out = f"/tmp/mut{RND}_out/{ID}"
    wt = f"/tmp/mut{RND}/{ID}"
    SID = f"{ID}-r{RND}"
    if not os.path.exists(f"{out}/meta.json"):
        return f"{ID}: no meta.json"
    meta = json.load(open(f"{out}/meta.json"))
    demo = meta.get("demo_test", "")
    log = []
    with lock:
        wl = wt_locks.setdefault(os.path.realpath(wt), threading.Lock())
    wl.acquire()          # two changes of one agent share its worktree
    sh("git reset -q --hard HEAD && git clean -fdq src tests", wt)
    r = sh(f"git apply {out}/demo.diff && cargo test --offline {demo} 2>&1 | grep -E '^test result' | head -8", wt)
    log.append(("orig+demo", r.stdout.strip()))
    pa, fa = counts(r.stdout)
    ok_a = pa >= 1 and fa == 0 and "FAILED" not in r.stdout
    r = sh(f"git apply {out}/patch.diff && cargo test --offline 2>&1 | grep -E '^test result' | head -8", wt)
    log.append(("orig+demo+patch", r.stdout.strip()))
    ok_c = "FAILED" in r.stdout
    sh("git reset -q --hard HEAD && git clean -fdq src tests", wt)
    r = sh(f"git apply {out}/patch.diff && cargo test --offline 2>&1 | grep -E '^test result' | head -8", wt)
    log.append(("orig+patch", r.stdout.strip()))
    ok_b = "178 passed; 0 failed" in r.stdout and "FAILED" not in r.stdout
    sh("git reset -q --hard HEAD && git clean -fdq src tests", wt)
    wl.release()
    res = {}
    if ok_a and ok_b and ok_c:
        sh("git checkout -q -- . && git clean -fdq src schema tests", f"{w}/repo")
        r = sh(f"git apply {out}/patch.diff", f"{w}/repo")
        if r.returncode == 0:
            res = run_checks(w, PROPS if not ONLY else sorted({meta.get("property", ID[:3]), "C01", "C11"}) if ONLY == "own" else ONLY.split(","))
            for p, v in res.items():
                if v["exit"] != 0 and "replay=" in v["line"]:
                    rp = v["line"].split("replay=")[1].split(" ")[0]
                    if os.path.exists(rp):
                        os.makedirs(f"/verif/seeded/{SID}", exist_ok=True)
                        shutil.copy(rp, f"/verif/seeded/{SID}/replay_{p}.json")
        sh("git checkout -q -- . && git clean -fdq src schema tests", f"{w}/repo")
    d = f"/verif/seeded/{SID}"
    os.makedirs(d, exist_ok=True)
    shutil.copy(f"{out}/patch.diff", d)
    shutil.copy(f"{out}/demo.diff", d)
    meta["confirmed"] = {"demo_passes_on_original": ok_a, "suite_passes_with_patch": ok_b, "demo_fails_with_patch": ok_c, "log": log}
    meta["checks"] = res
    meta["caught_by"] = sorted(p for p, v in res.items() if v["exit"] != 0)
    json.dump(meta, open(f"{d}/meta.json", "w"), indent=1)
    own = meta.get("property", ID[:3])
    return f"{SID}: confirmed={ok_a and ok_b and ok_c} own={'CAUGHT' if own in meta['caught_by'] else 'MISSED'} caught_by={meta['caught_by']}"


def do_harmless(w, ID):
    out = f"/tmp/mut{RND}_out/{ID}"
    d = f"/verif/harmless/{ID}" + ("" if RND == "3" else f"-r{RND}")
    os.makedirs(d, exist_ok=True)
    meta = json.load(open(f"{out}/meta.json")) if os.path.exists(f"{out}/meta.json") else {"id": ID}
    results = {}
    lines = []
    for pf in sorted(glob.glob(f"{out}/patch*.diff")):
        name = os.path.basename(pf)
        sh("git checkout -q -- . && git clean -fdq src schema tests examples", f"{w}/repo")
        r = sh(f"git apply {pf}", f"{w}/repo")
        if r.returncode != 0:
            results[name] = {"_apply": r.stdout[-300:]}
            continue
        t = sh("cargo test --offline 2>&1 | grep -E '^test result' | head -3", f"{w}/repo")
        res = run_checks(w, PROPS)
        alarms = {p: v for p, v in res.items() if v["exit"] != 0}
        for p, v in alarms.items():
            if "replay=" in v["line"]:
                rp = v["line"].split("replay=")[1].split(" ")[0]
                if os.path.exists(rp):
                    shutil.copy(rp, f"{d}/{name}.alarm_{p}.json")
        results[name] = {"_suite": t.stdout.strip(), **alarms}
        shutil.copy(pf, d)
        lines.append(f"{ID}/{name}: suite={'ok' if '178 passed; 0 failed' in t.stdout else 'BROKEN'} alarms={sorted(alarms)} " +
                     "; ".join(f"{p}:{v['why'][:1]}" for p, v in alarms.items())[:300])
    sh("git checkout -q -- . && git clean -fdq src schema tests examples", f"{w}/repo")
    meta["checks"] = results
    json.dump(meta, open(f"{d}/meta.json", "w"), indent=1)
    return "\n".join(lines)


def main():
    q = queue.Queue()
    for x in IDS:
        q.put(x)

    def work(k):
        w = setup(k)
        while True:
            try:
                ID = q.get_nowait()
            except queue.Empty:
                return
            try:
                msg = do_seeded(w, ID) if KIND == "seeded" else do_harmless(w, ID)
            except Exception as e:
                msg = f"{ID}: ERROR {e}"
            with lock:
                print(msg, flush=True)

    ths = [threading.Thread(target=work, args=(k,)) for k in range(WORKERS)]
    for t in ths:
        t.start()
    for t in ths:
        t.join()


if __name__ == "__main__":
    main()
