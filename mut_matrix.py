#!/usr/bin/env python3
"""mut_matrix.py [ids...]: apply each seeded change to /repo, run every check against it, undo it,
and refresh seeded/<id>/meta.json (checks, caught_by).  The changes were confirmed when created
(mut_eval.py); this only re-runs the checks, e.g. after the machinery has changed."""
import json, os, shutil, subprocess, sys
ROOT = "/verif"
env = dict(os.environ, CARGO_NET_OFFLINE="true", ATS_EVAL_NO_PROOF="1")
def sh(cmd, cwd=None):
    return subprocess.run(cmd, shell=True, cwd=cwd, env=env, stdout=subprocess.PIPE, stderr=subprocess.STDOUT, text=True)
ids = sys.argv[1:] or sorted(os.listdir(f"{ROOT}/seeded"))
props = ["C%02d" % i for i in range(1, 18)]
for ID in ids:
    d = f"{ROOT}/seeded/{ID}"
    meta = json.load(open(f"{d}/meta.json"))
    assert sh("git status --porcelain", "/repo").stdout.strip() == "", "/repo not clean"
    res = {}
    try:
        r = sh(f"git apply {d}/patch.diff", "/repo")
        assert r.returncode == 0, r.stdout
        for p in props:
            r = sh(f"./check {p}", ROOT)
            line = [l for l in r.stdout.splitlines() if l.startswith("VIOLATION") or l.startswith("OK ")]
            desc = [l for l in r.stdout.splitlines() if l.startswith("# ")]
            res[p] = {"exit": r.returncode, "line": line[-1] if line else r.stdout[-300:], "why": desc[:2]}
            if r.returncode != 0 and line:
                rp = line[-1].split("replay=")[1].split(" ")[0]
                if os.path.exists(rp):
                    shutil.copy(rp, f"{d}/replay_{p}.json")
    finally:
        sh("git checkout -q -- .", "/repo")
    assert sh("git status --porcelain", "/repo").stdout.strip() == ""
    for f in os.listdir(d):
        if f.startswith("replay_") and res.get(f[7:10], {}).get("exit") == 0:
            os.remove(f"{d}/{f}")
    meta["checks"] = res
    meta["caught_by"] = sorted(p for p, v in res.items() if v["exit"] != 0)
    json.dump(meta, open(f"{d}/meta.json", "w"), indent=1)
    print(ID, "caught by:", meta["caught_by"], flush=True)
# leave the evidence of the unchanged tree behind
