#!/bin/sh
# Build the framework from files on disk only (offline): Lean model, proofs and driver; Rust harness.
set -e
cd "$(dirname "$0")"
( cd lean && lake build atsdrv Ats AtsProofs )
cp -f /repo/Cargo.lock harness/Cargo.lock 2>/dev/null || true
( cd harness && CARGO_NET_OFFLINE=true cargo build --release --offline )
