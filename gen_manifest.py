#!/usr/bin/env python3
"""writes MANIFEST.json from lean/obligations.json (claimed = has registered theorems)"""
import json, os
ROOT = os.path.dirname(os.path.abspath(__file__))
ob = json.load(open(os.path.join(ROOT, "lean", "obligations.json")))
titles = {}
for l in open(os.path.join(ROOT, "properties.jsonl")):
    p = json.loads(l); titles[p["id"]] = p["title"]
notes = json.load(open(os.path.join(ROOT, "lean", "levels.json")))
checks, na = [], []
for pid in sorted(titles):
    if pid in ob and ob[pid]["theorems"]:
        n = notes.get(pid, {})
        checks.append({
            "property_id": pid,
            "quick_cmd": f"./check {pid} --tier quick",
            "thorough_cmd": f"./check {pid} --tier thorough",
            "evidence_file": f"/verif/evidence/{pid}.json",
            "replay_cmd_template": f"./check {pid} --replay {{path}}",
            "engine": "lean-model+correspondence",
            "level_claimed": {
                "category": "proof",
                "text": n.get("text", "Kernel-checked theorems about the Lean model of the contract; the model is tied to /repo on every run by differential execution of the real entry points, and the theorems' conclusions are evaluated as oracles on the implementation's traces."),
                "design_ref": n.get("design_ref", "DESIGN.md §7 " + pid),
            },
            "level_note": n.get("note", "Trusted: Lean kernel (axioms propext, Classical.choice, Quot.sound only); that Spec predicates state the property; model–code correspondence is tested (generated histories, unit streams), not proved; glue listed in DESIGN.md §3.5/§9."),
            "technique": n.get("technique", "Lean 4 proof over hand-written model + differential correspondence"),
        })
    else:
        na.append({"property_id": pid, "reason": notes.get(pid, {}).get("na", "theorems for this property are not yet registered (work in progress); the correspondence harness already covers it but no proof-level claim is made")})
m = {
    "version": 1,
    "setup_cmd": "./setup.sh",
    "hooks": {"guard": "none (no hooks needed: every entry point, storage map and type used by the harness is pub)",
              "enable": "n/a – the harness depends on /repo by path and rebuilds it on every run",
              "baseline_off_cmd": "cd /repo && cargo test --workspace --no-fail-fast --offline",
              "source_commits": [], "add_only": True},
    "engines": [{"name": "lean-model+correspondence", "path": "/verif/check",
                 "serves_properties": [c["property_id"] for c in checks],
                 "kind_free_text": "Lean 4 theorems (lean/AtsProofs) about a hand-written model (lean/Ats) + Rust harness (harness/) running the real contract in-process and a compiled Lean driver judging the trace"}],
    "checks": checks,
    "not_applicable": na,
    "notes": "See DESIGN.md. fix: commits in /repo repair defects D1–D6; findings/known-findings.txt lists them and the two recorded findings F6/F7.",
}
json.dump(m, open(os.path.join(ROOT, "MANIFEST.json"), "w"), indent=1)
print("claimed", [c["property_id"] for c in checks])
