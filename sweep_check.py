#!/usr/bin/env python3
"""sweep_check.py [--verif DIR] [--count N]

All properties in one pass (used by the mutation sweep mut_sweep.py, never by a registered
command): rebuild the harness in DIR/harness against whatever its Cargo.toml points at, run the
corpus, the unit streams and generated histories under several property emphases, drive the
model beside them and print the set of properties that raise an alarm (a failed predicate that
is not a listed known finding, a difference in the property's observation, a unit-stream
disagreement), one line:   ALARMS C01:C01_denomOK C04:DIFF:msgs ...   or   SILENT
"""
import os, re, subprocess, sys, shutil, json

args = sys.argv[1:]
VERIF = "/verif"
COUNT = 2500
i = 0
while i < len(args):
    if args[i] == "--verif":
        VERIF = args[i + 1]; i += 2
    elif args[i] == "--count":
        COUNT = int(args[i + 1]); i += 2
    else:
        i += 1
HARNESS = os.path.join(VERIF, "harness")
HBIN = os.path.join(HARNESS, "target", "release", "atsharness")
DRV = os.path.join("/verif", "lean", ".lake", "build", "bin", "atsdrv")   # the driver does not depend on /repo
UNIT_PROPS = {"UDP": "C07", "UDM": "C02", "UFF": "C09", "UFM": "C09", "URF": "C09", "UBP": "C07", "UUI": "C07", "USV": "C14"}
env = dict(os.environ, CARGO_NET_OFFLINE="true")
r = subprocess.run(["cargo", "build", "--release", "--offline"], cwd=HARNESS, env=env, stdout=subprocess.PIPE, stderr=subprocess.STDOUT, text=True)
if r.returncode != 0:
    print("ALARMS ALL:harness-build")
    sys.exit(1)
known = set()
for ln in open(os.path.join("/verif", "findings", "known-findings.txt")):
    m = re.match(r"known:\s+property=(\S+)\s+signature=(\S+)", ln.strip())
    if m:
        known.add(m.group(2))
work = os.path.join(VERIF, ".work", "sweep")
shutil.rmtree(work, ignore_errors=True)
os.makedirs(work)
traces = []
t = os.path.join(work, "corpus.trace")
subprocess.run([HBIN, "replay", os.path.join("/verif", "corpus"), "--out", t], stdout=subprocess.DEVNULL, stderr=subprocess.DEVNULL)
traces.append(t)
t = os.path.join(work, "unit.trace")
subprocess.run([HBIN, "unit", "--seed", "7", "--count", "40000", "--out", t], stdout=subprocess.DEVNULL, stderr=subprocess.DEVNULL)
traces.append(t)
alarms = set()
for prop in ["C01", "C02", "C04", "C06", "C07", "C12", "C13", "C14", "C16"]:
    d = os.path.join(work, prop)
    os.makedirs(d)
    g = subprocess.run([HBIN, "gen", "--seed", "424242", "--prop", prop, "--count", str(COUNT), "--len", "25", "--threads", "4", "--out", d],
                       stdout=subprocess.PIPE, stderr=subprocess.STDOUT, text=True)
    if g.returncode != 0:
        alarms.add("ALL:harness-crash")
    for k in range(4):
        p = os.path.join(d, f"trace_{k}.txt")
        if os.path.exists(p):
            traces.append(p)
    sp = os.path.join(d, "stats.json")
    if os.path.exists(sp):
        st = json.load(open(sp))
        if any(k.startswith("HARNESS-PANIC") for k in st.get("calls", {})):
            alarms.add("ALL:harness-panic")
subprocess.run([HBIN, "miggrid", "--out", work], stdout=subprocess.DEVNULL, stderr=subprocess.DEVNULL)
if os.path.exists(os.path.join(work, "trace_mig.txt")):
    traces.append(os.path.join(work, "trace_mig.txt"))
else:
    alarms.add("ALL:harness-crash-miggrid")
g = subprocess.run([HBIN, "bfs", "--scope", "all", "--max-states", "600", "--walks", "40", "--walk-depth", "10", "--seed", "7", "--threads", "4", "--out", work],
                   stdout=subprocess.PIPE, stderr=subprocess.STDOUT, text=True)
if g.returncode != 0:
    alarms.add("ALL:harness-crash-bfs")
for f in sorted(os.listdir(work)):
    if f.startswith("trace_bfs"):
        traces.append(os.path.join(work, f))
procs = []
for tp in traces:
    vp = tp + ".verdict"
    procs.append((subprocess.Popen([DRV], stdin=open(tp, "rb"), stdout=open(vp, "wb"), stderr=subprocess.STDOUT), vp))
for p, _ in procs:
    p.wait()
for _, vp in procs:
    done = False
    for ln in open(vp, errors="replace"):
        ln = ln.rstrip("\n")
        if ln.startswith("FAIL "):
            m = re.search(r"prop=(\S+)", ln); w = re.search(r"what=(\S+)", ln)
            sig = w.group(1).split(":")[0] if w else "?"
            if sig not in known:
                alarms.add(f"{m.group(1)}:{sig}")
        elif ln.startswith("DIFF "):
            m = re.search(r"props=(\S+)", ln); w = re.search(r"what=(\S+)", ln)
            what = (w.group(1) if w else "?").split(":")[0]
            for pp in (m.group(1).split(",") if m else []):
                if pp:
                    alarms.add(f"{pp}:DIFF-{what}")
        elif ln.startswith("UFAIL "):
            tag = ln.split(" ")[1]
            alarms.add(f"{UNIT_PROPS.get(tag, 'C09')}:UFAIL-{tag}")
        elif ln.startswith("PARSEERROR"):
            alarms.add("ALL:driver-parse")
        elif ln.startswith("SUMMARY"):
            done = True
    if not done:
        alarms.add("ALL:driver-unfinished")
shutil.rmtree(work, ignore_errors=True)
print("ALARMS " + " ".join(sorted(alarms)) if alarms else "SILENT")
