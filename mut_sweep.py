#!/usr/bin/env python3
"""mut_sweep.py [--workers N] [--limit M] [--files f1,f2]

Systematic syntactic mutation sweep (a measurement of the checks' detection power; not a
registered command).  For every single-token change from a fixed operator table applied to the
non-test source of /repo (in scratch copies under /tmp/sweep, never in /repo itself):

  1. the change must compile and pass the repository's own suite unchanged (178 + doctests);
  2. the surviving change is given to sweep_check.py (all properties, one pass);
  3. result: KILLED-BY-SUITE | CAUGHT <properties> | SILENT  ->  sweep/results.jsonl

SILENT changes are then triaged by hand: equivalent (no property can tell), outside every
property, or a gap of the checks.
"""
import json, os, re, shutil, subprocess, sys, threading, queue, hashlib

args = sys.argv[1:]
WORKERS, LIMIT = 4, 0
FILES = ["src/contract.rs", "src/bid_order.rs", "src/contract_info.rs", "src/util.rs", "src/msg.rs",
         "src/version_info.rs", "src/execute/modify_contract.rs", "src/ask_order.rs", "src/common.rs"]
i = 0
while i < len(args):
    if args[i] == "--workers":
        WORKERS = int(args[i + 1]); i += 2
    elif args[i] == "--limit":
        LIMIT = int(args[i + 1]); i += 2
    elif args[i] == "--files":
        FILES = args[i + 1].split(","); i += 2
    else:
        i += 1
ROOT = "/tmp/sweep"
OUT = "/verif/sweep"
os.makedirs(OUT, exist_ok=True)

OPS = [
    (r"\.lt\(", ".le("), (r"\.le\(", ".lt("), (r"\.gt\(", ".ge("), (r"\.ge\(", ".gt("),
    (r"\.eq\(", ".ne("), (r"\.ne\(", ".eq("),
    (r" == ", " != "), (r" != ", " == "), (r" < ", " <= "), (r" <= ", " < "), (r" > ", " >= "), (r" >= ", " > "),
    (r" && ", " || "), (r" \|\| ", " && "),
    (r"if !", "if "), (r"\(!", "("),
    (r"\.is_some\(\)", ".is_none()"), (r"\.is_none\(\)", ".is_some()"),
    (r"\.is_ok\(\)", ".is_err()"), (r"\.is_err\(\)", ".is_ok()"),
    (r"\.is_empty\(\)", ".is_empty().eq(&false)"),
    (r"\.is_zero\(\)", ".is_zero().eq(&false)"),
    (r" \+ ", " - "), (r" - ", " + "), (r" \+= ", " -= "), (r" -= ", " += "),
    (r"checked_add", "checked_sub"), (r"checked_sub", "checked_add"),
    (r"Uint128::zero\(\)", "Uint128::new(1)"), (r"Uint128::new\(1\)", "Uint128::new(2)"),
    (r"\btrue\b", "false"), (r"\bfalse\b", "true"),
    (r"return Err\(", "let _: Result<(), ContractError> = Err("),
    (r"MidpointAwayFromZero", "MidpointNearestEven"),
    (r"\.min\(", ".max("), (r"\.max\(", ".min("),
    (r"Some\(size\)", "None"),
    (r"\bask_order\.size\b", "ask_order.size.checked_add(Uint128::new(1)).unwrap()"),
    # "wrong variable" slips
    (r"\bbid_order\.owner\b", "ask_order.owner"), (r"\bask_order\.owner\b", "bid_order.owner"),
    (r"\.quote\.denom\b", ".base.denom"), (r"\.base\.denom\b", ".quote.denom"),
    (r"\bask_order\.base\b", "ask_order.quote"), (r"\bask_order\.quote\b", "ask_order.base"),
    (r"ask_fee_info", "bid_fee_info"), (r"bid_fee_info", "ask_fee_info"),
    (r"ask_fee_rate", "bid_fee_rate"), (r"bid_fee_rate", "ask_fee_rate"),
    (r"ask_fee_account", "bid_fee_account"), (r"bid_fee_account", "ask_fee_account"),
    (r"ask_required_attributes", "bid_required_attributes"), (r"bid_required_attributes", "ask_required_attributes"),
    (r"\.approvers\b", ".executors"), (r"\.executors\b", ".approvers"),
    (r"get_remaining_base\(\)", "base.amount"), (r"get_remaining_quote\(\)", "quote.amount"),
    (r"\bexecute_price\b", "bid_price"), (r"\bbid_price\b", "ask_price"), (r"\bask_price\b", "bid_price"),
    (r"\beffective_cancel_size\b", "ask_order.size"),
    (r"\bactual_gross_proceeds\b", "original_gross_proceeds"), (r"\boriginal_gross_proceeds\b", "actual_gross_proceeds"),
    (r"accumulated_base", "accumulated_quote"), (r"accumulated_fee", "accumulated_quote"),
    (r"BIDS_V3", "BIDS_V2"), (r"is_base_restricted_marker", "is_quote_restricted_marker"),
    (r"is_quote_restricted_marker", "is_base_restricted_marker"),
    # second table (after rounds 6-8 of the sub-agent changes): the slips those rounds were made of
    (r"\.filter_map\(", ".map_while("),
    (r'">=0', '">0'), (r'<0\.', '<=0.'), (r'">=', '">'),
    (r" as u32", " as u8"), (r"\.u128\(\)", ".u128() as u64 as u128"),
    (r"\bask_order\.base\.clone\(\)", "contract_info.base_denom.clone()"),
    (r"\bask_order\.base\.to_owned\(\)", "contract_info.base_denom.to_owned()"),
    (r"\bbid_fee\.amount\b", "bid_order.get_remaining_fee()"),
    (r"get_remaining_fee\(\)", "fee.as_ref().map(|f| f.amount).unwrap_or_default()"),
    (r"\bid\.as_bytes\(\)", "id.to_lowercase().as_bytes()"),
    (r"Ordering::Less", "Ordering::Greater"), (r"Ordering::Greater", "Ordering::Less"),
    (r"NAMESPACE_ORDER_ASK", "NAMESPACE_ORDER_BID"), (r"NAMESPACE_ORDER_BID", "NAMESPACE_ORDER_ASK"),
    (r"Uint128::new\(18\)", "Uint128::new(19)"), (r"Uint128::new\(18\)", "Uint128::new(17)"),
    (r"env\.contract\.address", "info.sender"), (r"\binfo\.sender\b", "env.contract.address"),
    (r"\.first\(\)", ".last()"),
    (r"\bconverted_base\.denom\b", "base"), (r"\bconverted_base\.amount\b", "size"),
    (r"\bnet_proceeds\b", "actual_gross_proceeds"),
    (r"Action::Reject", "Action::Refund"), (r"Action::Refund", "Action::Reject"),
    (r"\.fract\(\)", ".trunc()"),
    (r"round_dp_with_strategy\(0,", "round_dp_with_strategy(1,"),
    (r"\.to_lowercase\(\)", ".to_uppercase()"),
    (r"\.sender\.to_owned\(\)", ".sender.to_owned().to_lowercase()"),
]


def candidates():
    out = []
    for f in FILES:
        p = os.path.join("/repo", f)
        if not os.path.exists(p):
            continue
        lines = open(p).read().split("\n")
        in_test = False
        for n, ln in enumerate(lines):
            s = ln.strip()
            if s.startswith("#[cfg(test)]"):
                in_test = True
            if in_test or s.startswith("//") or s.startswith("#[") or s.startswith("use ") or not s:
                continue
            code = ln.split("//")[0]
            for oi, (pat, rep) in enumerate(OPS):
                for k, m in enumerate(re.finditer(pat, code)):
                    new = code[:m.start()] + rep + code[m.end():] + ln[len(code):]
                    out.append({"file": f, "line": n + 1, "op": oi, "occ": k, "old": ln.strip()[:160], "new": new.strip()[:200], "_new": new})
    return out


def sh(cmd, cwd, timeout=1800):
    e = dict(os.environ, CARGO_NET_OFFLINE="true")
    try:
        return subprocess.run(cmd, shell=True, cwd=cwd, env=e, stdout=subprocess.PIPE, stderr=subprocess.STDOUT, text=True, timeout=timeout)
    except subprocess.TimeoutExpired:
        class R: returncode = 124; stdout = "TIMEOUT"
        return R()


def setup_worker(k):
    w = os.path.join(ROOT, f"w{k}")
    if not os.path.exists(os.path.join(w, "repo", "src")):
        os.makedirs(w, exist_ok=True)
        sh(f"git -C /repo worktree add -q --detach {w}/repo HEAD", "/")
    else:
        sh("git checkout -q -- . ", os.path.join(w, "repo"))
    v = os.path.join(w, "verif")
    os.makedirs(v, exist_ok=True)
    sh(f"rsync -a --delete --exclude target /verif/harness/ {v}/harness/", "/")
    ct = os.path.join(v, "harness", "Cargo.toml")
    t = open(ct).read().replace('path = "/repo"', f'path = "{w}/repo"')
    open(ct, "w").write(t)
    shutil.copy("/verif/sweep_check.py", os.path.join(v, "sweep_check.py"))
    # warm builds
    sh("cargo test --offline --no-run", os.path.join(w, "repo"))
    return w


def key(c):
    return hashlib.sha1(f"{c['file']}:{c['line']}:{c['op']}:{c['occ']}:{c['old']}".encode()).hexdigest()[:12]


def main():
    cands = candidates()
    done = set()
    rp = os.path.join(OUT, "results.jsonl")
    if os.path.exists(rp):
        for ln in open(rp):
            try:
                done.add(json.loads(ln)["key"])
            except Exception:
                pass
    todo = [c for c in cands if key(c) not in done]
    if LIMIT:
        # spread over the files
        step = max(1, len(todo) // LIMIT)
        todo = todo[::step][:LIMIT]
    print(f"{len(cands)} candidates, {len(done)} done, {len(todo)} to run on {WORKERS} workers", flush=True)
    q = queue.Queue()
    for c in todo:
        q.put(c)
    lock = threading.Lock()

    def work(k):
        w = setup_worker(k)
        repo = os.path.join(w, "repo")
        while True:
            try:
                c = q.get_nowait()
            except queue.Empty:
                return
            p = os.path.join(repo, c["file"])
            orig = open(p).read()
            lines = orig.split("\n")
            lines[c["line"] - 1] = c["_new"]
            open(p, "w").write("\n".join(lines))
            res = {"key": key(c), **{k2: v for k2, v in c.items() if not k2.startswith("_")}}
            r = sh("cargo test --offline 2>&1 | grep -E '^test result|^error|panicked' | head -6", repo)
            txt = r.stdout
            passed = sum(int(x) for x in re.findall(r"(\d+) passed", txt))
            failed = sum(int(x) for x in re.findall(r"(\d+) failed", txt))
            if "error" in txt and passed == 0:
                res["result"] = "NO-COMPILE"
            elif failed > 0 or passed < 182:
                res["result"] = "KILLED-BY-SUITE"
            else:
                r2 = sh(f"python3 {w}/verif/sweep_check.py --verif {w}/verif", w)
                last = [l for l in r2.stdout.splitlines() if l.startswith("ALARMS") or l.startswith("SILENT")]
                res["result"] = "CAUGHT" if last and last[-1].startswith("ALARMS") else ("SILENT" if last else "CHECK-ERROR")
                res["alarms"] = last[-1][7:].split(" ") if last and last[-1].startswith("ALARMS") else []
                if not last:
                    res["detail"] = r2.stdout[-400:]
            open(p, "w").write(orig)
            with lock:
                with open(rp, "a") as fh:
                    fh.write(json.dumps(res) + "\n")
                print(res["result"], c["file"], c["line"], c["new"][:90], res.get("alarms", "")[:6], flush=True)

    ths = [threading.Thread(target=work, args=(k,)) for k in range(WORKERS)]
    for t in ths:
        t.start()
    for t in ths:
        t.join()


if __name__ == "__main__":
    main()
