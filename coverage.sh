#!/bin/sh
# coverage.sh — which lines of /repo's contract the correspondence harness executes.
# A measurement of the generators (not a registered check): builds the harness with
# -C instrument-coverage in a scratch target directory, runs the generated histories, the
# exhaustive small-scope exploration, the corpus and the unit streams, and prints llvm-cov's
# per-file summary plus the source lines never executed.  Needs the llvm tools of the nightly
# toolchain (llvm-profdata / llvm-cov); everything else is the stable toolchain.  Offline.
set -e
cd "$(dirname "$0")"
T=$(ls -d /root/.rustup/toolchains/nightly-x86_64-unknown-linux-gnu/lib/rustlib/*/bin 2>/dev/null | head -1)
[ -x "$T/llvm-cov" ] || { echo "llvm-cov not found"; exit 2; }
W=${TMPDIR:-/tmp}/ats-cov.$$
mkdir -p "$W/out" "$W/prof"
( cd harness && CARGO_NET_OFFLINE=true CARGO_TARGET_DIR="$W/target" RUSTFLAGS="-C instrument-coverage" \
    cargo build --release --offline >/dev/null 2>&1 )
B="$W/target/release/atsharness"
export LLVM_PROFILE_FILE="$W/prof/p-%p-%m.profraw"
for p in C01 C04 C06 C07 C12 C13 C14 C16; do
  "$B" gen --seed 20260929 --prop $p --count 3000 --len 25 --threads 16 --out "$W/out" >/dev/null 2>&1
done
"$B" bfs --scope all --max-states 1200 --threads 16 --out "$W/out" >/dev/null 2>&1
"$B" replay corpus --out "$W/out/corpus.trace" >/dev/null 2>&1
"$B" unit --seed 1 --count 50000 --out "$W/out/unit.trace" >/dev/null 2>&1
"$T/llvm-profdata" merge -sparse "$W"/prof/*.profraw -o "$W/cov.profdata"
"$T/llvm-cov" report "$B" -instr-profile="$W/cov.profdata" --ignore-filename-regex='registry|rustc|harness|/tests/' 2>/dev/null
echo "---- lines of the contract never executed by the harness ----"
"$T/llvm-cov" show "$B" -instr-profile="$W/cov.profdata" --ignore-filename-regex='registry|rustc|harness|/tests/' \
   --show-line-counts-or-regions 2>/dev/null | awk '/^\/.*:$/{f=$0} /^ +[0-9]+\| +0\|/{print f" "$0}' | cut -c1-160
rm -rf "$W"
