/- root of all proof modules (what `setup.sh` builds; each check builds only its own closure) -/
import AtsProofs.C01b
import AtsProofs.C03
import AtsProofs.C05
import AtsProofs.C09b
import AtsProofs.C11b
import AtsProofs.C12b
import AtsProofs.C13
import AtsProofs.C14
import AtsProofs.C16b
import AtsProofs.Claims.C08
import AtsProofs.Witness
import AtsProofs.Migrate
