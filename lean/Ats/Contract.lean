/-
  Ats.Contract — the four entry points of `src/contract.rs`, guard by guard in the order of
  the Rust, as total functions  State → … → Res (State × Response).
  A refusal (`Res.err`, including `.panic`) means "state unchanged": callers keep the old state.
-/
import Ats.Types
namespace Ats

/-! ### helpers mirroring `src/util.rs` -/

/-- `transfer_marker_coins` -/
def transferMsg (amount : Nat) (denom to frm admin : String) : Res Msg :=
  if amount = 0 then .err .std else .ok (.transfer ⟨denom, amount⟩ to frm admin)

/-- `add_transfer`: marker transfer from the contract when restricted (the `unwrap` panics on
    a zero amount), bank send otherwise -/
def addTransfer (restricted : Bool) (amount : Nat) (denom to contract : String) : Res Msg :=
  if restricted then
    (if amount = 0 then .err .panic else .ok (.transfer ⟨denom, amount⟩ to contract contract))
  else .ok (.bank to ⟨denom, amount⟩)

/-- the pull-in of an escrowing request: one marker transfer from the sender when the
    denomination is restricted (the attached funds otherwise) -/
def pullR (env : Env) (d : String) (n : Nat) (sender : String) : Res (List Msg) :=
  if env.restricted d then
    (match transferMsg n d env.contract sender env.contract with
     | .ok m => .ok [m]
     | .err e => .err e)
  else .ok []

/-- funds rule shared by the three escrowing requests -/
def fundsOk (restricted : Bool) (funds : List Coin) (c : Coin) : Bool :=
  if restricted then funds.isEmpty else decide (funds = [c])

/-- required account attributes -/
def checkAttrs (env : Env) (sender : String) (required : List String) : Res Unit :=
  if required.isEmpty then .ok ()
  else
    match env.attrs sender with
    | none => .err .std
    | some names => guardR (required.all (fun r => memS r names)) .unauthorized

/-- checked subtraction with the refusal to use on underflow -/
def subR (a b : Nat) (e : Err) : Res Nat := if b ≤ a then .ok (a - b) else .err e

def jsonCoin (c : Coin) : String :=
  "{\"denom\":\"" ++ c.denom ++ "\",\"amount\":\"" ++ toString c.amount ++ "\"}"

/-- `serde_json::to_string(&class)` -/
def classJson : AskClass → String
  | .basic => "\"Basic\""
  | .pending => "{\"Convertible\":{\"status\":\"PendingIssuerApproval\"}}"
  | .ready ap c =>
    "{\"Convertible\":{\"status\":{\"Ready\":{\"approver\":\"" ++ ap ++
      "\",\"converted_base\":" ++ jsonCoin c ++ "}}}}"

/-! ### message validation (`src/msg.rs`) -/

def pairOk (a b : Option String) : Bool := a.isSome == b.isSome

def ExecMsg.valid : ExecMsg → Bool
  | .approveAsk id base size => isCanonicalUuid id && base != "" && decide (size ≥ 1)
  | .createAsk id base quote price size =>
      isCanonicalUuid id && base != "" && quote != "" && price != "" && decide (size ≥ 1)
  | .createBid id base _ price quote quoteSize size =>
      isCanonicalUuid id && base != "" && price != "" && quote != "" &&
      decide (quoteSize ≥ 1) && decide (size ≥ 1)
  | .cancelAsk id => isUuidAnyForm id
  | .cancelBid id => isUuidAnyForm id
  | .executeMatch askId bidId price size =>
      isCanonicalUuid askId && isCanonicalUuid bidId && price != "" && decide (size ≥ 1)
  | .expireAsk id => isUuidAnyForm id
  | .expireBid id => isUuidAnyForm id
  | .rejectAsk id size => isUuidAnyForm id && (match size with | some n => decide (n ≥ 1) | none => true)
  | .rejectBid id size => isUuidAnyForm id && (match size with | some n => decide (n ≥ 1) | none => true)
  | .modify approvers executors askRate askAcct bidRate bidAcct _ _ =>
      (match approvers with | some l => !l.isEmpty | none => true) &&
      (match executors with | some l => !l.isEmpty | none => true) &&
      pairOk askRate askAcct && pairOk bidRate bidAcct

def InstMsg.valid (m : InstMsg) : Bool :=
  m.name != "" && m.baseDenom != "" && !m.quotes.isEmpty && !m.executors.isEmpty &&
  pairOk m.askRate m.askAcct && pairOk m.bidRate m.bidAcct &&
  decide (m.precision ≤ 18) && decide (m.increment ≥ 1)

def MigMsg.valid (m : MigMsg) : Bool := pairOk m.askRate m.askAcct && pairOk m.bidRate m.bidAcct

def QueryMsg.valid : QueryMsg → Bool
  | .getAsk id => isUuidAnyForm id
  | .getBid id => isUuidAnyForm id
  | _ => true

/-! ### fee pair handling shared by instantiate / modify / migrate -/

/-- every address of the list validates (first failure is a `Std` error) -/
def validAddrs (env : Env) (l : List String) : Res Unit :=
  guardR (l.all env.validAddr) .std

/-- the `(Some(account), Some(rate))` arm: `("","")` clears, otherwise rate must parse and
    the account must validate.  `none` result = "leave as is" (pair not fully supplied). -/
def feePair (env : Env) (acct rate : Option String) : Res (Option (Option FeeInfo)) :=
  match acct, rate with
  | some a, some r =>
    if a = "" ∧ r = "" then .ok (some none)
    else do
      guardR (Dec.parse r).isSome .invalidFields
      guardR (env.validAddr a) .std
      pure (some (some ⟨a, r⟩))
  | _, _ => .ok none

/-! ### instantiate -/

def instantiate (env : Env) (m : InstMsg) : Res (State × Response) := do
  guardR m.valid .invalidFields
  validAddrs env m.approvers
  validAddrs env m.executors
  let askFee ← feePair env m.askAcct m.askRate
  let bidFee ← feePair env m.bidAcct m.bidRate
  guardR (m.increment % 10 ^ m.precision == 0) .invalidPair
  let info : Info :=
    { name := m.name, bindName := "", baseDenom := m.baseDenom, convertible := m.convertible,
      quotes := m.quotes, approvers := m.approvers, executors := m.executors,
      askFee := askFee.getD none, bidFee := bidFee.getD none,
      askAttrs := m.askAttrs, bidAttrs := m.bidAttrs,
      precision := m.precision, increment := m.increment }
  pure ({ info := info, version := ⟨env.crateName, env.pkgVersion⟩, asks := [], bids := [] },
        { msgs := [], attrs := [("action", "init")] })

/-! ### execute -/

/-- the `V3` bid under a key (`BIDS_V3.load`: an old-format entry fails to deserialize) -/
def loadBid (s : State) (id : String) : Option Bid :=
  match s.bids.get? id with
  | some (.v3 b) => some b
  | _ => none

/-- price checks shared by create_ask / create_bid -/
def checkPrice (info : Info) (price : String) : Res Dec := do
  let p ← orErr (Dec.parse price) .invalidFields
  guardR (!(p.isZero || p.isNeg)) .invalidFields
  let bad ← orErr (Dec.badPrecision p info.precision) .panic
  guardR (!bad) .invalidFields
  pure p

def createAsk (env : Env) (s : State) (sender : String) (funds : List Coin)
    (id base quote price : String) (size : Nat) : Res (State × Response) := do
  let info := s.info
  guardR (base == info.baseDenom || memS base info.convertible) .inconvertibleBase
  let restricted := env.restricted base
  guardR (fundsOk restricted funds ⟨base, size⟩) .sentFundsMismatch
  guardR (memS quote info.quotes) .unsupportedQuote
  guardR (info.increment != 0) .panic
  guardR (size % info.increment == 0) .invalidFields
  let _ ← checkPrice info price
  checkAttrs env sender info.askAttrs
  let cls : AskClass := if base != info.baseDenom then .pending else .basic
  guardR (s.asks.get? id).isNone .invalidFields
  let ask : Ask := { id := id, owner := sender, cls := cls, base := base, quote := quote,
                     price := price, size := size }
  let attrs := [("action", "create_ask"), ("id", id), ("class", classJson cls),
                ("target_base", info.baseDenom), ("base", base), ("quote", quote),
                ("price", price), ("size", toString size)]
  let msgs ← pullR env base size sender
  pure ({ s with asks := s.asks.set id ask }, { msgs := msgs, attrs := attrs })

/-- the configured bid fee rate (0 when no fee is configured) -/
def bidRateR (info : Info) : Res Dec :=
  match info.bidFee with
  | some fi => orErr (Dec.parse fi.rate) .invalidFields
  | none => .ok (Dec.ofNat 0)

/-- the fee sent with a bid must be the calculated one, in the quote denomination -/
def checkFee (fee : Option Coin) (feeSize : Nat) (quote : String) : Res Unit :=
  match fee with
  | some f =>
    if f.amount == feeSize then guardR (f.denom == quote) .sentFundsMismatch
    else .err .invalidFeeSize
  | none => guardR (feeSize == 0) .invalidFeeSize

def feeAmt (fee : Option Coin) : Nat := match fee with | some f => f.amount | none => 0

def createBid (env : Env) (s : State) (sender : String) (funds : List Coin)
    (id base : String) (fee : Option Coin) (price quote : String) (quoteSize size : Nat) :
    Res (State × Response) := do
  let info := s.info
  let p ← checkPrice info price
  guardR (info.increment != 0) .panic
  guardR (size % info.increment == 0) .invalidFields
  let total ← Dec.total p size
  guardR (!total.hasFract) .nonIntegerTotal
  let q ← Dec.fromU128 quoteSize
  guardR (Dec.eqv total q) .sentFundsMismatch
  let rate ← bidRateR info
  let feeSize ← Dec.rateFee rate total
  checkFee fee feeSize quote
  guardR (memS quote info.quotes) .unsupportedQuote
  guardR (base == info.baseDenom) .inconvertibleBase
  checkAttrs env sender info.bidAttrs
  let restricted := env.restricted quote
  let due := total.trunc + feeAmt fee
  guardR (fundsOk restricted funds ⟨quote, due⟩) .sentFundsMismatch
  guardR (s.bids.get? id).isNone .invalidFields
  let bid : Bid := { base := ⟨base, size⟩, accBase := 0, accQuote := 0, accFee := 0, fee := fee,
                     id := id, owner := sender, price := price, quote := ⟨quote, quoteSize⟩ }
  let attrs := [("action", "create_bid"), ("base", base), ("id", id), ("price", price),
                ("quote", quote), ("quote_size", toString quoteSize), ("size", toString size)]
  let msgs ← pullR env quote (quoteSize + feeAmt fee) sender
  pure ({ s with bids := s.bids.set id (.v3 bid) }, { msgs := msgs, attrs := attrs })

/-- only an ask that is still pending can be approved -/
def checkPending : AskClass → Res Unit
  | .ready _ _ => .err .askReady
  | .basic => .err .inconvertibleBase
  | .pending => .ok ()

def approveAsk (env : Env) (s : State) (sender : String) (funds : List Coin)
    (id base : String) (size : Nat) : Res (State × Response) := do
  let info := s.info
  guardR (memS sender info.approvers) .unauthorized
  let restricted := env.restricted base
  guardR (fundsOk restricted funds ⟨base, size⟩) .sentFundsMismatch
  let ask ← orErr (s.asks.get? id) .invalidFields
  checkPending ask.cls
  guardR (size == ask.size && base == info.baseDenom) .sentFundsMismatch
  let cls : AskClass := .ready sender ⟨base, size⟩
  let ask' : Ask := { ask with cls := cls }
  let attrs := [("action", "approve_ask"), ("id", ask'.id), ("class", classJson cls),
                ("quote", ask'.quote), ("price", ask'.price), ("size", toString ask'.size)]
  let msgs ← pullR env base size sender
  pure ({ s with asks := s.asks.set id ask' }, { msgs := msgs, attrs := attrs })

/-- second leg of an ask reversal: the approver of an approved convertible ask gets
    `amountOf conv` of the approver-supplied denomination back -/
def approverLeg (env : Env) (cls : AskClass) (amountOf : Coin → Nat) : Res (List Msg) :=
  match cls with
  | .ready ap c =>
    (match addTransfer (env.restricted c.denom) (amountOf c) c.denom ap env.contract with
     | .ok m => .ok [m]
     | .err e => .err e)
  | _ => .ok []

def cancelAsk (env : Env) (s : State) (sender : String) (funds : List Coin) (id : String) :
    Res (State × Response) := do
  guardR funds.isEmpty .cancelWithFunds
  let ask ← orErr (s.asks.get? id) .loadFailed
  guardR (sender == ask.owner) .unauthorized
  let m1 ← addTransfer (env.restricted ask.base) ask.size ask.base ask.owner env.contract
  let m2 ← approverLeg env ask.cls (fun c => c.amount)
  pure ({ s with asks := s.asks.del ask.id },
        { msgs := m1 :: m2, attrs := [("action", "cancel_ask"), ("id", ask.id)] })

/-- the ask after `eff` units were reversed or filled: the approver-supplied amount follows
    the size -/
def Ask.reduce (a : Ask) (eff : Nat) : Ask :=
  { a with size := a.size - eff,
           cls := match a.cls with
             | .ready ap c => .ready ap ⟨c.denom, a.size - eff⟩
             | c => c }

/-- write back a reduced ask: removed when nothing remains -/
def putAsk (asks : Book Ask) (key : String) (a : Ask) : Book Ask :=
  if a.size == 0 then asks.del key else asks.set key a

def openFlag (isOpen : Bool) : String := if isOpen then "true" else "false"

/-- `reverse_ask` (expire: `cancel = none`; reject: requested size) -/
def reverseAsk (env : Env) (s : State) (sender : String) (funds : List Coin) (id : String)
    (action : String) (cancel : Option Nat) : Res (State × Response) := do
  guardR (id != "") .unauthorized
  guardR funds.isEmpty .expireWithFunds
  let info := s.info
  guardR (memS sender info.executors) .unauthorized
  let ask ← orErr (s.asks.get? id) .loadFailed
  let eff := cancel.getD ask.size
  guardR (cancel.isNone || info.increment != 0) .panic
  guardR (cancel.isNone || eff % info.increment == 0) .invalidFields
  guardR (eff ≤ ask.size) .invalidFields
  let ask' := ask.reduce eff
  let m1 ← addTransfer (env.restricted ask.base) eff ask.base ask.owner env.contract
  let m2 ← approverLeg env ask'.cls (fun _ => eff)
  pure ({ s with asks := putAsk s.asks ask'.id ask' },
        { msgs := m1 :: m2,
          attrs := [("action", action), ("id", id), ("reverse_size", toString eff),
                    ("order_open", openFlag (ask'.size != 0))] })

/-- `BidOrderV3::update_remaining_amounts` for all three actions -/
def Bid.accumulate (b : Bid) (base quote fee : Nat) : Bid :=
  { b with accBase := b.accBase + base, accQuote := b.accQuote + quote, accFee := b.accFee + fee }

/-- write back an updated bid: removed when no base remains -/
def putBid (bids : Book BidEntry) (key : String) (b : Bid) : Book BidEntry :=
  if b.base.amount - b.accBase == 0 then bids.del key else bids.set key (.v3 b)

/-- fee needed for `left` unspent quote, with the refusals of the Rust call sites -/
def feeNeed (b : Bid) (f : Coin) (left : Nat) : Res Nat :=
  match Dec.feeFor f.amount b.quote.amount left with
  | .ok n => .ok n
  | .err .totalOverflow => .err .totalOverflow
  | .err _ => .err .panic

/-- fee handed back when `effQuote` of the unspent quote is cancelled (`none`: fee-less bid) -/
def cancelFee (b : Bid) (effQuote : Nat) : Res (Option Nat) :=
  match b.fee with
  | some f => do
      let remQ ← subR b.quote.amount b.accQuote .panic
      let left ← subR remQ effQuote .panic
      let need ← feeNeed b f left
      let remF ← subR f.amount b.accFee .panic
      let back ← subR remF need .invalidFields
      pure (some back)
  | none => .ok none

/-- optional payout: nothing when the amount is zero -/
def payIfPos (restricted : Bool) (amount : Nat) (denom to contract : String) : Res (List Msg) :=
  if amount == 0 then .ok []
  else
    match addTransfer restricted amount denom to contract with
    | .ok m => .ok [m]
    | .err e => .err e

/-- `reverse_bid` (cancel by owner, expire / reject by an executor) -/
def reverseBid (env : Env) (s : State) (sender : String) (funds : List Coin) (id : String)
    (action : String) (cancel : Option Nat) : Res (State × Response) := do
  guardR (id != "") .unauthorized
  guardR funds.isEmpty .expireWithFunds
  let info := s.info
  let bid ← orErr (loadBid s id) .loadFailed
  guardR (if action == "cancel_bid" then sender == bid.owner else memS sender info.executors)
    .unauthorized
  let remBase ← subR bid.base.amount bid.accBase .panic
  let eff := cancel.getD remBase
  guardR (cancel.isNone || info.increment != 0) .panic
  guardR (cancel.isNone || eff % info.increment == 0) .invalidFields
  guardR (eff ≤ remBase) .invalidFields
  let p ← orErr (Dec.parse bid.price) .panic
  let tq ← Dec.total p eff
  guardR (!tq.hasFract) .nonIntegerTotal
  let effQuote ← orErr tq.toU128 .panic
  let effFee ← cancelFee bid effQuote
  let restricted := env.restricted bid.quote.denom
  let bid' := bid.accumulate eff effQuote (effFee.getD 0)
  let m1 ← addTransfer restricted effQuote bid.quote.denom bid.owner env.contract
  let m2 ← payIfPos restricted (effFee.getD 0) bid.quote.denom bid.owner env.contract
  pure ({ s with bids := putBid s.bids bid'.id bid' },
        { msgs := m1 :: m2,
          attrs := [("action", action), ("id", id), ("reverse_size", toString eff),
                    ("order_open", openFlag (bid'.base.amount - bid'.accBase != 0))] })

/-- `BidOrderV3::calculate_fee`: fee due when `gross` more quote is consumed (0 = `None`) -/
def calcFee (b : Bid) (gross : Nat) : Res Nat :=
  match b.fee with
  | none => .ok 0
  | some f => do
    let remQ ← subR b.quote.amount b.accQuote .panic
    let left ← subR remQ gross .panic
    let need ← feeNeed b f left
    let remF ← subR f.amount b.accFee .panic
    subR remF need .bidFeeInsufficient

/-- the execution-price rule -/
def priceRule (askP bidP execP : Dec) : Res Unit :=
  if Dec.lt askP bidP then
    guardR (Dec.eqv execP askP || Dec.eqv execP bidP) .invalidExecutePrice
  else if Dec.eqv askP bidP then
    guardR (Dec.eqv execP askP) .invalidExecutePrice
  else
    .err .askBidPriceMismatch

/-- ask fee of a match: the configured rate times the gross proceeds (0 when no fee) -/
def askFeeAmt (info : Info) (grossD : Dec) : Res Nat :=
  match info.askFee with
  | some fi =>
    (match Dec.parse fi.rate with
     | some r => Dec.rateFee r grossD
     | none => .err .invalidFields)
  | none => .ok 0

def askFeeMsgs (env : Env) (info : Info) (rQ : Bool) (askFee : Nat) (qd : String) : Res (List Msg) :=
  match info.askFee with
  | some fi => payIfPos rQ askFee qd fi.account env.contract
  | none => .ok []

def bidFeeMsgs (env : Env) (info : Info) (bid : Bid) (rQ : Bool) (bidFee : Nat) : Res (List Msg) :=
  if bidFee == 0 then .ok []
  else
    match info.bidFee with
    | none => .err .bidFeeAccountMissing
    | some fi => payIfPos rQ bidFee ((bid.fee.map (·.denom)).getD bid.quote.denom) fi.account env.contract

/-- routing by class: base to the buyer, net proceeds to the selling side -/
def classMsgs (env : Env) (ask' : Ask) (bid : Bid) (rB rQ : Bool) (net size : Nat) : Res (List Msg) :=
  match ask'.cls with
  | .basic => do
      let a ← payIfPos rQ net bid.quote.denom ask'.owner env.contract
      let b ← addTransfer rB size ask'.base bid.owner env.contract
      pure (a ++ [b])
  | .ready ap c => do
      let a ← addTransfer (env.restricted c.denom) size c.denom bid.owner env.contract
      let b ← addTransfer rB size ask'.base ap env.contract
      let d ← payIfPos rQ net bid.quote.denom ap env.contract
      pure ([a, b] ++ d)
  | .pending => .err .askNotReady

/-- refund at an improved price: the unneeded quote and its share of the fee -/
def refundPart (env : Env) (bid : Bid) (improved : Bool) (bidP : Dec) (size gross bidFee : Nat)
    (rQ : Bool) : Res (List Msg × Bid) :=
  if improved then do
    let origD ← Dec.total bidP size
    guardR (!origD.hasFract) .nonIntegerTotal
    let orig ← orErr origD.toU128 .totalOverflow
    let refund ← subR orig gross .nonIntegerTotal
    let origFee ← calcFee bid orig
    let feeRefund ← (if origFee != 0 then subR origFee bidFee .panic else .ok 0)
    let a ← payIfPos rQ refund bid.quote.denom bid.owner env.contract
    let b ← (if refund != 0 then
               payIfPos rQ feeRefund ((bid.fee.map (·.denom)).getD bid.quote.denom) bid.owner env.contract
             else .ok [])
    pure (a ++ b, (bid.accumulate size gross bidFee).accumulate 0 refund feeRefund)
  else .ok ([], bid.accumulate size gross bidFee)

def executeMatch (env : Env) (s : State) (sender : String) (funds : List Coin)
    (askId bidId price : String) (size : Nat) : Res (State × Response) := do
  let info := s.info
  guardR (memS sender info.executors) .unauthorized
  guardR funds.isEmpty .executeWithFunds
  let ask ← orErr (s.asks.get? askId) .loadFailed
  let bid ← orErr (loadBid s bidId) .loadFailed
  guardR (ask.quote == bid.quote.denom) .unsupportedQuote
  let askP ← orErr (Dec.parse ask.price) .invalidFields
  let bidP ← orErr (Dec.parse bid.price) .invalidFields
  let execP ← orErr (Dec.parse price) .invalidFields
  priceRule askP bidP execP
  let remBase ← subR bid.base.amount bid.accBase .panic
  guardR (size ≤ ask.size && size ≤ remBase) .invalidExecuteSize
  let grossD ← Dec.total execP size
  guardR (!grossD.hasFract) .nonIntegerTotal
  let gross ← orErr grossD.toU128 .totalOverflow
  let ask' := ask.reduce size
  let rB := env.restricted ask.base
  let rQ := env.restricted bid.quote.denom
  let askFee ← askFeeAmt info grossD
  let m1 ← askFeeMsgs env info rQ askFee bid.quote.denom
  let net ← subR gross askFee .std
  let bidFee ← calcFee bid gross
  let m2 ← bidFeeMsgs env info bid rQ bidFee
  let m3 ← classMsgs env ask' bid rB rQ net size
  let rp ← refundPart env bid (Dec.lt execP bidP) bidP size gross bidFee rQ
  pure ({ s with asks := putAsk s.asks askId ask', bids := putBid s.bids bidId rp.2 },
        { msgs := m1 ++ m2 ++ m3 ++ rp.1,
          attrs := [("action", "execute"), ("ask_id", askId), ("bid_id", bidId),
                    ("base", bid.base.denom), ("quote", ask.quote), ("price", price),
                    ("size", toString size), ("ask_fee", toString askFee),
                    ("bid_fee", toString bidFee)] })

/-- the supplied rate equals the current one as a number (both `unwrap`s can panic) -/
def ratesEqual (cur : FeeInfo) (r : String) : Res Unit := do
  let a ← orErr (Dec.parse cur.rate) .panic
  let b ← orErr (Dec.parse r) .panic
  guardR (Dec.eqv a b) .invalidFields

/-- `check_fee_rate` -/
def checkFeeRate (contains : Bool) (cur : Option FeeInfo) (newRate _newAcct : Option String) :
    Res Unit :=
  if contains then
    match newRate, cur with
    | some r, some c => ratesEqual c r
    | some _, none => .err .invalidFields
    | none, _ => .ok ()
  else .ok ()

/-- a supplied address list must validate -/
def addrListR (env : Env) (l : Option (List String)) : Res Unit :=
  match l with
  | some l => validAddrs env l
  | none => .ok ()

/-- field-wise update shared by `modify_contract_info` and `migrate_contract_info` -/
def applyOverrides (env : Env) (info : Info) (approvers executors : Option (List String))
    (askRate askAcct bidRate bidAcct : Option String) (askAttrs bidAttrs : Option (List String)) :
    Res Info := do
  addrListR env approvers
  addrListR env executors
  let af ← feePair env askAcct askRate
  let bf ← feePair env bidAcct bidRate
  pure { info with approvers := approvers.getD info.approvers,
                   executors := executors.getD info.executors,
                   askFee := af.getD info.askFee,
                   bidFee := bf.getD info.bidFee,
                   askAttrs := askAttrs.getD info.askAttrs,
                   bidAttrs := bidAttrs.getD info.bidAttrs }

/-- while any order is open the current approvers must all stay -/
def approversKept (info : Info) (anyOpen : Bool) (approvers : Option (List String)) : Res Unit :=
  match approvers with
  | some l => guardR (!anyOpen || subsetS info.approvers l) .invalidFields
  | none => .ok ()

def modifyContract (env : Env) (s : State) (sender : String) (funds : List Coin)
    (approvers executors : Option (List String))
    (askRate askAcct bidRate bidAcct : Option String) (askAttrs bidAttrs : Option (List String)) :
    Res (State × Response) := do
  let info := s.info
  guardR (memS sender info.executors) .unauthorized
  guardR funds.isEmpty .modifyWithFunds
  let hasAsk := !s.asks.isEmpty
  guardR (!(hasAsk && askAttrs.isSome)) .invalidFields
  checkFeeRate hasAsk info.askFee askRate askAcct
  let hasBid := !s.bids.isEmpty
  guardR (!(hasBid && bidAttrs.isSome)) .invalidFields
  checkFeeRate hasBid info.bidFee bidRate bidAcct
  approversKept info (hasAsk || hasBid) approvers
  let v ← orErr (Version.parse s.version.version) .semver
  guardR (!v.ltReq 0 16 2) .unsupportedUpgrade
  let info' ← applyOverrides env info approvers executors askRate askAcct bidRate bidAcct
                askAttrs bidAttrs
  pure ({ s with info := info' }, { msgs := [], attrs := [("action", "modify_contract")] })

def execute (env : Env) (s : State) (c : Call) : Res (State × Response) := do
  guardR c.msg.valid .invalidFields
  match c.msg with
  | .approveAsk id base size => approveAsk env s c.sender c.funds id base size
  | .createAsk id base quote price size => createAsk env s c.sender c.funds id base quote price size
  | .createBid id base fee price quote qs size =>
      createBid env s c.sender c.funds id base fee price quote qs size
  | .cancelAsk id => cancelAsk env s c.sender c.funds id
  | .cancelBid id => reverseBid env s c.sender c.funds id "cancel_bid" none
  | .executeMatch a b p sz => executeMatch env s c.sender c.funds a b p sz
  | .expireAsk id => reverseAsk env s c.sender c.funds id "expire_ask" none
  | .expireBid id => reverseBid env s c.sender c.funds id "expire_bid" none
  | .rejectAsk id sz => reverseAsk env s c.sender c.funds id "reject_ask" sz
  | .rejectBid id sz => reverseBid env s c.sender c.funds id "reject_bid" sz
  | .modify ap ex ar aa br ba att btt => modifyContract env s c.sender c.funds ap ex ar aa br ba att btt

/-! ### migrate -/

def Action.base : Action → Nat
  | .fill b _ _ _ => b.amount
  | .reject b _ _ => b.amount
  | .refund _ _ => 0
def Action.quote : Action → Nat
  | .fill _ _ _ q => q.amount
  | .reject _ _ q => q.amount
  | .refund _ q => q.amount
def Action.fee : Action → Nat
  | .fill _ f _ _ => (f.map (·.amount)).getD 0
  | .reject _ f _ => (f.map (·.amount)).getD 0
  | .refund f _ => (f.map (·.amount)).getD 0

/-- `From<BidOrderV2> for BidOrderV3` -/
def BidV2.convert (b : BidV2) : Bid :=
  { base := b.base,
    accBase := (b.events.map Action.base).sum,
    accQuote := (b.events.map Action.quote).sum,
    accFee := (b.events.map Action.fee).sum,
    fee := b.fee, id := b.id, owner := b.owner, price := b.price, quote := b.quote }

def convertEntry : BidEntry → BidEntry
  | .v2 b => .v3 b.convert
  | e => e

def migrate (env : Env) (s : State) (m : MigMsg) : Res (State × Response) := do
  guardR m.valid .invalidFields
  let v ← orErr (Version.parse s.version.version) .semver
  guardR (v.geReq 0 16 2) .unsupportedUpgrade
  let info' ← applyOverrides env s.info m.approvers none m.askRate m.askAcct m.bidRate m.bidAcct
                m.askAttrs m.bidAttrs
  guardR (v.geReq 0 15 0) .unsupportedUpgrade
  let bids' := if v.geReq 0 16 2 && v.ltReq 0 19 1
               then s.bids.map (fun kv => (kv.1, convertEntry kv.2)) else s.bids
  pure ({ info := info', version := ⟨env.crateName, env.pkgVersion⟩, asks := s.asks, bids := bids' },
        { msgs := [], attrs := [] })

/-! ### query -/

def query (s : State) (q : QueryMsg) : Res QueryOut := do
  guardR q.valid .invalidFields
  match q with
  | .getAsk id => do let a ← orErr (s.asks.get? id) .std; pure (.ask a)
  | .getBid id => do let b ← orErr (loadBid s id) .std; pure (.bid b)
  | .getInfo => pure (.info s.info)
  | .getVersion => pure (.version s.version)

end Ats
