/-
  Ats.Wire — the line protocol between the Rust harness and the Lean driver.
  A line is a list of space-separated tokens; strings are `~` + percent-encoded bytes.
-/
import Ats.Types
namespace Ats.Wire
open Ats

abbrev P := StateT (List String) Option

def tok : P String := fun ts =>
  match ts with
  | [] => none
  | t :: rest => some (t, rest)

def hexVal (c : Char) : Option Nat :=
  if c.isDigit then some (c.toNat - 48)
  else if 'a' ≤ c ∧ c ≤ 'f' then some (c.toNat - 87)
  else if 'A' ≤ c ∧ c ≤ 'F' then some (c.toNat - 55)
  else none

def decodeBytes : List Char → ByteArray → Option ByteArray
  | [], acc => some acc
  | '%' :: a :: b :: rest, acc =>
    match hexVal a, hexVal b with
    | some x, some y => decodeBytes rest (acc.push (UInt8.ofNat (x * 16 + y)))
    | _, _ => none
  | c :: rest, acc => if c.toNat < 128 then decodeBytes rest (acc.push (UInt8.ofNat c.toNat)) else none

def decodeStr (t : String) : Option String :=
  match t.toList with
  | '~' :: cs =>
    match decodeBytes cs ByteArray.empty with
    | some b => String.fromUTF8? b
    | none => none
  | _ => none

def str : P String := do
  let t ← tok
  match decodeStr t with
  | some s => pure s
  | none => failure

def nat : P Nat := do
  let t ← tok
  match t.toList with
  | [] => failure
  | cs => match digitsVal cs 0 with
    | some n => pure n
    | none => failure

def expect (s : String) : P Unit := do
  let t ← tok
  if t == s then pure () else failure

def rep {α : Type} (p : P α) : Nat → P (List α)
  | 0 => pure []
  | n + 1 => do
    let a ← p
    let rest ← rep p n
    pure (a :: rest)

def list {α : Type} (p : P α) : P (List α) := do
  let n ← nat
  rep p n

def opt {α : Type} (p : P α) : P (Option α) := do
  let t ← tok
  if t == "N" then pure none
  else if t == "S" then do let a ← p; pure (some a)
  else failure

def coin : P Coin := do
  let d ← str
  let a ← nat
  pure ⟨d, a⟩

def askClass : P AskClass := do
  let t ← tok
  if t == "b" then pure .basic
  else if t == "p" then pure .pending
  else if t == "r" then do
    let ap ← str
    let c ← coin
    pure (.ready ap c)
  else failure

def ask : P Ask := do
  let id ← str
  let owner ← str
  let cls ← askClass
  let base ← str
  let quote ← str
  let price ← str
  let size ← nat
  pure { id, owner, cls, base, quote, price, size }

def bid3 : P Bid := do
  let base ← coin
  let accBase ← nat
  let accQuote ← nat
  let accFee ← nat
  let fee ← opt coin
  let id ← str
  let owner ← str
  let price ← str
  let quote ← coin
  pure { base, accBase, accQuote, accFee, fee, id, owner, price, quote }

def action : P Action := do
  let t ← tok
  if t == "f" then do
    let b ← coin
    let f ← opt coin
    let p ← str
    let q ← coin
    pure (.fill b f p q)
  else if t == "u" then do
    let f ← opt coin
    let q ← coin
    pure (.refund f q)
  else if t == "j" then do
    let b ← coin
    let f ← opt coin
    let q ← coin
    pure (.reject b f q)
  else failure

def bid2 : P BidV2 := do
  let base ← coin
  let events ← list action
  let fee ← opt coin
  let id ← str
  let owner ← str
  let price ← str
  let quote ← coin
  pure { base, events, fee, id, owner, price, quote }

def feeInfo : P FeeInfo := do
  let account ← str
  let rate ← str
  pure { account, rate }

def info : P Info := do
  let name ← str
  let bindName ← str
  let baseDenom ← str
  let convertible ← list str
  let quotes ← list str
  let approvers ← list str
  let executors ← list str
  let askFee ← opt feeInfo
  let bidFee ← opt feeInfo
  let askAttrs ← list str
  let bidAttrs ← list str
  let precision ← nat
  let increment ← nat
  pure { name, bindName, baseDenom, convertible, quotes, approvers, executors, askFee, bidFee,
         askAttrs, bidAttrs, precision, increment }

def execMsg : P ExecMsg := do
  let t ← tok
  if t == "approve_ask" then do
    let id ← str; let base ← str; let size ← nat
    pure (.approveAsk id base size)
  else if t == "cancel_ask" then do let id ← str; pure (.cancelAsk id)
  else if t == "cancel_bid" then do let id ← str; pure (.cancelBid id)
  else if t == "create_ask" then do
    let id ← str; let base ← str; let quote ← str; let price ← str; let size ← nat
    pure (.createAsk id base quote price size)
  else if t == "create_bid" then do
    let id ← str; let base ← str; let fee ← opt coin; let price ← str; let quote ← str
    let qs ← nat; let size ← nat
    pure (.createBid id base fee price quote qs size)
  else if t == "execute_match" then do
    let a ← str; let b ← str; let p ← str; let sz ← nat
    pure (.executeMatch a b p sz)
  else if t == "expire_ask" then do let id ← str; pure (.expireAsk id)
  else if t == "expire_bid" then do let id ← str; pure (.expireBid id)
  else if t == "reject_ask" then do let id ← str; let sz ← opt nat; pure (.rejectAsk id sz)
  else if t == "reject_bid" then do let id ← str; let sz ← opt nat; pure (.rejectBid id sz)
  else if t == "modify_contract" then do
    let ap ← opt (list str); let ex ← opt (list str)
    let ar ← opt str; let aa ← opt str; let br ← opt str; let ba ← opt str
    let att ← opt (list str); let btt ← opt (list str)
    pure (.modify ap ex ar aa br ba att btt)
  else failure

def instMsg : P InstMsg := do
  let name ← str
  let baseDenom ← str
  let convertible ← list str
  let quotes ← list str
  let approvers ← list str
  let executors ← list str
  let askRate ← opt str
  let askAcct ← opt str
  let bidRate ← opt str
  let bidAcct ← opt str
  let askAttrs ← list str
  let bidAttrs ← list str
  let precision ← nat
  let increment ← nat
  pure { name, baseDenom, convertible, quotes, approvers, executors, askRate, askAcct, bidRate,
         bidAcct, askAttrs, bidAttrs, precision, increment }

def migMsg : P MigMsg := do
  let approvers ← opt (list str)
  let askRate ← opt str
  let askAcct ← opt str
  let bidRate ← opt str
  let bidAcct ← opt str
  let askAttrs ← opt (list str)
  let bidAttrs ← opt (list str)
  pure { approvers, askRate, askAcct, bidRate, bidAcct, askAttrs, bidAttrs }

def queryMsg : P QueryMsg := do
  let t ← tok
  if t == "get_ask" then do let id ← str; pure (.getAsk id)
  else if t == "get_bid" then do let id ← str; pure (.getBid id)
  else if t == "get_contract_info" then pure .getInfo
  else if t == "get_version_info" then pure .getVersion
  else failure

def msg : P Msg := do
  let t ← tok
  if t == "bank" then do
    let to ← str; let c ← coin
    pure (.bank to c)
  else if t == "xfer" then do
    let c ← coin; let to ← str; let frm ← str; let admin ← str
    pure (.transfer c to frm admin)
  else if t == "other" then pure .other
  else failure

/-- run a parser on the tokens after the tag; all tokens must be consumed -/
def run {α : Type} (p : P α) (ts : List String) : Option α :=
  match p ts with
  | some (a, []) => some a
  | _ => none

end Ats.Wire
