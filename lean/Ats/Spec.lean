/-
  Ats.Spec — decidable statements of the properties.

  Every definition here is a `Bool` (or computes the data a `Bool` compares).  The same
  definition is (a) the conclusion of a theorem about the model in `AtsProofs/Cxx.lean` and
  (b) the oracle the driver evaluates on the *implementation's* states and responses.

  Amounts the properties call "exact" (price × size, rate × amount) are computed here with
  integer arithmetic on numerators – never with the 96-bit decimal operations of `Ats.Dec` –
  so the theorems really compare the contract's decimal pipeline with exact arithmetic.
-/
import Ats.Contract
namespace Ats.Spec
open Ats

/-! ## flows of funds -/

structure Flow where
  frm : String
  to : String
  denom : String
  amount : Nat
  deriving Repr, DecidableEq

def flowOf (contract : String) : Msg → Option Flow
  | .bank to c => some ⟨contract, to, c.denom, c.amount⟩
  | .transfer c to frm _ => some ⟨frm, to, c.denom, c.amount⟩
  | .other => none

def sumNat (l : List Nat) : Nat := l.foldr (· + ·) 0

/-- what one message credits to `acct` in `d` -/
def msgCredit (contract acct d : String) (m : Msg) : Nat :=
  match flowOf contract m with
  | some f => if f.to = acct ∧ f.denom = d then f.amount else 0
  | none => 0

/-- what one message takes from `acct` in `d` -/
def msgDebit (contract acct d : String) (m : Msg) : Nat :=
  match flowOf contract m with
  | some f => if f.frm = acct ∧ f.denom = d then f.amount else 0
  | none => 0

/-- amount of `d` the message list moves to `acct` -/
def credit (contract : String) (msgs : List Msg) (acct d : String) : Nat :=
  sumNat (msgs.map (msgCredit contract acct d))

/-- amount of `d` the message list takes from `acct` -/
def debit (contract : String) (msgs : List Msg) (acct d : String) : Nat :=
  sumNat (msgs.map (msgDebit contract acct d))

def fundsOf (funds : List Coin) (d : String) : Nat :=
  sumNat (funds.map fun c => if c.denom = d then c.amount else 0)

/-- an expected payout list `(to, denom, amount)` summed per account and denomination -/
def expCredit (exp : List (String × String × Nat)) (acct d : String) : Nat :=
  sumNat (exp.map fun e => if e.1 = acct ∧ e.2.1 = d then e.2.2 else 0)

/-! ## what the book owes (C01) -/

def askOwes (d : String) (a : Ask) : Nat :=
  (if a.base = d then a.size else 0) +
  (match a.cls with
   | .ready _ c => if c.denom = d then c.amount else 0
   | _ => 0)

def bidOwes (d : String) : BidEntry → Nat
  | .v3 b => (if b.quote.denom = d then b.remQuote else 0) +
             (match b.fee with | some f => if f.denom = d then b.remFee else 0 | none => 0)
  | .v2 _ => 0

def owed (s : State) (d : String) : Nat :=
  Book.sumBy (askOwes d) s.asks + Book.sumBy (bidOwes d) s.bids

/-- what the ask / the bid under a key is owed in `d` (0 when it is not on the book) -/
def askHeld (d : String) (s : State) (k : String) : Nat :=
  match s.asks.get? k with | some a => askOwes d a | none => 0
def bidHeld (d : String) (s : State) (k : String) : Nat :=
  match s.bids.get? k with | some e => bidOwes d e | none => 0

/-- C09 "over the bid's life the fees add up", on one accepted match, in the bid's quote
    denomination: what the two matched orders held before (the bid: unspent quote + unspent
    fee) = what they hold afterwards + what the contract paid out – so the fee that leaves the
    bid, all of it when the match closes the bid, is paid to the fee account or returned with
    the price improvement, never dropped -/
def C09_feeLeavesOK (contract : String) (s : State) (c : Call) (askId bidId : String)
    (r : Response) (s' : State) : Bool :=
  match loadBid s bidId with
  | some b =>
    let d := b.quote.denom
    askHeld d s askId + bidHeld d s bidId + fundsOf c.funds d + credit contract r.msgs contract d
      == askHeld d s' askId + bidHeld d s' bidId + debit contract r.msgs contract d
  | none => true

/-- C01, one accepted step, one denomination: holdings before + everything received =
    holdings after + everything paid out, where holdings are what the book owes -/
def C01_denomOK (contract : String) (s : State) (c : Call) (r : Response) (s' : State)
    (d : String) : Bool :=
  owed s d + fundsOf c.funds d + credit contract r.msgs contract d
    == owed s' d + debit contract r.msgs contract d

/-! ## exact arithmetic on parsed decimals -/

/-- `price × n` is a whole number -/
def wholeProduct (p : Dec) (n : Nat) : Bool := (p.mant * n) % 10 ^ p.scale == 0
/-- `price × n` when whole -/
def product (p : Dec) (n : Nat) : Nat := p.mant * n / 10 ^ p.scale

/-- the integer nearest to `rate × amount`, halves away from zero (non-negative rate) -/
def exactFee (rate : Dec) (amount : Nat) : Nat :=
  (2 * rate.mant * amount + 10 ^ rate.scale) / (2 * 10 ^ rate.scale)

/-- the fee a rate demands on `amount`: `rate × amount` rounded half away from zero; a
    negative result cannot be escrowed (`none`), a negative rate whose fee rounds to zero
    demands nothing -/
def admissibleFee (rate : Dec) (amount : Nat) : Option Nat :=
  let m := exactFee rate amount
  if rate.neg && m != 0 then none else some m

/-- magnitude hypothesis of one product (DESIGN §4.2): the 96-bit decimal computes
    `p × n` without rounding -/
def exactMul (p : Dec) (n : Nat) : Bool :=
  decide (n < LIM) && (decide (p.mant * n < LIM) || (p.mant * n) % 10 ^ p.scale == 0)

/-! ## structural invariant (`Sane`) -/

def priceOK (info : Info) (price : String) : Bool :=
  match Dec.parse price with
  | some p => !p.isZero && !p.neg && Dec.badPrecision p info.precision == some false
  | none => false

def askSane (info : Info) (k : String) (a : Ask) : Bool :=
  a.id == k && isUuidAnyForm k && decide (a.size > 0) && priceOK info a.price &&
  memS a.quote info.quotes &&
  (match a.cls with
   | .basic => a.base == info.baseDenom
   | .pending => a.base != info.baseDenom && memS a.base info.convertible
   | .ready _ c => a.base != info.baseDenom && memS a.base info.convertible &&
                   c.denom == info.baseDenom && c.amount == a.size)

/-- unspent quote = price × unfilled size, as an exact equation between numerators -/
def quoteInv (b : Bid) : Bool :=
  match Dec.parse b.price with
  | some p => b.remQuote * 10 ^ p.scale == p.mant * b.remBase
  | none => false

def bidSane (info : Info) (k : String) : BidEntry → Bool
  | .v2 _ => false
  | .v3 b =>
    b.id == k && isUuidAnyForm k && priceOK info b.price &&
    decide (b.accBase < b.base.amount) && decide (b.accQuote ≤ b.quote.amount) &&
    decide (b.accFee ≤ b.feeAmount) && quoteInv b &&
    decide (b.base.amount < LIM) && decide (b.quote.amount < LIM) && decide (b.feeAmount < LIM) &&
    b.base.denom == info.baseDenom && memS b.quote.denom info.quotes &&
    (match b.fee with | some f => f.denom == b.quote.denom | none => true)

def distinctKeys {V : Type} (b : Book V) : Bool :=
  match b with
  | [] => true
  | (k, _) :: t => (t.all fun kv => kv.1 != k) && distinctKeys t

def rateOK : Option FeeInfo → Bool
  | none => true
  | some f => (Dec.parse f.rate).isSome

def infoSane (i : Info) : Bool :=
  decide (i.precision ≤ 18) && decide (i.increment ≥ 1) &&
  i.increment % 10 ^ i.precision == 0 && !i.executors.isEmpty && rateOK i.askFee && rateOK i.bidFee

def sane (s : State) : Bool :=
  infoSane s.info && distinctKeys s.asks && distinctKeys s.bids &&
  (s.asks.all fun kv => askSane s.info kv.1 kv.2) &&
  (s.bids.all fun kv => bidSane s.info kv.1 kv.2)

/-- every fee-bearing open bid holds exactly the fee its unspent quote needs (C09 pro-rata) -/
def feeExactBid : BidEntry → Bool
  | .v2 _ => true
  | .v3 b =>
    match b.fee with
    | none => true
    | some f =>
      match Dec.feeFor f.amount b.quote.amount b.remQuote with
      | .ok n => b.remFee == n
      | .err _ => false

def feeExact (s : State) : Bool := s.bids.all fun kv => feeExactBid kv.2

/-! ## C05 authorization -/

def authorized (s : State) (sender : String) : ExecMsg → Bool
  | .cancelAsk id => (match s.asks.get? id with | some a => a.owner == sender | none => false)
  | .cancelBid id => (match loadBid s id with | some b => b.owner == sender | none => false)
  | .approveAsk _ _ _ => memS sender s.info.approvers
  | .executeMatch _ _ _ _ => memS sender s.info.executors
  | .expireAsk _ => memS sender s.info.executors
  | .expireBid _ => memS sender s.info.executors
  | .rejectAsk _ _ => memS sender s.info.executors
  | .rejectBid _ _ => memS sender s.info.executors
  | .modify _ _ _ _ _ _ _ _ => memS sender s.info.executors
  | .createAsk _ _ _ _ _ => true
  | .createBid _ _ _ _ _ _ _ => true

/-! ## C10 transfer mechanism -/

def isEscrowing : ExecMsg → Bool
  | .createAsk _ _ _ _ _ => true
  | .createBid _ _ _ _ _ _ _ => true
  | .approveAsk _ _ _ => true
  | _ => false

def msgOK (env : Env) (c : Call) : Msg → Bool
  | .bank _ coin => decide (coin.amount > 0) && !env.restricted coin.denom
  | .transfer coin to frm admin =>
      decide (coin.amount > 0) && env.restricted coin.denom && admin == env.contract &&
      (frm == env.contract || (isEscrowing c.msg && frm == c.sender && to == env.contract))
  | .other => false

def C10_msgsOK (env : Env) (c : Call) (r : Response) : Bool := r.msgs.all (msgOK env c)

/-! ## C03 match eligibility -/

/-- the "only if" side: what an accepted match implies about the pre-state -/
def C03_conds (s : State) (sender : String) (askId bidId price : String) (size : Nat) : Bool :=
  memS sender s.info.executors &&
  (match s.asks.get? askId, loadBid s bidId with
   | some a, some b =>
     a.quote == b.quote.denom &&
     (match a.cls with | .pending => false | _ => true) &&
     (match Dec.parse a.price, Dec.parse b.price, Dec.parse price with
      | some ap, some bp, some p =>
        Dec.le ap bp && (Dec.eqv p ap || Dec.eqv p bp) &&
        decide (1 ≤ size) && decide (size ≤ a.size) && decide (size ≤ b.remBase)
      | _, _, _ => false)
   | _, _ => false)

/-- whole-number quote amounts (judged exactly; meaningful under `exactMul`) -/
def C03_whole (s : State) (bidId price : String) (size : Nat) : Bool :=
  match loadBid s bidId, Dec.parse price with
  | some b, some p =>
    wholeProduct p size &&
    (match Dec.parse b.price with
     | some bp => !Dec.lt p bp || wholeProduct bp size
     | none => false)
  | _, _ => false

/-! ## C04 / C06 reversals -/

/-- expected payouts of reversing `c` units of an ask -/
def askReversePays (a : Ask) (c : Nat) : List (String × String × Nat) :=
  (a.owner, a.base, c) ::
  (match a.cls with
   | .ready ap conv => [(ap, conv.denom, c)]
   | _ => [])

/-- fee handed back when `cq` of the unspent quote is cancelled -/
def feeBack (b : Bid) (cq : Nat) : Option Nat :=
  match b.fee with
  | none => some 0
  | some f =>
    -- nothing of the quote stays on the book: the whole fee still held is no longer needed
    if b.remQuote - cq = 0 then some b.remFee
    else
      match Dec.feeFor f.amount b.quote.amount (b.remQuote - cq) with
      | .ok need => if need ≤ b.remFee then some (b.remFee - need) else none
      | .err _ => none

def bidReversePays (b : Bid) (c : Nat) : Option (List (String × String × Nat)) :=
  match Dec.parse b.price with
  | none => none
  | some p =>
    let cq := product p c
    match feeBack b cq with
    | none => none
    | some fb => some [(b.owner, b.quote.denom, cq), (b.owner, b.quote.denom, fb)]

/-- all payouts come from the contract -/
def allFromContract (contract : String) (msgs : List Msg) : Bool :=
  msgs.all fun m => match flowOf contract m with
    | some f => f.frm == contract
    | none => false

/-- per-(account, denomination) equality of credited amounts with an expected list, over the
    given accounts and denominations -/
def creditsMatch (contract : String) (msgs : List Msg) (exp : List (String × String × Nat))
    (accts denoms : List String) : Bool :=
  accts.all fun a => denoms.all fun d => credit contract msgs a d == expCredit exp a d

def msgAccts (contract : String) (msgs : List Msg) : List String :=
  msgs.filterMap fun m => (flowOf contract m).map (·.to)
def msgDenoms (contract : String) (msgs : List Msg) : List String :=
  msgs.filterMap fun m => (flowOf contract m).map (·.denom)

/-- credits equal the expected list for every account and denomination that occurs in
    either (for all others both sides are 0) -/
def paysExactly (contract : String) (msgs : List Msg) (exp : List (String × String × Nat)) : Bool :=
  allFromContract contract msgs &&
  creditsMatch contract msgs exp (msgAccts contract msgs ++ exp.map (·.1))
    (msgDenoms contract msgs ++ exp.map (·.2.1))

/-- the ask after reversing `c` units (`none` = leaves the book): size and approver-supplied
    amount both shrink by `c` -/
def askAfterReverse (a : Ask) (c : Nat) : Option Ask :=
  if (a.reduce c).size = 0 then none else some (a.reduce c)

/-- a requested partial size is a positive multiple of the size increment -/
def reqSizeOK (requested : Option Nat) (inc : Nat) : Bool :=
  match requested with
  | some n => decide (n ≥ 1) && n % inc == 0
  | none => true

def C04_askOK (contract : String) (s : State) (id : String) (requested : Option Nat)
    (r : Response) (s' : State) : Bool :=
  match s.asks.get? id with
  | none => false
  | some a =>
    let c := requested.getD a.size
    decide (c ≤ a.size) && reqSizeOK requested s.info.increment &&
    paysExactly contract r.msgs (askReversePays a c) &&
    s'.asks.get? id == askAfterReverse a c

def bidAfterReverse (b : Bid) (c cq fb : Nat) : Option BidEntry :=
  if b.remBase - c = 0 then none
  else some (.v3 { b with accBase := b.accBase + c, accQuote := b.accQuote + cq,
                          accFee := b.accFee + fb })

def C04_bidOK (contract : String) (s : State) (id : String) (requested : Option Nat)
    (r : Response) (s' : State) : Bool :=
  match loadBid s id with
  | none => false
  | some b =>
    let c := requested.getD b.remBase
    decide (c ≤ b.remBase) && reqSizeOK requested s.info.increment &&
    (match Dec.parse b.price with
     | none => false
     | some p =>
       wholeProduct p c &&
       (match feeBack b (product p c) with
        | none => false
        | some fb =>
          paysExactly contract r.msgs
            [(b.owner, b.quote.denom, product p c), (b.owner, b.quote.denom, fb)] &&
          s'.bids.get? id == bidAfterReverse b c (product p c) fb))

/-- C06: a full exit returns the entire remaining escrow and removes the order -/
def C06_askExitOK (contract : String) (s : State) (id : String) (r : Response) (s' : State) : Bool :=
  match s.asks.get? id with
  | none => false
  | some a =>
    paysExactly contract r.msgs
      ((a.owner, a.base, a.size) ::
        (match a.cls with | .ready ap conv => [(ap, conv.denom, conv.amount)] | _ => [])) &&
    (s'.asks.get? id).isNone

def C06_bidExitOK (contract : String) (s : State) (id : String) (r : Response) (s' : State) : Bool :=
  match loadBid s id with
  | none => false
  | some b =>
    paysExactly contract r.msgs
      [(b.owner, b.quote.denom, b.remQuote), (b.owner, b.quote.denom, b.remFee)] &&
    (s'.bids.get? id).isNone

/-! ## C02 match settlement -/

structure MatchAmounts where
  gross : Nat
  askFee : Nat
  bidFee : Nat
  refund : Nat
  feeRefund : Nat
  deriving Repr, DecidableEq

/-- the ask fee of exact arithmetic: configured rate × gross proceeds, halves away from zero -/
def askFeeExact (i : Info) (gross : Nat) : Nat :=
  match i.askFee with
  | some fi => (match Dec.parse fi.rate with | some r => exactFee r gross | none => 0)
  | none => 0

/-- pro-rata split of the bid's unspent fee when `gross` of its quote is paid out and
    `orig - gross` refunded: (fee to the fee account, fee refunded to the buyer) -/
def bidFeeSplit (b : Bid) (gross orig : Nat) : Option (Nat × Nat) :=
  match b.fee with
  | none => some (0, 0)
  | some f =>
    match Dec.feeFor f.amount b.quote.amount (b.remQuote - gross),
          Dec.feeFor f.amount b.quote.amount (b.remQuote - orig) with
    | .ok needAfterFill, .ok needAfterAll =>
      some (b.remFee - needAfterFill, needAfterFill - needAfterAll)
    | _, _ => none

/-- the amounts a match of `size` at `price` must move, from the pre-state alone -/
def matchAmounts (s : State) (_a : Ask) (b : Bid) (price : String) (size : Nat) :
    Option MatchAmounts :=
  match Dec.parse price, Dec.parse b.price with
  | some p, some bp =>
    let gross := product p size
    let orig := if Dec.lt p bp then product bp size else gross
    match bidFeeSplit b gross orig with
    | some (bf, fr) => some ⟨gross, askFeeExact s.info gross, bf, orig - gross, fr⟩
    | none => none
  | _, _ => none

def matchPays (s : State) (a : Ask) (b : Bid) (m : MatchAmounts) (size : Nat) :
    List (String × String × Nat) :=
  let qd := b.quote.denom
  let seller := match a.cls with | .ready ap _ => ap | _ => a.owner
  [ (b.owner, s.info.baseDenom, size),
    (seller, qd, m.gross - m.askFee),
    ((s.info.askFee.map (·.account)).getD "", qd, m.askFee),
    ((s.info.bidFee.map (·.account)).getD "", qd, m.bidFee),
    (b.owner, qd, m.refund),
    (b.owner, qd, m.feeRefund) ] ++
  (match a.cls with
   | .ready ap _ => [(ap, a.base, size)]
   | _ => [])

def askAfterMatch (a : Ask) (size : Nat) : Option Ask := askAfterReverse a size

def bidAfterMatch (b : Bid) (m : MatchAmounts) (size : Nat) : Option BidEntry :=
  if b.remBase - size = 0 then none
  else some (.v3 { b with accBase := b.accBase + size,
                          accQuote := b.accQuote + m.gross + m.refund,
                          accFee := b.accFee + m.bidFee + m.feeRefund })

def C02_matchOK (contract : String) (s : State) (askId bidId price : String) (size : Nat)
    (r : Response) (s' : State) : Bool :=
  match s.asks.get? askId, loadBid s bidId with
  | some a, some b =>
    (match matchAmounts s a b price size with
     | none => false
     | some m =>
       paysExactly contract r.msgs (matchPays s a b m size) &&
       s'.asks.get? askId == askAfterMatch a size &&
       s'.bids.get? bidId == bidAfterMatch b m size)
  | _, _ => false

/-! ## C07 admission -/

def escrowOK (env : Env) (c : Call) (r : Response) (coin : Coin) : Bool :=
  if env.restricted coin.denom then
    c.funds.isEmpty && r.msgs == [.transfer coin env.contract c.sender env.contract]
  else decide (c.funds = [coin]) && r.msgs.isEmpty

def hasAllAttrs (env : Env) (sender : String) (required : List String) : Bool :=
  required.isEmpty ||
  (match env.attrs sender with
   | some names => required.all fun x => memS x names
   | none => false)

def C07_askConds (env : Env) (s : State) (c : Call) (id base quote price : String) (size : Nat) : Bool :=
  isCanonicalUuid id && (s.asks.get? id).isNone &&
  (base == s.info.baseDenom || memS base s.info.convertible) && memS quote s.info.quotes &&
  priceOK s.info price && decide (size ≥ 1) && size % s.info.increment == 0 &&
  hasAllAttrs env c.sender s.info.askAttrs

def C07_askOK (env : Env) (s : State) (c : Call) (id base quote price : String) (size : Nat)
    (r : Response) (s' : State) : Bool :=
  C07_askConds env s c id base quote price size &&
  escrowOK env c r ⟨base, size⟩ &&
  s'.asks.get? id == some { id := id, owner := c.sender,
                            cls := if base == s.info.baseDenom then .basic else .pending,
                            base := base, quote := quote, price := price, size := size }

def bidRate (i : Info) : Option Dec :=
  match i.bidFee with
  | some fi => Dec.parse fi.rate
  | none => some (Dec.ofNat 0)

def C07_bidConds (env : Env) (s : State) (c : Call) (id base : String) (fee : Option Coin)
    (price quote : String) (quoteSize size : Nat) : Bool :=
  isCanonicalUuid id && (s.bids.get? id).isNone &&
  base == s.info.baseDenom && memS quote s.info.quotes &&
  priceOK s.info price && decide (size ≥ 1) && size % s.info.increment == 0 &&
  hasAllAttrs env c.sender s.info.bidAttrs &&
  (match Dec.parse price, bidRate s.info with
   | some p, some rate =>
     wholeProduct p size && product p size == quoteSize && decide (quoteSize ≥ 1) &&
     (match admissibleFee rate quoteSize with
      | none => false
      | some due =>
        (match fee with
         | some f => f.amount == due && f.denom == quote
         | none => due == 0))
   | _, _ => false)

def C07_bidOK (env : Env) (s : State) (c : Call) (id base : String) (fee : Option Coin)
    (price quote : String) (quoteSize size : Nat) (r : Response) (s' : State) : Bool :=
  C07_bidConds env s c id base fee price quote quoteSize size &&
  escrowOK env c r ⟨quote, quoteSize + feeAmt fee⟩ &&
  s'.bids.get? id == some (.v3 { base := ⟨base, size⟩, accBase := 0, accQuote := 0, accFee := 0,
                                 fee := fee, id := id, owner := c.sender, price := price,
                                 quote := ⟨quote, quoteSize⟩ })

/-! ## C08 convertible asks -/

def C08_approveOK (env : Env) (s : State) (c : Call) (id base : String) (size : Nat)
    (r : Response) (s' : State) : Bool :=
  memS c.sender s.info.approvers &&
  (match s.asks.get? id with
   | some a =>
     (match a.cls with | .pending => true | _ => false) &&
     size == a.size && base == s.info.baseDenom &&
     escrowOK env c r ⟨s.info.baseDenom, a.size⟩ &&
     s'.asks.get? id == some { a with cls := .ready c.sender ⟨s.info.baseDenom, a.size⟩ }
   | none => false)

/-- the approver-supplied amount of every approved ask equals its remaining size -/
def C08_readyTracks (s : State) : Bool :=
  s.asks.all fun kv =>
    match kv.2.cls with
    | .ready _ c => c.amount == kv.2.size && c.denom == s.info.baseDenom
    | .basic => kv.2.base == s.info.baseDenom
    | .pending => kv.2.base != s.info.baseDenom

/-- approver-supplied amount recorded for the ask under `id` (0 when the ask is absent or not
    approved) -/
def recordedApproverAmount (s : State) (id : String) : Nat :=
  match s.asks.get? id with
  | some a => (match a.cls with | .ready _ c => c.amount | _ => 0)
  | none => 0

/-- C08 (the escrow held for the approver tracks the recorded amount): an accepted cancel /
    expire / reject of an approved ask credits its approver, in the approver-supplied
    denomination, with exactly the decrease of the recorded approver amount -/
def C08_releaseOK (contract : String) (s : State) (id : String) (r : Response) (s' : State) : Bool :=
  match s.asks.get? id with
  | some a =>
    (match a.cls with
     | .ready ap conv =>
       credit contract r.msgs ap conv.denom == conv.amount - recordedApproverAmount s' id
     | _ => true)
  | none => true

/-! ## C09 fee exactness -/

/-- C09 at entry: the fee sent with an admitted bid is the configured rate × price × size,
    halves away from zero, in the quote denomination -/
def C09_entryOK (s : State) (fee : Option Coin) (price quote : String) (qs size : Nat) : Bool :=
  match Dec.parse price, bidRate s.info with
  | some p, some rate =>
    product p size == qs && admissibleFee rate qs == some (feeAmt fee) &&
    (match fee with | some f => f.denom == quote | none => true)
  | _, _ => false

/-- `held` is the integer nearest to `F·q/Q`; at an exact half-unit tie either neighbour -/
def nearestFee (F Q q held : Nat) : Bool :=
  -- |held·Q − F·q| ≤ Q/2   ⇔   2·|held·Q − F·q| ≤ Q
  decide (2 * (held * Q) ≤ 2 * (F * q) + Q) && decide (2 * (F * q) ≤ 2 * (held * Q) + Q)

def C09_bidNear : BidEntry → Bool
  | .v2 _ => true
  | .v3 b =>
    match b.fee with
    | none => true
    | some f => nearestFee f.amount b.quote.amount b.remQuote b.remFee

/-- magnitude bound under which the 28-digit pipeline is provably nearest (finding F7) -/
def C09_small : BidEntry → Bool
  | .v2 _ => true
  | .v3 b => decide (4 * b.feeAmount * b.quote.amount ≤ 10 ^ 28)

/-! ## C11 order integrity -/

def askImmutable (a a' : Ask) : Bool :=
  a'.id == a.id && a'.owner == a.owner && a'.base == a.base && a'.quote == a.quote &&
  a'.price == a.price && decide (a'.size ≤ a.size) &&
  (match a.cls, a'.cls with
   | .basic, .basic => true
   | .pending, .pending => true
   | .pending, .ready _ _ => true
   | .ready ap c, .ready ap' c' => ap == ap' && c.denom == c'.denom && decide (c'.amount ≤ c.amount)
   | _, _ => false)

def bidImmutable : BidEntry → BidEntry → Bool
  | .v3 b, .v3 b' =>
    b'.id == b.id && b'.owner == b.owner && b'.price == b.price && b'.base == b.base &&
    b'.quote == b.quote && b'.fee == b.fee &&
    decide (b.accBase ≤ b'.accBase) && decide (b.accQuote ≤ b'.accQuote) &&
    decide (b.accFee ≤ b'.accFee)
  | _, _ => false

/-- the keys a request names -/
def namedAsks : ExecMsg → List String
  | .approveAsk id _ _ => [id]
  | .cancelAsk id => [id]
  | .createAsk id _ _ _ _ => [id]
  | .executeMatch a _ _ _ => [a]
  | .expireAsk id => [id]
  | .rejectAsk id _ => [id]
  | _ => []
def namedBids : ExecMsg → List String
  | .cancelBid id => [id]
  | .createBid id _ _ _ _ _ _ => [id]
  | .executeMatch _ b _ _ => [b]
  | .expireBid id => [id]
  | .rejectBid id _ => [id]
  | _ => []

def isModify : ExecMsg → Bool
  | .modify _ _ _ _ _ _ _ _ => true
  | _ => false

/-- every key of `b` or `b'` outside `named` maps to the same value in both -/
def frameBook {V : Type} [BEq V] (b b' : Book V) (named : List String) : Bool :=
  (b.keys ++ b'.keys).all fun k => memS k named || b'.get? k == b.get? k

def C11_frameOK (s : State) (m : ExecMsg) (s' : State) : Bool :=
  frameBook s.asks s'.asks (namedAsks m) && frameBook s.bids s'.bids (namedBids m) &&
  s'.version == s.version && (isModify m || s'.info == s.info) &&
  (namedAsks m).all (fun k =>
    match s.asks.get? k, s'.asks.get? k with
    | some a, some a' => askImmutable a a'
    | _, _ => true) &&
  (namedBids m).all (fun k =>
    match s.bids.get? k, s'.bids.get? k with
    | some b, some b' => bidImmutable b b'
    | _, _ => true)

/-! ## C12 configuration changes -/

def sameRate (a b : Option FeeInfo) : Bool :=
  match a, b with
  | none, none => true
  | some x, some y =>
    (match Dec.parse x.rate, Dec.parse y.rate with
     | some p, some q => Dec.eqv p q
     | _, _ => false)
  | _, _ => false

def marketSame (i i' : Info) : Bool :=
  i'.name == i.name && i'.bindName == i.bindName && i'.baseDenom == i.baseDenom &&
  i'.convertible == i.convertible && i'.quotes == i.quotes && i'.precision == i.precision &&
  i'.increment == i.increment

/-- field-wise expected result of a fee pair -/
def feeAfter (old : Option FeeInfo) (rate acct : Option String) : Option FeeInfo :=
  match rate, acct with
  | some r, some a => if a = "" ∧ r = "" then none else some ⟨a, r⟩
  | _, _ => old

def C12_modifyOK (s : State) (m : ExecMsg) (s' : State) : Bool :=
  match m with
  | .modify approvers executors askRate askAcct bidRate bidAcct askAttrs bidAttrs =>
    let i := s.info
    let i' := s'.info
    marketSame i i' &&
    -- freeze while a side is open
    (s.asks.isEmpty || (sameRate i.askFee i'.askFee && i'.askAttrs == i.askAttrs)) &&
    (s.bids.isEmpty || (sameRate i.bidFee i'.bidFee && i'.bidAttrs == i.bidAttrs)) &&
    ((s.asks.isEmpty && s.bids.isEmpty) || subsetS i.approvers i'.approvers) &&
    -- field-wise installation
    i'.approvers == approvers.getD i.approvers && i'.executors == executors.getD i.executors &&
    i'.askFee == feeAfter i.askFee askRate askAcct && i'.bidFee == feeAfter i.bidFee bidRate bidAcct &&
    i'.askAttrs == askAttrs.getD i.askAttrs && i'.bidAttrs == bidAttrs.getD i.bidAttrs &&
    (match approvers with | some l => !l.isEmpty | none => true) &&
    (match executors with | some l => !l.isEmpty | none => true) &&
    s'.asks == s.asks && s'.bids == s.bids && s'.version == s.version
  | _ => marketSame s.info s'.info

/-! ## C13 instantiation -/

def feePairCoherent (env : Env) (rate acct : Option String) : Bool :=
  match rate, acct with
  | none, none => true
  | some r, some a => (a == "" && r == "") || ((Dec.parse r).isSome && env.validAddr a)
  | _, _ => false

def coherent (env : Env) (m : InstMsg) : Bool :=
  m.name != "" && m.baseDenom != "" && !m.quotes.isEmpty && !m.executors.isEmpty &&
  decide (m.precision ≤ 18) && decide (m.increment ≥ 1) && m.increment % 10 ^ m.precision == 0 &&
  feePairCoherent env m.askRate m.askAcct && feePairCoherent env m.bidRate m.bidAcct &&
  m.approvers.all env.validAddr && m.executors.all env.validAddr

def C13_stored (env : Env) (m : InstMsg) (s : State) : Bool :=
  s.info == { name := m.name, bindName := "", baseDenom := m.baseDenom,
              convertible := m.convertible, quotes := m.quotes, approvers := m.approvers,
              executors := m.executors,
              askFee := feeAfter none m.askRate m.askAcct,
              bidFee := feeAfter none m.bidRate m.bidAcct,
              askAttrs := m.askAttrs, bidAttrs := m.bidAttrs,
              precision := m.precision, increment := m.increment } &&
  s.version == ⟨env.crateName, env.pkgVersion⟩ && s.asks.isEmpty && s.bids.isEmpty

/-! ## C14 / C15 migration -/

def migratable (s : State) : Bool :=
  match Version.parse s.version.version with
  | some v => v.geReq 0 16 2
  | none => false

def inWindow (s : State) : Bool :=
  match Version.parse s.version.version with
  | some v => v.geReq 0 16 2 && v.ltReq 0 19 1
  | none => false

def C14_migrateOK (env : Env) (s : State) (m : MigMsg) (s' : State) : Bool :=
  migratable s &&
  s'.asks == s.asks &&
  s'.version == ⟨env.crateName, env.pkgVersion⟩ &&
  marketSame s.info s'.info && s'.info.executors == s.info.executors &&
  s'.info.approvers == m.approvers.getD s.info.approvers &&
  s'.info.askFee == feeAfter s.info.askFee m.askRate m.askAcct &&
  s'.info.bidFee == feeAfter s.info.bidFee m.bidRate m.bidAcct &&
  s'.info.askAttrs == m.askAttrs.getD s.info.askAttrs &&
  s'.info.bidAttrs == m.bidAttrs.getD s.info.bidAttrs

/-- remaining amounts of an old-format bid, specified as a fold over its event log -/
def v2Remaining (b : BidV2) : Nat × Nat × Nat :=
  b.events.foldl (fun (acc : Nat × Nat × Nat) ev =>
    (acc.1 - ev.base, acc.2.1 - ev.quote, acc.2.2 - ev.fee))
    (b.base.amount, b.quote.amount, (b.fee.map (·.amount)).getD 0)

/-- what an entry under the `bid` prefix is owed, old-format bids included (by the fold over
    their event log): the escrow a migration has to carry over -/
def bidOwesAny (d : String) : BidEntry → Nat
  | .v3 b => bidOwes d (.v3 b)
  | .v2 b =>
    (if b.quote.denom = d then (v2Remaining b).2.1 else 0) +
    (match b.fee with | some f => if f.denom = d then (v2Remaining b).2.2 else 0 | none => 0)

def owedAny (s : State) (d : String) : Nat :=
  Book.sumBy (askOwes d) s.asks + Book.sumBy (bidOwesAny d) s.bids

def C15_entryOK (windowed : Bool) (e e' : BidEntry) : Bool :=
  match e with
  | .v3 _ => e' == e
  | .v2 old =>
    if windowed then
      (match e' with
       | .v3 b =>
         b.base == old.base && b.quote == old.quote && b.fee == old.fee && b.id == old.id &&
         b.owner == old.owner && b.price == old.price &&
         (b.remBase, b.remQuote, b.remFee) == v2Remaining old
       | .v2 _ => false)
    else e' == e

/-- C09 across the format conversion: the fee a converted bid still holds is its original fee
    minus every fee share its event log records (fills, refunds and rejects alike), so the
    fees of its whole life still add up to the fee escrowed -/
def C09_migrateFeeOK (s s' : State) : Bool :=
  s.bids.all fun kv =>
    match kv.2, s'.bids.get? kv.1 with
    | .v2 old, some (.v3 b) => b.fee == old.fee && b.remFee == (v2Remaining old).2.2
    | _, _ => true

def C15_bidsOK (s s' : State) : Bool :=
  s'.bids.keys == s.bids.keys &&
  s.bids.keys.all fun k =>
    match s.bids.get? k, s'.bids.get? k with
    | some e, some e' => C15_entryOK (inWindow s) e e'
    | _, _ => false

/-! ## C16 queries -/

def C16_queryOK (s : State) (q : QueryMsg) (out : Option QueryOut) : Bool :=
  match q with
  | .getAsk id => out == ((if isUuidAnyForm id then s.asks.get? id else none).map QueryOut.ask)
  | .getBid id => out == ((if isUuidAnyForm id then loadBid s id else none).map QueryOut.bid)
  | .getInfo => out == some (.info s.info)
  | .getVersion => out == some (.version s.version)

/-! ## C17 response attributes -/

def attr? (attrs : List (String × String)) (k : String) : Option String :=
  match attrs with
  | [] => none
  | (k', v) :: t => if k' = k then some v else attr? t k

def actionName : ExecMsg → String
  | .approveAsk _ _ _ => "approve_ask"
  | .cancelAsk _ => "cancel_ask"
  | .cancelBid _ => "cancel_bid"
  | .createAsk _ _ _ _ _ => "create_ask"
  | .createBid _ _ _ _ _ _ _ => "create_bid"
  | .executeMatch _ _ _ _ => "execute"
  | .expireAsk _ => "expire_ask"
  | .expireBid _ => "expire_bid"
  | .rejectAsk _ _ => "reject_ask"
  | .rejectBid _ _ => "reject_bid"
  | .modify _ _ _ _ _ _ _ _ => "modify_contract"

def numAttr (attrs : List (String × String)) (k : String) : Option Nat :=
  match attr? attrs k with
  | some v => (match v.toList with | [] => none | cs => digitsVal cs 0)
  | none => none

def priceAttrEq (attrs : List (String × String)) (price : String) : Bool :=
  match attr? attrs "price", Dec.parse price with
  | some v, some p => (match Dec.parse v with | some q => Dec.eqv p q | none => false)
  | _, _ => false

/-- remaining size of the ask under `id` (0 when it is not on the book) -/
def askSizeAt (s : State) (id : String) : Nat :=
  match s.asks.get? id with
  | some a => a.size
  | none => 0

/-- unfilled size of the bid under `id` (0 when it is not on the book) -/
def bidRemAt (s : State) (id : String) : Nat :=
  match loadBid s id with
  | some b => b.remBase
  | none => 0

/-- the reported `reverse_size` is the size actually taken off the ask -/
def askReverseAttrOK (s s' : State) (id : String) (attrs : List (String × String)) : Bool :=
  match s.asks.get? id with
  | some a => numAttr attrs "reverse_size" == some (a.size - askSizeAt s' id)
  | none => false

/-- the reported `reverse_size` is the size actually taken off the bid -/
def bidReverseAttrOK (s s' : State) (id : String) (attrs : List (String × String)) : Bool :=
  match loadBid s id with
  | some b => numAttr attrs "reverse_size" == some (b.remBase - bidRemAt s' id)
  | none => false

/-- the attributes of an accepted response are truthful -/
def C17_attrsOK (s : State) (c : Call) (r : Response) (s' : State) : Bool :=
  attr? r.attrs "action" == some (actionName c.msg) &&
  (match c.msg with
   | .createAsk id _ _ price size =>
     attr? r.attrs "id" == some id && attr? r.attrs "price" == some price &&
     numAttr r.attrs "size" == some size &&
     (match s'.asks.get? id with
      | some a => attr? r.attrs "class" == some (classJson a.cls)
      | none => false)
   | .createBid id _ _ price _ _ size =>
     attr? r.attrs "id" == some id && attr? r.attrs "price" == some price &&
     numAttr r.attrs "size" == some size
   | .approveAsk id _ _ =>
     attr? r.attrs "id" == some id &&
     (match s'.asks.get? id with
      | some a => attr? r.attrs "class" == some (classJson a.cls) &&
                  attr? r.attrs "price" == some a.price && numAttr r.attrs "size" == some a.size
      | none => false)
   | .cancelAsk id => attr? r.attrs "id" == some id
   | .cancelBid id =>
     attr? r.attrs "id" == some id &&
     bidReverseAttrOK s s' id r.attrs &&
     attr? r.attrs "order_open" == some (if (s'.bids.get? id).isSome then "true" else "false")
   | .expireBid id =>
     attr? r.attrs "id" == some id &&
     bidReverseAttrOK s s' id r.attrs &&
     attr? r.attrs "order_open" == some (if (s'.bids.get? id).isSome then "true" else "false")
   | .rejectBid id _ =>
     attr? r.attrs "id" == some id &&
     bidReverseAttrOK s s' id r.attrs &&
     attr? r.attrs "order_open" == some (if (s'.bids.get? id).isSome then "true" else "false")
   | .expireAsk id =>
     attr? r.attrs "id" == some id &&
     askReverseAttrOK s s' id r.attrs &&
     attr? r.attrs "order_open" == some (if (s'.asks.get? id).isSome then "true" else "false")
   | .rejectAsk id _ =>
     attr? r.attrs "id" == some id &&
     askReverseAttrOK s s' id r.attrs &&
     attr? r.attrs "order_open" == some (if (s'.asks.get? id).isSome then "true" else "false")
   | .executeMatch askId bidId price size =>
     attr? r.attrs "ask_id" == some askId && attr? r.attrs "bid_id" == some bidId &&
     numAttr r.attrs "size" == some size && priceAttrEq r.attrs price &&
     (match s.asks.get? askId, loadBid s bidId with
      | some a, some b =>
        -- sizes really executed
        (a.size - askSizeAt s' askId) == size &&
        (b.remBase - bidRemAt s' bidId) == size &&
        -- fees really paid
        (match numAttr r.attrs "ask_fee", numAttr r.attrs "bid_fee" with
         | some af, some bf =>
           -- the attributes must agree with the fee amounts C02 requires to be paid
           (match matchAmounts s a b price size with
            | some m => af == m.askFee && bf == m.bidFee
            | none => false)
         | _, _ => false)
      | _, _ => false)
   | .modify _ _ _ _ _ _ _ _ => true)

/-- C17, fees of a match: what the response reports as `ask_fee` / `bid_fee` was really paid to
    the configured fee accounts (a non-zero reported fee without a configured account, or
    without a payment of at least that amount to it, is an untruthful report) -/
def C17_feesPaidOK (contract : String) (s : State) (bidId : String) (r : Response) : Bool :=
  match loadBid s bidId, numAttr r.attrs "ask_fee", numAttr r.attrs "bid_fee" with
  | some b, some af, some bf =>
    (af == 0 ||
      (match s.info.askFee with
       | some fi => decide (credit contract r.msgs fi.account b.quote.denom ≥ af)
       | none => false)) &&
    (bf == 0 ||
      (match s.info.bidFee with
       | some fi => decide (credit contract r.msgs fi.account ((b.fee.map (·.denom)).getD b.quote.denom) ≥ bf)
       | none => false))
  | _, _, _ => false

/-! ### attribute-driven shadow book (C17) -/

inductive ShadowCls | basic | pending | ready
  deriving Repr, DecidableEq

structure Shadow where
  asks : List (String × Nat × ShadowCls)
  bids : List (String × Nat)
  deriving Repr, DecidableEq

def isInfix (needle hay : List Char) : Bool :=
  match hay with
  | [] => needle.isEmpty
  | _ :: t => needle.isPrefixOf hay || isInfix needle t

def classOfJson (v : String) : ShadowCls :=
  if isInfix "Ready".toList v.toList then .ready
  else if isInfix "PendingIssuerApproval".toList v.toList then .pending
  else .basic

def Shadow.setAsk (sh : Shadow) (k : String) (v : Nat × ShadowCls) : Shadow :=
  { sh with asks := Book.set sh.asks k v }
def Shadow.setBid (sh : Shadow) (k : String) (v : Nat) : Shadow :=
  { sh with bids := Book.set sh.bids k v }

/-- update of an off-chain record from the attributes of one accepted response alone -/
def shadowStep (sh : Shadow) (attrs : List (String × String)) : Shadow :=
  let id := (attr? attrs "id").getD ""
  let size := (numAttr attrs "size").getD 0
  let rsize := (numAttr attrs "reverse_size").getD 0
  let open_ := attr? attrs "order_open" == some "true"
  match (attr? attrs "action").getD "" with
  | "create_ask" => sh.setAsk id (size, classOfJson ((attr? attrs "class").getD ""))
  | "create_bid" => sh.setBid id size
  | "approve_ask" =>
    (match Book.get? sh.asks id with
     | some (n, _) => sh.setAsk id (n, .ready)
     | none => sh)
  | "cancel_ask" => { sh with asks := Book.del sh.asks id }
  | "expire_ask" | "reject_ask" =>
    (match Book.get? sh.asks id with
     | some (n, c) => if open_ then sh.setAsk id (n - rsize, c) else { sh with asks := Book.del sh.asks id }
     | none => sh)
  | "cancel_bid" | "expire_bid" | "reject_bid" =>
    (match Book.get? sh.bids id with
     | some n => if open_ then sh.setBid id (n - rsize) else { sh with bids := Book.del sh.bids id }
     | none => sh)
  | "execute" =>
    let aid := (attr? attrs "ask_id").getD ""
    let bid := (attr? attrs "bid_id").getD ""
    let sh := match Book.get? sh.asks aid with
      | some (n, c) => if n - size = 0 then { sh with asks := Book.del sh.asks aid } else sh.setAsk aid (n - size, c)
      | none => sh
    match Book.get? sh.bids bid with
      | some n => if n - size = 0 then { sh with bids := Book.del sh.bids bid } else sh.setBid bid (n - size)
      | none => sh
  | _ => sh

def shadowCls : AskClass → ShadowCls
  | .basic => .basic
  | .pending => .pending
  | .ready _ _ => .ready

def askProj (a : Ask) : Nat × ShadowCls := (a.size, shadowCls a.cls)

def bidProj : BidEntry → Option Nat
  | .v3 b => some b.remBase
  | .v2 _ => none

/-- the shadow equals the projection of the real book (open ids per side, remaining sizes,
    approval state), as finite maps compared on every key of either -/
def C17_shadowOK (sh : Shadow) (s : State) : Bool :=
  ((s.asks.keys ++ Book.keys sh.asks).all fun k =>
    Book.get? sh.asks k == (s.asks.get? k).map askProj) &&
  ((s.bids.keys ++ Book.keys sh.bids).all fun k =>
    Book.get? sh.bids k == (s.bids.get? k).bind bidProj)

/-! ## converse conditions (what must be accepted) -/

def askFeePayable (info : Info) (grossD : Dec) (gross : Nat) : Bool :=
  match askFeeAmt info grossD with
  | .ok f => decide (f ≤ gross)
  | .err _ => false

def origFeeOK (b : Bid) (bf orig : Nat) : Bool :=
  match calcFee b orig with
  | .ok of_ => of_ == 0 || decide (bf ≤ of_)
  | .err _ => false

def bidFeePayable (info : Info) (b : Bid) (gross : Nat) (improved : Bool) (orig : Nat) : Bool :=
  match calcFee b gross with
  | .ok bf => (bf == 0 || info.bidFee.isSome) && (!improved || origFeeOK b bf orig)
  | .err _ => false

/-- "with the configured fees payable": the contract's own fee computations for this fill
    succeed, the ask fee does not exceed the proceeds, a bid fee has an account to go to, and
    at an improved price the fill's fee does not exceed the fee of the fill at the bid price -/
def feesPayable (info : Info) (b : Bid) (p bp : Dec) (size : Nat) : Bool :=
  match Dec.total p size with
  | .ok grossD =>
    askFeePayable info grossD grossD.trunc &&
    bidFeePayable info b grossD.trunc (Dec.lt p bp) (product bp size)
  | .err _ => false

/-- amounts within the 96-bit range of the contract's decimal arithmetic -/
def matchFits (p bp : Dec) (size : Nat) : Bool :=
  decide (size < LIM) && decide (product p size < LIM) &&
  (!Dec.lt p bp || decide (product bp size < LIM))

def C03_ready (s : State) (askId bidId price : String) (size : Nat) : Bool :=
  match s.asks.get? askId, loadBid s bidId, Dec.parse price with
  | some a, some b, some p =>
    (match Dec.parse a.price, Dec.parse b.price with
     | some ap, some bp =>
       !ap.neg && !bp.neg && matchFits p bp size && feesPayable s.info b p bp size
     | _, _ => false)
  | _, _, _ => false

def C03_mustAccept (s : State) (c : Call) (askId bidId price : String) (size : Nat) : Bool :=
  c.funds.isEmpty && isCanonicalUuid askId && isCanonicalUuid bidId && price != "" &&
  C03_conds s c.sender askId bidId price size && C03_whole s bidId price size &&
  C03_ready s askId bidId price size


def C07_askMustAccept (env : Env) (s : State) (c : Call) (id base quote price : String) (size : Nat) : Bool :=
  infoSane s.info && C07_askConds env s c id base quote price size && base != "" && quote != "" && price != "" &&
  fundsOk (env.restricted base) c.funds ⟨base, size⟩

def bidFeeFits (info : Info) (quoteSize : Nat) : Bool :=
  match bidRate info with
  | some rate => exactMul rate quoteSize && decide (exactFee rate quoteSize < LIM)
  | none => false

def C07_bidMustAccept (env : Env) (s : State) (c : Call) (id base : String) (fee : Option Coin)
    (price quote : String) (quoteSize size : Nat) : Bool :=
  infoSane s.info && C07_bidConds env s c id base fee price quote quoteSize size &&
  base != "" && quote != "" && price != "" && decide (size < LIM) && decide (quoteSize < LIM) &&
  bidFeeFits s.info quoteSize &&
  fundsOk (env.restricted quote) c.funds ⟨quote, quoteSize + feeAmt fee⟩

end Ats.Spec
