/-
  Ats.Driver — runs the model beside the implementation's trace, compares per-property
  observations, and evaluates the `Spec` predicates on the implementation's own states.
-/
import Ats.Spec
import Ats.Wire
namespace Ats.Driver
open Ats Ats.Spec

inductive CallKind
  | inst (m : InstMsg)
  | exec (c : Call)
  | probe (c : Call)     -- executed on a copy of the state: judged, never advances the history
  | attempt (c : Call)   -- executed on a copy, judged exactly like `exec` (exhaustive exploration)
  -- a request kind the contract accepts on the wire and the model has no handler for (added to
  -- the contract after the model was written): executed on a copy; must have no effect
  | other (sender : String) (funds : List Coin) (name : String)
  | mig (m : MigMsg)
  | query (q : QueryMsg)
  deriving Repr, Inhabited

inductive Delta
  | setAsk (k : String) (a : Ask)
  | delAsk (k : String)
  | setBid (k : String) (e : BidEntry)
  | delBid (k : String)
  | setInfo (i : Info)
  | setVersion (v : VersionInfo)
  | unknown (k : String)
  deriving Repr, Inhabited

structure EnvData where
  contract : String := ""
  restricted : List String := []
  attrs : Option (List String) := some []
  invalid : List String := []
  pkg : String := ""
  crate : String := ""
  deriving Repr, Inhabited

def EnvData.toEnv (e : EnvData) : Env :=
  { contract := e.contract, restricted := fun d => memS d e.restricted,
    attrs := fun _ => e.attrs, validAddr := fun a => !memS a e.invalid,
    pkgVersion := e.pkg, crateName := e.crate }

structure Pending where
  env : EnvData := {}
  call : Option CallKind := none
  res : Option String := none       -- none = not yet seen; "ok" or an error kind
  msgs : List Msg := []
  attrs : List (String × String) := []
  deltas : List Delta := []
  qout : Option QueryOut := none
  storageSame : Bool := true
  deriving Inhabited

structure DState where
  hist : String := ""
  step : Nat := 0
  st : Option State := none
  shadow : Shadow := ⟨[], []⟩
  feeTracked : Bool := true         -- history began with instantiate or a fee-exact seed
  -- an accepted request of this history computed a product that needs more than 96 bits (finding
  -- F6): the theorems' magnitude hypothesis fails from here on, and what follows in this history is
  -- the same finding – only the model/implementation comparison is kept
  tainted : Bool := false
  -- the history began at instantiation or at a seeded book that satisfies the structural
  -- invariant: every later state should (theorem `Sane_step`), so an order that cannot be
  -- exited later in such a history is the contract's doing
  startSane : Bool := false
  lastMig : Option MigMsg := none
  -- role lists as the accepted configuration requests left them (C05 is judged against
  -- these too, so a configuration change that silently fails to revoke a role is seen)
  roles : Option (List String × List String) := none
  -- bids carried over by an accepted migration from a format-changing version (C06)
  carried : List String := []
  -- what such a carried-over bid still holds according to its history (the fold over its event
  -- log at the migration, then every accepted request on it): the stored bid a later match or
  -- reversal starts from must say the same, or its payout – computed from the stored amounts –
  -- is not the escrow that history left (theorems `C06_carried_over`, `C15_convert`)
  expect : List (String × (Nat × Nat × Nat)) := []
  pend : Pending := {}
  -- counters (evidence)
  steps : Nat := 0
  oks : Nat := 0
  diffs : Nat := 0
  fails : Nat := 0
  unmodelled : Nat := 0
  evals : List (String × Nat) := []
  deriving Inhabited

def bump (l : List (String × Nat)) (k : String) : List (String × Nat) :=
  match l with
  | [] => [(k, 1)]
  | (k', n) :: t => if k' == k then (k', n + 1) :: t else (k', n) :: bump t k

def emptyState : State :=
  { info := default, version := default, asks := [], bids := [] }

def applyDelta (s : State) : Delta → State
  | .setAsk k a => { s with asks := s.asks.set k a }
  | .delAsk k => { s with asks := s.asks.del k }
  | .setBid k e => { s with bids := s.bids.set k e }
  | .delBid k => { s with bids := s.bids.del k }
  | .setInfo i => { s with info := i }
  | .setVersion v => { s with version := v }
  | .unknown _ => s

def hasUnknown (ds : List Delta) : Bool := ds.any fun d => match d with | .unknown _ => true | _ => false

/-! ### comparisons -/

def bookEq {V : Type} [BEq V] (a b : Book V) : Bool :=
  (a.all fun kv => b.get? kv.1 == some kv.2) && (b.all fun kv => a.get? kv.1 == some kv.2)

def stateEq (a b : State) : Bool :=
  a.info == b.info && a.version == b.version && bookEq a.asks b.asks && bookEq a.bids b.bids

def count {α : Type} [BEq α] (x : α) (l : List α) : Nat := (l.filter (· == x)).length

def multisetEq {α : Type} [BEq α] (a b : List α) : Bool :=
  a.length == b.length && a.all fun x => count x a == count x b

/-- response attributes that are part of C17's observation -/
def obsKeys : List String :=
  ["action", "id", "ask_id", "bid_id", "reverse_size", "order_open", "size", "ask_fee", "bid_fee", "class"]

def attrsObsEq (m i : List (String × String)) : Bool :=
  (obsKeys.all fun k => attr? m k == attr? i k) &&
  (match attr? m "price", attr? i "price" with
   | some a, some b =>
     (match Dec.parse a, Dec.parse b with
      | some p, some q => Dec.eqv p q
      | _, _ => a == b)
   | none, none => true
   | _, _ => false)

/-! ### which properties observe which difference -/

/-- the property whose theorems describe the handler of a request kind: a difference between
    model and implementation in accept/refuse, messages or resulting state of such a request
    breaks the tie between those theorems and the code.  The cross-cutting properties (C01,
    C05, C09, C10, C11, C17) are decided by their predicates on the implementation's own data,
    never by a difference alone. -/
def execKindProps : ExecMsg → List String
  | .executeMatch _ _ _ _ => ["C02", "C03"]
  | .cancelAsk _ => ["C04"]
  | .expireAsk _ => ["C04"]
  | .rejectAsk _ _ => ["C04"]
  | .cancelBid _ => ["C04"]
  | .expireBid _ => ["C04"]
  | .rejectBid _ _ => ["C04"]
  | .createAsk _ _ _ _ _ => ["C07"]
  | .createBid _ _ _ _ _ _ _ => ["C07"]
  | .approveAsk _ _ _ => ["C08"]
  | .modify _ _ _ _ _ _ _ _ => ["C12"]

def acceptProps (m : ExecMsg) : List String :=
  match m with
  | .executeMatch _ _ _ _ => ["C03"]
  | _ => execKindProps m
def msgProps (m : ExecMsg) : List String :=
  match m with
  | .executeMatch _ _ _ _ => ["C02"]
  | _ => execKindProps m
def stateProps (m : ExecMsg) : List String :=
  match m with
  | .executeMatch _ _ _ _ => ["C02"]
  | _ => execKindProps m

def unmodelledCall : CallKind → Bool
  | .exec c | .probe c | .attempt c =>
    (match c.msg with
     | .createAsk _ _ _ p _ => Dec.isUnmodelled p
     | .createBid _ _ _ p _ _ _ => Dec.isUnmodelled p
     | .executeMatch _ _ p _ => Dec.isUnmodelled p
     | .modify _ _ ar _ br _ _ _ =>
        (match ar with | some r => Dec.isUnmodelled r | none => false) ||
        (match br with | some r => Dec.isUnmodelled r | none => false)
     | _ => false)
  | .inst m =>
     (match m.askRate with | some r => Dec.isUnmodelled r | none => false) ||
     (match m.bidRate with | some r => Dec.isUnmodelled r | none => false)
  | .mig m =>
     (match m.askRate with | some r => Dec.isUnmodelled r | none => false) ||
     (match m.bidRate with | some r => Dec.isUnmodelled r | none => false)
  | .query _ => false
  | .other _ _ _ => false

/-! ### per-step judgement -/

structure Verdict where
  diffs : List (String × List String) := []      -- (what, properties)
  fails : List (String × String) := []           -- (property, what)
  evald : List String := []                      -- predicates evaluated (evidence)
  deriving Inhabited

def Verdict.diff (v : Verdict) (what : String) (props : List String) : Verdict :=
  { v with diffs := v.diffs ++ [(what, props)] }
def Verdict.check (v : Verdict) (prop name : String) (ok : Bool) : Verdict :=
  { v with evald := name :: v.evald,
           fails := if ok then v.fails else v.fails ++ [(prop, name)] }

def denomsOf (contract : String) (s s' : State) (c : Call) (r : Response) : List String :=
  (c.funds.map (·.denom)) ++ msgDenoms contract r.msgs ++ [s.info.baseDenom] ++ s.info.quotes ++
  s.info.convertible ++ (s'.asks.map (·.2.base)) ++ (s.asks.map (·.2.base))

/-- C09, ask side, on one accepted match: the ask fee reported (and paid to the ask-fee
    account) is the configured rate × executed gross, halves away from zero -/
def C09_askFeeOK (contract : String) (s : State) (bidId price : String) (size : Nat) (r : Response) : Bool :=
  match loadBid s bidId, Dec.parse price with
  | some b, some p =>
    let fee := askFeeExact s.info (product p size)
    numAttr r.attrs "ask_fee" == some fee &&
    (fee == 0 ||
      (match s.info.askFee with
       | some fi => decide (credit contract r.msgs fi.account b.quote.denom ≥ fee)
       | none => false))
  | _, _ => false

/-- keys of the old-format bids an accepted migration had to convert -/
def carriedKeys (s : State) : List String :=
  if inWindow s then
    s.bids.filterMap fun kv => match kv.2 with | .v2 _ => some kv.1 | .v3 _ => none
  else []

/-- the magnitude hypothesis (`ExactStep`, and `exactMul` at bid entry) of one request -/
def exactStepB (s : State) (m : ExecMsg) : Bool :=
  match m with
  | .executeMatch _ b p sz =>
    (match loadBid s b, Dec.parse p with
     | some bb, some pp =>
       exactMul pp sz && (match Dec.parse bb.price with | some bp => exactMul bp sz | none => false) &&
       (match s.info.askFee with
        | some fi => (match Dec.parse fi.rate with | some r => exactMul r (product pp sz) | none => true)
        | none => true)
     | _, _ => false)
  | .createBid _ _ _ price _ qs size =>
    (match Dec.parse price, bidRate s.info with
     | some p, some rate => exactMul p size && exactMul rate qs
     | _, _ => false)
  | _ => true

/-- oracles for one accepted execute step on the implementation's data -/
def judgeAccepted (env : Env) (s : State) (c : Call) (r : Response) (s' : State) (feeTracked : Bool)
    (v : Verdict) : Verdict :=
  let ct := env.contract
  let v := (denomsOf ct s s' c r).eraseDups.foldl
    (fun v d => v.check "C01" ("C01_denomOK:" ++ d) (C01_denomOK ct s c r s' d)) v
  let v := v.check "C05" "authorized" (authorized s c.sender c.msg)
  let v := v.check "C10" "C10_msgsOK" (C10_msgsOK env c r)
  let v := v.check "C11" "C11_frameOK" (C11_frameOK s c.msg s')
  let exactStep := match c.msg with
    | .executeMatch _ b p sz =>
      (match loadBid s b, Dec.parse p with
       | some bb, some pp =>
         exactMul pp sz && (match Dec.parse bb.price with | some bp => exactMul bp sz | none => false) &&
         (match s.info.askFee with
          | some fi => (match Dec.parse fi.rate with | some r => exactMul r (product pp sz) | none => true)
          | none => true)
       | _, _ => false)
    | .createBid _ _ _ price _ qs size =>
      (match Dec.parse price, bidRate s.info with
       | some p, some rate => exactMul p size && exactMul rate qs
       | _, _ => false)
    | _ => true
  let v := if sane s then v.check "C11" (if exactStep then "sane" else "sane_inexact") (sane s') else v
  let v := if sane s then v.check "C08" "C08_readyTracks" (C08_readyTracks s') else v
  -- an order with nothing left must have left the book (else queries keep reporting it)
  let v := v.check "C16" "C16_closedInvisible"
    ((s'.asks.all fun kv => decide (kv.2.size > 0)) &&
     (s'.bids.all fun kv => match kv.2 with | .v3 b => decide (b.remBase > 0) | .v2 _ => true))
  -- for a match the reported fees are compared with exact arithmetic: only under the magnitude
  -- hypothesis of `C17_truthful` (that they were really paid is checked unconditionally below)
  let isMatch := match c.msg with | .executeMatch _ _ _ _ => true | _ => false
  let v := if isMatch && !exactStep then v else v.check "C17" "C17_attrsOK" (C17_attrsOK s c r s')
  -- (judged from configurations whose stored rates parse, as every configuration written by the
  -- contract does: the theorem's hypothesis `infoSane`)
  let v := if infoSane s.info then v.check "C12" "C12_modifyOK" (C12_modifyOK s c.msg s') else v
  let v := if feeTracked && feeExact s then
      let v := v.check "C09" "feeExact" (feeExact s')
      s'.bids.foldl (fun v kv =>
        if C09_small kv.2 then v.check "C09" "C09_bidNear" (C09_bidNear kv.2)
        else v.check "C09" "C09_bidNear_large" (C09_bidNear kv.2)) v
    else v
  match c.msg with
  | .executeMatch a b p sz =>
    let v := v.check "C03" "C03_conds" (C03_conds s c.sender a b p sz)
    -- the magnitude hypothesis of the theorems (`ExactMatch`): price × size at the execution and at
    -- the bid price, and ask rate × gross, are all computed without rounding inside `checked_mul`
    let exact := match loadBid s b, Dec.parse p with
      | some bb, some pp =>
        exactMul pp sz && (match Dec.parse bb.price with | some bp => exactMul bp sz | none => false) &&
        (match s.info.askFee with
         | some fi => (match Dec.parse fi.rate with | some r => exactMul r (product pp sz) | none => true)
         | none => true)
      | _, _ => false
    let v := if exact then v.check "C03" "C03_whole" (C03_whole s b p sz)
             else v.check "C03" "C03_whole_inexact" (C03_whole s b p sz)
    let v := if exact then v.check "C09" "C09_askFeeOK" (C09_askFeeOK ct s b p sz r) else v
    -- C09 "over the bid's life the fees add up": what leaves the bid's quote + fee holdings on
    -- this match (all of them when the match closes it) is what the contract pays out in the
    -- quote denomination – fee to the fee account, fee share returned with a price improvement
    -- (theorem `C09_fee_leaves`)
    let v := if exact then v.check "C09" "C09_feeLeavesWithFill" (C09_feeLeavesOK ct s c a b r s') else v
    let v := v.check "C17" "C17_feesPaidOK" (C17_feesPaidOK ct s b r)
    -- C09: the fees charged on a fill really go to the fee accounts (same predicate, theorem
    -- `C17_fees_paid`, no hypothesis)
    let v := v.check "C09" "C09_feesReachAccounts" (C17_feesPaidOK ct s b r)
    if exact then v.check "C02" "C02_matchOK" (C02_matchOK ct s a b p sz r s')
    else v.check "C02" "C02_matchOK_inexact" (C02_matchOK ct s a b p sz r s')
  | .cancelAsk id =>
    let v := v.check "C04" "C04_askOK" (C04_askOK ct s id none r s')
    let v := if sane s then v.check "C08" "C08_releaseOK" (C08_releaseOK ct s id r s') else v
    -- what get-ask reports (the stored order) is what this cancel returns
    let v := v.check "C16" "C16_cancelReturnsReported" (C06_askExitOK ct s id r s')
    v.check "C06" "C06_askExitOK" (C06_askExitOK ct s id r s')
  | .expireAsk id =>
    let v := v.check "C04" "C04_askOK" (C04_askOK ct s id none r s')
    let v := if sane s then v.check "C08" "C08_releaseOK" (C08_releaseOK ct s id r s') else v
    v.check "C06" "C06_askExitOK" (C06_askExitOK ct s id r s')
  | .rejectAsk id sz =>
    let v := if sane s then v.check "C08" "C08_releaseOK" (C08_releaseOK ct s id r s') else v
    v.check "C04" "C04_askOK" (C04_askOK ct s id sz r s')
  | .cancelBid id =>
    let v := v.check "C04" "C04_bidOK" (C04_bidOK ct s id none r s')
    let v := v.check "C16" "C16_cancelReturnsReported" (C06_bidExitOK ct s id r s')
    v.check "C06" "C06_bidExitOK" (C06_bidExitOK ct s id r s')
  | .expireBid id =>
    let v := v.check "C04" "C04_bidOK" (C04_bidOK ct s id none r s')
    v.check "C06" "C06_bidExitOK" (C06_bidExitOK ct s id r s')
  | .rejectBid id sz => v.check "C04" "C04_bidOK" (C04_bidOK ct s id sz r s')
  | .createAsk id base quote price size =>
    v.check "C07" "C07_askOK" (C07_askOK env s c id base quote price size r s')
  | .createBid id base fee price quote qs size =>
    let exact := match Dec.parse price, bidRate s.info with
      | some p, some rate => exactMul p size && exactMul rate qs
      | _, _ => false
    let v := if exact then v.check "C09" "C09_entryOK" (C09_entryOK s fee price quote qs size) else v
    if exact then v.check "C07" "C07_bidOK" (C07_bidOK env s c id base fee price quote qs size r s')
    else v.check "C07" "C07_bidOK_inexact" (C07_bidOK env s c id base fee price quote qs size r s')
  | .approveAsk id base size =>
    v.check "C08" "C08_approveOK" (C08_approveOK env s c id base size r s')
  | .modify _ _ _ _ _ _ _ _ => v

/-- oracles for a refused execute step -/
def judgeRefused (env : Env) (s : State) (c : Call) (isProbe : Bool) (startSane : Bool) (carried : List String)
    (v : Verdict) : Verdict :=
  match c.msg with
  | .executeMatch a b p sz =>
    v.check "C03" "C03_mustAccept" (!C03_mustAccept s c a b p sz)
  | .createAsk id base quote price size =>
    v.check "C07" "C07_askMustAccept" (!C07_askMustAccept env s c id base quote price size)
  | .createBid id base fee price quote qs size =>
    v.check "C07" "C07_bidMustAccept" (!C07_bidMustAccept env s c id base fee price quote qs size)
  | .cancelAsk id =>
    if isProbe && (sane s || startSane) then
      let live := !(match s.asks.get? id with | some a => a.owner == c.sender && c.funds.isEmpty | none => false)
      let v := v.check "C16" "C16_reportedOrderCancellable" live
      v.check "C06" "C06_cancelAsk_live" live
    else v
  | .cancelBid id =>
    let v := if isProbe && memS id carried then
        -- a bid carried over by an accepted migration must be cancellable by its owner
        v.check "C06" "C06_carriedOver_live"
          (match s.bids.get? id with | some (.v2 _) => !c.funds.isEmpty | _ => true) else v
    if isProbe && (sane s || startSane) then
      let live := !(match loadBid s id with | some b => b.owner == c.sender && c.funds.isEmpty | none => false)
      -- the order a query reports cannot be cancelled: what is reported is not what a cancel acts on
      let v := v.check "C16" "C16_reportedOrderCancellable" live
      v.check "C06" "C06_cancelBid_live" live
    else v
  | .expireAsk id =>
    if isProbe && (sane s || startSane) then
      v.check "C06" "C06_expireAsk_live"
        (!((s.asks.get? id).isSome && memS c.sender s.info.executors && c.funds.isEmpty))
    else v
  | .expireBid id =>
    if isProbe && (sane s || startSane) then
      v.check "C06" "C06_expireBid_live"
        (!((loadBid s id).isSome && memS c.sender s.info.executors && c.funds.isEmpty))
    else v
  | _ => v

def resOk (r : Option String) : Bool := r == some "ok"

/-- judge one complete step; returns the verdict and the state to continue from -/
def judge (d : DState) : Verdict × DState :=
  let p := d.pend
  let env := p.env.toEnv
  let implOk := resOk p.res
  let implResp : Response := ⟨p.msgs, p.attrs⟩
  match p.call with
  | none => ({}, d)
  | some call =>
  if unmodelledCall call then
    -- outside the model's domain: adopt the implementation's state, judge nothing
    let s0 := d.st.getD emptyState
    let s' := if implOk then p.deltas.foldl applyDelta s0 else s0
    let keep := match call with | .probe _ | .attempt _ | .query _ => d.st | _ => some s'
    -- the attribute-driven shadow and the requested role lists are independent of the model:
    -- keep them in step so that later steps of this history are judged from the right state
    let sh' := match call with
      | .exec _ => if implOk then shadowStep d.shadow implResp.attrs else d.shadow
      | _ => d.shadow
    let roles' := match call with
      | .exec c =>
        (match d.roles, c.msg with
         | some (aps, exs), .modify ap ex _ _ _ _ _ _ =>
           if implOk then some (ap.getD aps, ex.getD exs) else d.roles
         | r, _ => r)
      | .inst m => if implOk then some (m.approvers, m.executors) else d.roles
      | _ => d.roles
    ({ diffs := [("UNMODELLED", [])] },
     { d with st := keep, shadow := sh', roles := roles', feeTracked := false,
              unmodelled := d.unmodelled + 1, expect := [] })
  else
  match call with
  | .inst m =>
    let s' := p.deltas.foldl applyDelta emptyState
    let v : Verdict := {}
    let v := match instantiate env m with
      | .ok (ms, _) =>
        if !implOk then v.diff "accept:model-ok/impl-err" ["C13"]
        else if !stateEq ms s' then v.diff "state" ["C13"] else v
      | .err _ => if implOk then v.diff "accept:model-err/impl-ok" ["C13"] else v
    let v := if implOk then
        let v := v.check "C13" "coherent" (coherent env m)
        let v := v.check "C13" "C13_stored" (C13_stored env m s')
        v.check "C13" "unknownKeys" (!hasUnknown p.deltas)
      else
        let v := v.check "C13" "coherent_refused" (!coherent env m)
        if p.deltas.isEmpty then v else v.check "C13" "refused_changes_nothing" false
    (v, { d with st := if implOk then some s' else d.st,
                 shadow := ⟨[], []⟩, feeTracked := true, startSane := if implOk then true else d.startSane,
                 roles := if implOk then some (m.approvers, m.executors) else d.roles })
  | .exec c | .probe c | .attempt c =>
    let isProbe := match call with | .probe _ => true | _ => false
    let noAdvance := match call with | .exec _ => false | _ => true
    match d.st with
    | none => ({}, d)
    | some s =>
      let s' := if implOk then p.deltas.foldl applyDelta s else s
      let v : Verdict := {}
      let v := match execute env s c with
        | .ok (ms, mr) =>
          if !implOk then v.diff ("accept:model-ok/impl-err:" ++ (p.res.getD "?")) (acceptProps c.msg ++ (if isProbe then ["C06"] else []))
          else
            -- who is paid how much of what (the mechanism is C10's business, decided by its
            -- own predicate on the implementation's messages)
            let flows := fun (ms : List Msg) => ms.map (flowOf env.contract)
            let v := if multisetEq (flows mr.msgs) (flows implResp.msgs) then v
                     else v.diff "msgs" (msgProps c.msg ++ (if isProbe then ["C06"] else []))
            let v := if stateEq ms s' then v else v.diff "state" (stateProps c.msg)
            if attrsObsEq mr.attrs implResp.attrs then v else v.diff "attrs" ["C17"]
        | .err e =>
          if implOk then v.diff ("accept:model-err/impl-ok:" ++ e.name) (acceptProps c.msg ++ (if isProbe then ["C06"] else []))
          else v
      let v := if d.tainted then v else if implOk then
          let v := judgeAccepted env s c implResp s' d.feeTracked v
          let v := match d.roles with
            | some (aps, exs) =>
              v.check "C05" "C05_rolesAsRequested"
                (authorized { s with info := { s.info with approvers := aps, executors := exs } } c.sender c.msg)
            | none => v
          let v := v.check "C11" "unknownKeys" (!hasUnknown p.deltas)
          let fromHistory := fun (v : Verdict) (prop id : String) =>
            match d.expect.lookup id, loadBid s id with
            | some e, some b => v.check prop (prop ++ "_carriedEscrowFromHistory") ((b.remBase, b.remQuote, b.remFee) == e)
            | _, _ => v
          (match c.msg with
           | .cancelBid id | .expireBid id | .rejectBid id _ => fromHistory v "C04" id
           | .executeMatch _ b _ _ => fromHistory v "C02" b
           | _ => v)
        else judgeRefused env s c isProbe d.startSane d.carried v
      -- a refused request must not have written anything (the harness reports what a refused call
      -- left in storage before the rollback it emulates)
      let v := if !implOk && !p.deltas.isEmpty then
          (acceptProps c.msg ++ (if authorized s c.sender c.msg then [] else ["C05"]) ++ ["C11"]).eraseDups.foldl
            (fun (v : Verdict) (pr : String) => v.check pr "refused_changes_nothing" false) v
        else v
      let roles' := match d.roles, c.msg with
        | some (aps, exs), .modify ap ex _ _ _ _ _ _ =>
          if implOk && !isProbe then some (ap.getD aps, ex.getD exs) else d.roles
        | r, _ => r
      let sh' := if implOk && !isProbe then shadowStep d.shadow implResp.attrs else d.shadow
      let v := if implOk && !isProbe && !d.tainted then v.check "C17" "C17_shadowOK" (C17_shadowOK sh' s') else v
      let touched : Option String := match c.msg with
        | .cancelBid id | .expireBid id | .rejectBid id _ => some id
        | .executeMatch _ b _ _ => some b
        | _ => none
      let expect' := match touched with
        | some id =>
          if !implOk then d.expect else
          (match d.expect.lookup id, loadBid s id, loadBid s' id with
           | some e, some b, some b' =>
             -- consistent so far: follow the order; otherwise reported once, then dropped
             if (b.remBase, b.remQuote, b.remFee) == e then
               (d.expect.filter (·.1 != id)) ++ [(id, (b'.remBase, b'.remQuote, b'.remFee))]
             else d.expect.filter (·.1 != id)
           | _, _, _ => d.expect.filter (·.1 != id))
        | none => d.expect
      if noAdvance then (v, d)
      else (v, { d with st := some s', shadow := sh', lastMig := if implOk then none else d.lastMig,
                        roles := roles', tainted := d.tainted || (implOk && !exactStepB s c.msg),
                        expect := expect' })
  | .mig m =>
    match d.st with
    | none => ({}, d)
    | some s =>
      let s' := if implOk then p.deltas.foldl applyDelta s else s
      let v : Verdict := {}
      let v := match migrate env s m with
        | .ok (ms, _) =>
          if !implOk then v.diff "accept:model-ok/impl-err" ["C14", "C15"]
          else if !stateEq ms s' then v.diff "state" ["C14", "C15"] else v
        | .err _ => if implOk then v.diff "accept:model-err/impl-ok" ["C14", "C15"] else v
      let v := if implOk then
          let v := v.check "C14" "C14_migrateOK" (C14_migrateOK env s m s')
          let v := v.check "C15" "C15_bidsOK" (C15_bidsOK s s')
          let v := v.check "C06" "C06_carriedOver_converted"
            ((carriedKeys s).all fun k => match s'.bids.get? k with | some (.v3 _) => true | _ => false)
          let v := v.check "C14" "unknownKeys" (!hasUnknown p.deltas)
          -- a migration moves no funds, so what the book owes (old-format bids counted by the fold
          -- over their event log) must be the same before and after, in every denomination
          let bidDenom : String × BidEntry → String := fun kv =>
            match kv.2 with | .v3 b => b.quote.denom | .v2 b => b.quote.denom
          let ds : List String :=
            ([s.info.baseDenom] ++ s.info.quotes ++ s.info.convertible ++ s.bids.map bidDenom).eraseDups
          let v := ds.foldl (fun (v : Verdict) (d : String) =>
            v.check "C01" "C01_migrate_owed" (owedAny s' d == owedAny s d)) v
          let v := v.check "C01" "C01_migrate_nomsgs" implResp.msgs.isEmpty
          let v := v.check "C09" "C09_migrateFeeOK" (C09_migrateFeeOK s s')
          if d.lastMig == some m then v.check "C14" "C14_idempotent" (stateEq s s') else v
        else v.check "C14" "C14_gate" true
      let v := if !implOk && !p.deltas.isEmpty then v.check "C14" "refused_changes_nothing" false else v
      -- the shadow restarts from the migrated book (attributes do not describe migrations)
      let sh : Shadow :=
        ⟨s'.asks.map (fun kv => (kv.1, kv.2.size, shadowCls kv.2.cls)),
         s'.bids.filterMap (fun kv => match kv.2 with | .v3 b => some (kv.1, b.remBase) | .v2 _ => none)⟩
      let roles' := match d.roles with
        | some (aps, exs) => if implOk then some (m.approvers.getD aps, exs) else d.roles
        | none => none
      (v, { d with st := some s', shadow := sh, lastMig := if implOk then some m else d.lastMig,
                   roles := roles', carried := if implOk then d.carried ++ carriedKeys s else d.carried,
                   expect := if implOk && inWindow s then
                       d.expect ++ s.bids.filterMap (fun kv => match kv.2 with
                         | .v2 old => some (kv.1, v2Remaining old) | .v3 _ => none)
                     else d.expect })
  | .other sender funds name =>
    -- every theorem quantifies over the modelled request kinds; a request kind outside them is
    -- covered by none.  Harmless as long as it has no effect; an accepted one that moves funds or
    -- writes the book / the configuration breaks the tie between the theorems and the code for
    -- the properties that speak about what it touched, and the generic oracles say which of
    -- them fails outright on this very request.
    match d.st with
    | none => ({}, d)
    | some s =>
      let v : Verdict := {}
      let v := if !implOk then
          (if p.deltas.isEmpty then v.check "C11" "unmodelled_request_refused" true
           else (v.check "C11" "refused_changes_nothing" false).check "C05" "refused_changes_nothing" false)
        else if p.deltas.isEmpty && implResp.msgs.isEmpty && funds.isEmpty then v.check "C11" "unmodelled_request_inert" true
        else
          let s' := p.deltas.foldl applyDelta s
          let c : Call := { sender := sender, funds := funds, msg := .cancelAsk "" }
          let bookSame := bookEq s.asks s'.asks && bookEq s.bids s'.bids
          let touched : List String :=
            (if implResp.msgs.isEmpty then [] else ["C01"]) ++
            (if bookSame then [] else ["C11"]) ++
            (if s'.info == s.info then [] else ["C12"]) ++
            (if s'.version == s.version then [] else ["C14"]) ++
            -- (funds kept by a request that does nothing else are stranded: C01 only)
            (if p.deltas.isEmpty && implResp.msgs.isEmpty then ["C01"] else ["C05"])
          let v := v.diff ("unmodelled-entry-point:" ++ name) touched.eraseDups
          let v := (denomsOf env.contract s s' c implResp).eraseDups.foldl
            (fun v dn => v.check "C01" ("C01_denomOK:" ++ dn) (C01_denomOK env.contract s c implResp s' dn)) v
          let v := v.check "C10" "C10_msgsOK" (C10_msgsOK env c implResp)
          let v := if sane s then v.check "C11" "sane" (sane s') else v
          let v := v.check "C11" "C11_frameOK" (bookSame && s'.version == s.version)
          -- whatever kind of request changes the configuration: market parameters never move, a
          -- side's fee rate and required attributes not while it has an open order, no approver is
          -- dropped while any order is open, the role lists never become empty
          let i := s.info
          let i' := s'.info
          let v := v.check "C12" "C12_configFrozen"
            (marketSame i i' &&
             (s.asks.isEmpty || (sameRate i.askFee i'.askFee && i'.askAttrs == i.askAttrs)) &&
             (s.bids.isEmpty || (sameRate i.bidFee i'.bidFee && i'.bidAttrs == i.bidAttrs)) &&
             ((s.asks.isEmpty && s.bids.isEmpty) || subsetS i.approvers i'.approvers) &&
             (i' == i || (!i'.approvers.isEmpty && !i'.executors.isEmpty)))
          -- nobody but an executor operates on the book or the configuration
          if p.deltas.isEmpty && implResp.msgs.isEmpty then v
          else v.check "C05" "C05_unmodelled_effect" (memS sender s.info.executors)
      (v, d)
  | .query q =>
    match d.st with
    | none => ({}, d)
    | some s =>
      let v : Verdict := {}
      let mo := (query s q).toOption
      let io := if implOk then p.qout else none
      let v := if mo == io then v else v.diff "query" ["C16"]
      let v := v.check "C16" "C16_queryOK" (C16_queryOK s q io)
      let v := v.check "C16" "C16_readonly" p.storageSame
      (v, d)

end Ats.Driver
