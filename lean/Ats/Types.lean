/-
  Ats.Types — state, requests, responses.
-/
import Ats.Dec
import Ats.Ids
namespace Ats

structure Coin where
  denom : String
  amount : Nat
  deriving Repr, DecidableEq, Inhabited

inductive AskClass
  | basic
  | pending
  | ready (approver : String) (conv : Coin)
  deriving Repr, DecidableEq, Inhabited

structure Ask where
  id : String
  owner : String
  cls : AskClass
  base : String
  quote : String
  price : String
  size : Nat
  deriving Repr, DecidableEq, Inhabited

/-- `BidOrderV3` -/
structure Bid where
  base : Coin
  accBase : Nat
  accQuote : Nat
  accFee : Nat
  fee : Option Coin
  id : String
  owner : String
  price : String
  quote : Coin
  deriving Repr, DecidableEq, Inhabited

/-- `common::Action` (block info of the enclosing event is irrelevant to every property) -/
inductive Action
  | fill (base : Coin) (fee : Option Coin) (price : String) (quote : Coin)
  | refund (fee : Option Coin) (quote : Coin)
  | reject (base : Coin) (fee : Option Coin) (quote : Coin)
  deriving Repr, DecidableEq, Inhabited

/-- `BidOrderV2` -/
structure BidV2 where
  base : Coin
  events : List Action
  fee : Option Coin
  id : String
  owner : String
  price : String
  quote : Coin
  deriving Repr, DecidableEq, Inhabited

/-- what can sit under the `bid` storage prefix -/
inductive BidEntry
  | v3 (b : Bid)
  | v2 (b : BidV2)
  deriving Repr, DecidableEq, Inhabited

structure FeeInfo where
  account : String
  rate : String
  deriving Repr, DecidableEq, Inhabited

/-- `ContractInfoV3` -/
structure Info where
  name : String
  bindName : String
  baseDenom : String
  convertible : List String
  quotes : List String
  approvers : List String
  executors : List String
  askFee : Option FeeInfo
  bidFee : Option FeeInfo
  askAttrs : List String
  bidAttrs : List String
  precision : Nat
  increment : Nat
  deriving Repr, DecidableEq, Inhabited

/-- `VersionInfoV1` -/
structure VersionInfo where
  definition : String
  version : String
  deriving Repr, DecidableEq, Inhabited

structure State where
  info : Info
  version : VersionInfo
  asks : Book Ask
  bids : Book BidEntry
  deriving Repr, Inhabited

/-- chain state visible to one call; may differ from call to call -/
structure Env where
  contract : String
  restricted : String → Bool                 -- marker query answers marker_type = Restricted
  attrs : String → Option (List String)      -- attribute names of an account; none = query fails
  validAddr : String → Bool                  -- deps.api.addr_validate succeeds
  pkgVersion : String
  crateName : String

inductive Msg
  | bank (to : String) (c : Coin)
  | transfer (c : Coin) (to frm admin : String)
  | other                                    -- any other CosmosMsg (the model never emits it)
  deriving Repr, DecidableEq, Inhabited

structure Response where
  msgs : List Msg
  attrs : List (String × String)
  deriving Repr, DecidableEq, Inhabited

inductive ExecMsg
  | approveAsk (id base : String) (size : Nat)
  | cancelAsk (id : String)
  | cancelBid (id : String)
  | createAsk (id base quote price : String) (size : Nat)
  | createBid (id base : String) (fee : Option Coin) (price quote : String) (quoteSize size : Nat)
  | executeMatch (askId bidId price : String) (size : Nat)
  | expireAsk (id : String)
  | expireBid (id : String)
  | rejectAsk (id : String) (size : Option Nat)
  | rejectBid (id : String) (size : Option Nat)
  | modify (approvers executors : Option (List String))
           (askRate askAcct bidRate bidAcct : Option String)
           (askAttrs bidAttrs : Option (List String))
  deriving Repr, DecidableEq, Inhabited

structure Call where
  sender : String
  funds : List Coin
  msg : ExecMsg
  deriving Repr, DecidableEq, Inhabited

structure InstMsg where
  name : String
  baseDenom : String
  convertible : List String
  quotes : List String
  approvers : List String
  executors : List String
  askRate : Option String
  askAcct : Option String
  bidRate : Option String
  bidAcct : Option String
  askAttrs : List String
  bidAttrs : List String
  precision : Nat
  increment : Nat
  deriving Repr, DecidableEq, Inhabited

structure MigMsg where
  approvers : Option (List String)
  askRate : Option String
  askAcct : Option String
  bidRate : Option String
  bidAcct : Option String
  askAttrs : Option (List String)
  bidAttrs : Option (List String)
  deriving Repr, DecidableEq, Inhabited

inductive QueryMsg
  | getAsk (id : String)
  | getBid (id : String)
  | getInfo
  | getVersion
  deriving Repr, DecidableEq, Inhabited

inductive QueryOut
  | ask (a : Ask)
  | bid (b : Bid)
  | info (i : Info)
  | version (v : VersionInfo)
  deriving Repr, DecidableEq, Inhabited

/-! ### derived amounts of a bid (truncated subtraction never matters under `Sane`; the
    handlers guard every subtraction explicitly) -/
namespace Bid
def remBase (b : Bid) : Nat := b.base.amount - b.accBase
def remQuote (b : Bid) : Nat := b.quote.amount - b.accQuote
def feeAmount (b : Bid) : Nat := match b.fee with | some f => f.amount | none => 0
def remFee (b : Bid) : Nat := b.feeAmount - b.accFee
end Bid

end Ats
