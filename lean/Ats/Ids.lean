/-
  Ats.Ids — the two id grammars (uuid 1.3.4) and the version grammar / requirement test
  (semver 1.0.17) used by the contract.  Glue: validated only by the unit streams.
-/
import Ats.Basic
namespace Ats

def isHexLower (c : Char) : Bool := c.isDigit || ('a' ≤ c && c ≤ 'f')
def isHexAny (c : Char) : Bool := c.isDigit || ('a' ≤ c && c ≤ 'f') || ('A' ≤ c && c ≤ 'F')

/-- 36 characters, hyphens at 8/13/18/23, `hex` elsewhere -/
def hyphenatedShape (hex : Char → Bool) (cs : List Char) : Bool :=
  cs.length == 36 &&
  (cs.zipIdx.all fun (c, i) =>
    if i == 8 || i == 13 || i == 18 || i == 23 then c == '-' else hex c)

/-- `is_hyphenated_uuid_str`: parses, and equals its own lower-case hyphenated rendering -/
def isCanonicalUuid (s : String) : Bool := hyphenatedShape isHexLower s.toList

/-- what `Uuid::parse_str` accepts: 32 hex; 36 hyphenated; `{hyphenated}`; `urn:uuid:` +
    hyphenated; hex digits in either case -/
def isUuidAnyForm (s : String) : Bool :=
  let cs := s.toList
  match cs.length with
  | 32 => cs.all isHexAny
  | 36 => hyphenatedShape isHexAny cs
  | 38 => cs.head? == some '{' && cs.getLast? == some '}' &&
          hyphenatedShape isHexAny ((cs.drop 1).take 36)
  | 45 => cs.take 9 == "urn:uuid:".toList && hyphenatedShape isHexAny (cs.drop 9)
  | _ => false

/-! ### semver -/

structure Version where
  major : Nat
  minor : Nat
  patch : Nat
  hasPre : Bool
  deriving Repr, DecidableEq

namespace Version

def U64MAX : Nat := 18446744073709551615

/-- leading numeric identifier: digits, no leading zero, fits `u64` -/
def numId (cs : List Char) : Option (Nat × List Char) :=
  let ds := cs.takeWhile Char.isDigit
  let rest := cs.dropWhile Char.isDigit
  if ds.isEmpty then none
  else if ds.length > 1 && ds.head? == some '0' then none
  else
    let v := ds.foldl (fun acc c => acc * 10 + (c.toNat - 48)) 0
    if v > U64MAX then none else some (v, rest)

def isIdentChar (c : Char) : Bool := c.isAlphanum || c == '-'

/-- dot-separated identifier list (pre-release or build); returns the rest -/
def identGo (pre : Bool) : List Char → List Char → Bool → Option (List Char)
  -- seg = current segment (reversed), first = no segment finished yet
  | [], seg, _ =>
      if seg.isEmpty then none
      else if pre && seg.length > 1 && seg.all Char.isDigit && seg.getLast? == some '0' then none
      else some []
  | c :: rest, seg, first =>
      if isIdentChar c then identGo pre rest (c :: seg) first
      else
        if seg.isEmpty then none
        else if pre && seg.length > 1 && seg.all Char.isDigit && seg.getLast? == some '0' then none
        else if c == '.' then identGo pre rest [] false
        else some (c :: rest)

def parse (s : String) : Option Version :=
  match numId s.toList with
  | none => none
  | some (ma, r1) =>
    match r1 with
    | '.' :: r1 =>
      match numId r1 with
      | none => none
      | some (mi, r2) =>
        match r2 with
        | '.' :: r2 =>
          match numId r2 with
          | none => none
          | some (pa, r3) =>
            match r3 with
            | [] => some ⟨ma, mi, pa, false⟩
            | '-' :: r4 =>
              match identGo true r4 [] true with
              | none => none
              | some [] => some ⟨ma, mi, pa, true⟩
              | some ('+' :: r5) =>
                match identGo false r5 [] true with
                | some [] => some ⟨ma, mi, pa, true⟩
                | _ => none
              | some _ => none
            | '+' :: r4 =>
              match identGo false r4 [] true with
              | some [] => some ⟨ma, mi, pa, false⟩
              | _ => none
            | _ => none
        | _ => none
    | _ => none

def triple (v : Version) : Nat × Nat × Nat := (v.major, v.minor, v.patch)

def tripleLt (a b : Nat × Nat × Nat) : Bool :=
  a.1 < b.1 || (a.1 == b.1 && (a.2.1 < b.2.1 || (a.2.1 == b.2.1 && a.2.2 < b.2.2)))

/-- `VersionReq::parse(">=a.b.c").matches(v)`: a version with a pre-release tag never
    matches a requirement whose comparators carry none -/
def geReq (v : Version) (a b c : Nat) : Bool := !v.hasPre && !tripleLt v.triple (a, b, c)
/-- `VersionReq::parse("<a.b.c").matches(v)` -/
def ltReq (v : Version) (a b c : Nat) : Bool := !v.hasPre && tripleLt v.triple (a, b, c)

end Version
end Ats
