/-
  Ats.Dec — value-exact model of the part of `rust_decimal` 1.29 the contract uses.

  A `Dec` is sign, 96-bit mantissa and scale (0..28): value = ± mant / 10^scale.
  Only *values* matter to the contract (it never looks at the representation except when it
  echoes a parsed price), so equality and order are by value.

  Validated against the crate by value (notes/rust_decimal_value_spec.py, 400 000 cases) and
  re-validated on every run by the unit streams of the correspondence check.
-/
import Ats.Basic
namespace Ats

/-- 2^96: mantissas are below this -/
def LIM : Nat := 79228162514264337593543950336

structure Dec where
  neg : Bool
  mant : Nat
  scale : Nat
  deriving Repr, DecidableEq, Inhabited

namespace Dec

def ofNat (n : Nat) : Dec := ⟨false, n, 0⟩

/-- `Decimal::from(u128)` / `from_u128(..).unwrap()`: panics from 2^96 on -/
def fromU128 (n : Nat) : Res Dec := if n < LIM then .ok (ofNat n) else .err .panic

def isZero (d : Dec) : Bool := d.mant == 0

/-- `is_sign_negative`: the sign bit (never set on a parsed zero) -/
def isNeg (d : Dec) : Bool := d.neg

/-- signed numerator of `a` over the common denominator `10^(a.scale + b.scale)` -/
def num (a b : Dec) : Int :=
  if a.neg then -((a.mant * 10 ^ b.scale : Nat) : Int) else ((a.mant * 10 ^ b.scale : Nat) : Int)

/-- equality by value (`Decimal::eq`) -/
def eqv (a b : Dec) : Bool := num a b == num b a
/-- strict order by value -/
def lt (a b : Dec) : Bool := num a b < num b a
def le (a b : Dec) : Bool := num a b ≤ num b a

/-- `fract() != 0` -/
def hasFract (d : Dec) : Bool := d.mant % 10 ^ d.scale != 0

/-- `to_u128`: `None` for a negative sign, else the truncated magnitude -/
def toU128 (d : Dec) : Option Nat := if d.neg then none else some (d.mant / 10 ^ d.scale)

/-- integer part of the magnitude (used after `hasFract = false`) -/
def trunc (d : Dec) : Nat := d.mant / 10 ^ d.scale

/-- round half to even of `n / d` -/
def rhe (n d : Nat) : Nat :=
  let q := n / d
  let r := n % d
  if 2 * r > d || (2 * r == d && q % 2 == 1) then q + 1 else q

/-- the rescale loop of `checked_mul`: least `k ≥ k₀` with `rhe(P,10^k) < 2^96`, `k ≤ s` -/
def mulLoop (P s : Nat) : Nat → Nat → Option (Nat × Nat)
  | 0, _ => none
  | fuel + 1, k =>
    if k > s then none
    else
      let m := rhe P (10 ^ k)
      if m < LIM then some (m, s - k) else mulLoop P s fuel (k + 1)

/-- `checked_mul` by value -/
def mul (a b : Dec) : Option Dec :=
  if a.mant = 0 ∨ b.mant = 0 then some ⟨false, 0, 0⟩
  else
    let P := a.mant * b.mant
    let s := a.scale + b.scale
    match mulLoop P s (s + 2) (s - 28) with
    | none => none
    | some (m, sc) => some ⟨a.neg != b.neg, m, sc⟩

/-- drop trailing zeros of the mantissa while the scale allows -/
def strip : Nat → Nat → Nat × Nat
  | m, 0 => (m, 0)
  | m, s + 1 => if m % 10 = 0 ∧ m ≠ 0 then strip (m / 10) s else (m, s + 1)

/-- `from_u128(a).unwrap().checked_div(from_u128(b).unwrap()).unwrap()` for `0 ≤ a ≤ b`, by
    value: the quotient to 28 places, rounded half to even.  `none` = panic (b = 0, or an
    operand ≥ 2^96) or outside the validated domain (a > b). -/
def ratio (a b : Nat) : Option Dec :=
  if b = 0 ∨ a > b ∨ b ≥ LIM then none
  else if a = 0 then some ⟨false, 0, 0⟩
  else
    let r := strip (rhe (a * 10 ^ 28) b) 28
    some ⟨false, r.1, r.2⟩

/-- `round_dp_with_strategy(0, MidpointAwayFromZero)`: round the magnitude, keep the sign
    unless the result is zero (rust_decimal never yields a negative zero here) -/
def rha0 (d : Dec) : Dec :=
  let m := (2 * d.mant + 10 ^ d.scale) / (2 * 10 ^ d.scale)
  ⟨d.neg && m != 0, m, 0⟩

/-! ### `Decimal::from_str` -/

inductive Parsed
  | ok (d : Dec)
  | bad          -- `from_str` returns `Err`
  | unmodelled   -- (no longer produced: the rounding branch of the crate is modelled below)
  deriving Repr, DecidableEq

/-- `maybe_round` of rust_decimal 1.29: reached when a 29th fractional digit follows, or when one
    more fractional digit would push the mantissa past 96 bits.  The next byte decides the
    rounding (a digit ≥ 5 rounds up; `_`, and a second `.`, count as 0; anything else is an
    error) and **the rest of the string is not looked at**.  If rounding up overflows 96 bits
    the last kept digit is dropped (with the crate's `+4` then `/10`). -/
def roundDigit (next : Char) (point : Bool) : Option Nat :=
  if next.isDigit then some (next.toNat - 48)
  else if next = '_' then some 0
  else if next = '.' && point then some 0
  else none

def maybeRound (m s : Nat) (next : Char) (point neg : Bool) : Parsed :=
  match roundDigit next point with
  | none => .bad
  | some d =>
    let m1 := if d ≥ 5 then m + 1 else m
    if m1 ≥ LIM then
      (if s = 0 then .bad else .ok ⟨neg, (m1 + 4) / 10, s - 1⟩)
    else .ok ⟨neg && m1 != 0, m1, s⟩

def parseGo : List Char → Nat → Nat → Bool → Bool → Bool → Parsed
  | [], m, s, _, has, neg => if has then .ok ⟨neg && m != 0, m, s⟩ else .bad
  | c :: rest, m, s, point, has, neg =>
    if c.isDigit then
      let m' := m * 10 + (c.toNat - 48)
      if m' ≥ LIM then (if point then maybeRound m s c point neg else .bad)
      else
        let s' := if point then s + 1 else 0
        match rest with
        | nxt :: _ => if point && decide (s' ≥ 28) then maybeRound m' s' nxt point neg
                      else parseGo rest m' s' point true neg
        | [] => parseGo rest m' s' point true neg
    else if c = '.' then (if point then .bad else parseGo rest m s true has neg)
    else if c = '_' then (if has then parseGo rest m s point true neg else .bad)
    else .bad

def parseFull (s : String) : Parsed :=
  match s.toList with
  | [] => .bad
  | '-' :: rest => parseGo rest 0 0 false false true
  | '+' :: rest => parseGo rest 0 0 false false false
  | cs => parseGo cs 0 0 false false false

/-- `Decimal::from_str(s).ok()` on the modelled domain -/
def parse (s : String) : Option Dec :=
  match parseFull s with
  | .ok d => some d
  | _ => none

def isUnmodelled (s : String) : Bool :=
  match parseFull s with
  | .unmodelled => true
  | _ => false

/-! ### contract arithmetic built from the above -/

/-- `price.checked_mul(Decimal::from(size))`: panic if size ≥ 2^96, TotalOverflow if the
    product does not fit -/
def total (price : Dec) (size : Nat) : Res Dec := do
  let sz ← fromU128 size
  orErr (mul price sz) .totalOverflow

/-- `rate.checked_mul(amount)?.round_dp_with_strategy(0, MidpointAwayFromZero).to_u128()?` -/
def rateFee (rate amount : Dec) : Res Nat := do
  let p ← orErr (mul rate amount) .totalOverflow
  orErr (toU128 (rha0 p)) .totalOverflow

/-- the price-precision check with the multiplier `10^e` -/
def badPrecisionPow (price : Dec) (e : Nat) : Option Bool :=
  match mul price (ofNat (10 ^ e)) with
  | none => none
  | some p => some (hasFract p)

/-- `is_invalid_price_precision`: `Some(invalid?)`, `none` = panic.  The multiplier is
    `Decimal::from(10u128.pow(price_precision as u32))`: the cast keeps the low 32 bits of the
    precision, and from `10^29 > 2^96` on the conversion panics (from `10^39` the power itself,
    the crate is built with overflow checks).  Every configuration the contract stores has
    precision ≤ 18, where this is `badPrecisionPow price precision`. -/
def badPrecision (price : Dec) (precision : Nat) : Option Bool :=
  if precision % 4294967296 < 29 then badPrecisionPow price (precision % 4294967296) else none

/-- fee needed for `q` unspent quote of an order with fee `F` on quote `Q`:
    `rha0(ratio(q,Q) · F)` (both argument orders of the Rust `checked_mul` give this) -/
def feeFor (F Q q : Nat) : Res Nat := do
  let r ← orErr (ratio q Q) .panic
  let f ← fromU128 F
  let p ← orErr (mul r f) .totalOverflow
  orErr (toU128 (rha0 p)) .totalOverflow

end Dec
end Ats
