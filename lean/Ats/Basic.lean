/-
  Ats.Basic — outcomes, association-list books, small list helpers.
  Import-free (core Lean only) so that the driver links as a native executable.
-/
namespace Ats

/-- Refusal kinds.  They mirror `ContractError` variants; `panic` stands for every Rust panic
    (`unwrap` on `None`, `Uint128` arithmetic overflow/underflow, `Decimal::from(≥ 2^96)`, …).
    Every refusal means "state unchanged"; the kind is kept for diagnostics only. -/
inductive Err
  | unauthorized | invalidFields | sentFundsMismatch | cancelWithFunds | expireWithFunds
  | executeWithFunds | loadFailed | inconvertibleBase | unsupportedQuote | totalOverflow
  | nonIntegerTotal | invalidFeeSize | askReady | askNotReady | askBidPriceMismatch
  | invalidExecutePrice | invalidExecuteSize | bidFeeAccountMissing | bidFeeInsufficient
  | overflow | invalidPair | unsupportedUpgrade | semver | std | modifyWithFunds | panic
  deriving DecidableEq, Repr, Inhabited

def Err.name : Err → String
  | .unauthorized => "Unauthorized" | .invalidFields => "InvalidFields"
  | .sentFundsMismatch => "SentFundsOrderMismatch" | .cancelWithFunds => "CancelWithFunds"
  | .expireWithFunds => "ExpireWithFunds" | .executeWithFunds => "ExecuteWithFunds"
  | .loadFailed => "LoadOrderFailed" | .inconvertibleBase => "InconvertibleBaseDenom"
  | .unsupportedQuote => "UnsupportedQuoteDenom" | .totalOverflow => "TotalOverflow"
  | .nonIntegerTotal => "NonIntegerTotal" | .invalidFeeSize => "InvalidFeeSize"
  | .askReady => "AskOrderReady" | .askNotReady => "AskOrderNotReady"
  | .askBidPriceMismatch => "AskBidPriceMismatch" | .invalidExecutePrice => "InvalidExecutePrice"
  | .invalidExecuteSize => "InvalidExecuteSize" | .bidFeeAccountMissing => "BidFeeAccountMissing"
  | .bidFeeInsufficient => "BidOrderFeeInsufficientFunds" | .overflow => "Overflow"
  | .invalidPair => "InvalidPricePrecisionSizePair" | .unsupportedUpgrade => "UnsupportedUpgrade"
  | .semver => "SemverError" | .std => "Std" | .modifyWithFunds => "ModifyWithFunds"
  | .panic => "PANIC"

inductive Res (α : Type) where
  | ok (a : α)
  | err (e : Err)
  deriving Repr

namespace Res

@[inline] def bind {α β : Type} (x : Res α) (f : α → Res β) : Res β :=
  match x with
  | ok a => f a
  | err e => err e

instance : Monad Res where
  pure := Res.ok
  bind := Res.bind

def isOk {α : Type} : Res α → Bool
  | ok _ => true
  | err _ => false

def toOption {α : Type} : Res α → Option α
  | ok a => some a
  | err _ => none

end Res

/-- `guardR c e` continues iff `c` holds, otherwise refuses with `e`. -/
@[inline] def guardR (c : Bool) (e : Err) : Res Unit :=
  if c then .ok () else .err e

/-- `Option` → `Res` with the refusal to use for `none`. -/
@[inline] def orErr {α : Type} (o : Option α) (e : Err) : Res α :=
  match o with
  | some a => .ok a
  | none => .err e

/-! ### Books: association lists keyed by the raw id string -/

abbrev Book (V : Type) := List (String × V)

namespace Book
variable {V : Type}

def get? (b : Book V) (k : String) : Option V :=
  match b with
  | [] => none
  | (k', v) :: t => if k' = k then some v else get? t k

def del (b : Book V) (k : String) : Book V :=
  match b with
  | [] => []
  | (k', v) :: t => if k' = k then del t k else (k', v) :: del t k

/-- replace in place if present, append otherwise -/
def set (b : Book V) (k : String) (v : V) : Book V :=
  match b with
  | [] => [(k, v)]
  | (k', v') :: t => if k' = k then (k, v) :: t else (k', v') :: set t k v

def keys (b : Book V) : List String := b.map (·.1)

def sumBy (f : V → Nat) (b : Book V) : Nat :=
  match b with
  | [] => 0
  | (_, v) :: t => f v + sumBy f t

end Book

/-- value of a string of decimal digits -/
def digitsVal : List Char → Nat → Option Nat
  | [], acc => some acc
  | c :: rest, acc => if c.isDigit then digitsVal rest (acc * 10 + (c.toNat - 48)) else none

/-- list membership as a `Bool`, on strings (role lists, denomination lists) -/
def memS (x : String) (l : List String) : Bool := l.any (· == x)

/-- every element of `a` occurs in `b` -/
def subsetS (a b : List String) : Bool := a.all (fun x => memS x b)

end Ats
