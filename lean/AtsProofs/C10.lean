/-
  C10 — Transfer mechanism always matches the denomination's marker type.
-/
import AtsProofs.C06
namespace Ats.Proofs
open Ats Ats.Spec

theorem msgOK_payMsg (env : Env) (c : Call) (d : String) (n : Nat) (to : String) (hn : 0 < n) :
    msgOK env c (payMsg env d n to) = true := by
  unfold payMsg msgOK
  cases hr : env.restricted d <;> simp [hr, hn]

theorem all_payIfPos (env : Env) (c : Call) (d : String) (n : Nat) (to : String) :
    (payIfPosMsgs env d n to).all (msgOK env c) = true := by
  unfold payIfPosMsgs
  by_cases hn : n = 0
  · simp [hn]
  · simp [hn, msgOK_payMsg env c d n to (Nat.pos_of_ne_zero hn)]

theorem all_pullMsgs (env : Env) (c : Call) (d : String) (n : Nat) (hn : env.restricted d = true → n ≠ 0)
    (he : isEscrowing c.msg = true) :
    (pullMsgs env d n c.sender).all (msgOK env c) = true := by
  unfold pullMsgs
  cases hr : env.restricted d
  · simp
  · have := hn hr
    simp [msgOK, hr, he, Nat.pos_of_ne_zero this]

theorem all_approverMsgs (env : Env) (c : Call) (cls : AskClass) (f : Coin → Nat)
    (h : ∀ ap cv, cls = .ready ap cv → 0 < f cv) :
    (approverMsgs env cls f).all (msgOK env c) = true := by
  unfold approverMsgs
  cases hc : cls with
  | basic => simp
  | pending => simp
  | ready ap cv => simp [msgOK_payMsg env c cv.denom (f cv) ap (h ap cv hc)]

theorem product_pos {p : Dec} {n : Nat} (hm : p.isZero = false) (hn : 0 < n) (hw : wholeProduct p n = true) :
    0 < product p n := by
  unfold wholeProduct at hw
  simp only [beq_iff_eq] at hw
  obtain ⟨V, hV⟩ := Nat.dvd_of_mod_eq_zero hw
  unfold product
  rw [hV, Nat.mul_div_cancel_left _ (Dec.pow10_pos _)]
  have hp : 0 < p.mant := by
    unfold Dec.isZero at hm
    simp only [beq_eq_false_iff_ne, ne_eq] at hm
    exact Nat.pos_of_ne_zero hm
  have : 0 < 10 ^ p.scale * V := by rw [← hV]; exact Nat.mul_pos hp hn
  exact Nat.pos_of_mul_pos_left this

/-- C10: every message of an accepted request from a sane state is a bank send from the
    contract of a strictly positive coin in a denomination that is not a restricted marker, or
    a marker transfer of a strictly positive amount with the contract as administrator in a
    denomination that is – drawn from the contract for payouts, from the requesting sender
    (to the contract) on the three escrowing requests; the mechanism is chosen per coin -/
theorem C10_mechanism (env : Env) (s s' : State) (c : Call) (r : Response)
    (hs : sane s = true) (hx : ExactStep s c.msg)
    (h : execute env s c = .ok (s', r)) : C10_msgsOK env c r = true := by
  unfold C10_msgsOK
  unfold execute at h
  simp only [Res.bind_eq_ok, guardR_eq_ok] at h
  obtain ⟨_, hv, h⟩ := h
  cases hm : c.msg <;> simp only [hm] at h hx hv
  case createAsk id base quote price size =>
    obtain ⟨_, _, _, _, _, _, _, _, hz, _, hmsgs, _⟩ := createAsk_ok h
    rw [hmsgs]; exact all_pullMsgs env c base size hz (by simp [hm, isEscrowing])
  case createBid id base fee price quote qs size =>
    obtain ⟨_, _, _, _, _, _, _, _, _, _, _, _, _, _, _, _, _, _, _, hz, _, hr⟩ := createBid_ok h
    rw [hr]; exact all_pullMsgs env c quote _ hz (by simp [hm, isEscrowing])
  case approveAsk id base size =>
    obtain ⟨a, _, _, _, _, _, _, hz, _, hr⟩ := approveAsk_ok h
    rw [hr]; exact all_pullMsgs env c base size hz (by simp [hm, isEscrowing])
  case cancelAsk id =>
    obtain ⟨a, _, ha, _, _, _, _, hr⟩ := cancelAsk_ok h
    have hf := sane_ask_facts hs ha
    rw [hr]
    simp only [List.all_cons, Bool.and_eq_true]
    refine ⟨msgOK_payMsg env c _ _ _ hf.size_pos, all_approverMsgs env c _ _ ?_⟩
    intro ap cv hc
    have := hf.cls_ok
    simp only [hc] at this
    rw [this.2.2.2]; exact hf.size_pos
  case expireAsk id =>
    obtain ⟨a, _, _, ha, _, _, _, _, _, hr⟩ := reverseAsk_ok h
    have hf := sane_ask_facts hs ha
    rw [hr]
    simp only [List.all_cons, Bool.and_eq_true, Option.getD_none]
    exact ⟨msgOK_payMsg env c _ _ _ hf.size_pos, all_approverMsgs env c _ _ (fun _ _ _ => hf.size_pos)⟩
  case rejectAsk id sz =>
    obtain ⟨a, _, _, ha, _, _, _, _, _, hr⟩ := reverseAsk_ok h
    have hf := sane_ask_facts hs ha
    have hpos : 0 < sz.getD a.size := by
      cases hsz : sz with
      | none => exact hf.size_pos
      | some n =>
        simp only [ExecMsg.valid, hsz, Bool.and_eq_true, decide_eq_true_eq] at hv
        have := hv.2; simp only [Option.getD_some]; omega
    rw [hr]
    simp only [List.all_cons, Bool.and_eq_true]
    exact ⟨msgOK_payMsg env c _ _ _ hpos, all_approverMsgs env c _ _ (fun _ _ _ => hpos)⟩
  case cancelBid id =>
    obtain ⟨b, p, tq, effQuote, effFee, _, hb, _, _, hinc, hle, hpp, htq, hfr, hu, hcf, _, _, hr⟩ := reverseBid_ok h
    have hfb := sane_bid_v3 hs hb
    obtain ⟨_, _, hfull⟩ := reverseBid_amounts hs hb rfl hinc hle hpp htq hfr hu
    have hq : 0 < effQuote := by rw [hfull rfl]; exact remQuote_pos hfb
    rw [hr]
    simp only [List.all_cons, Bool.and_eq_true]
    exact ⟨msgOK_payMsg env c _ _ _ hq, all_payIfPos env c _ _ _⟩
  case expireBid id =>
    obtain ⟨b, p, tq, effQuote, effFee, _, hb, _, _, hinc, hle, hpp, htq, hfr, hu, hcf, _, _, hr⟩ := reverseBid_ok h
    have hfb := sane_bid_v3 hs hb
    obtain ⟨_, _, hfull⟩ := reverseBid_amounts hs hb rfl hinc hle hpp htq hfr hu
    have hq : 0 < effQuote := by rw [hfull rfl]; exact remQuote_pos hfb
    rw [hr]
    simp only [List.all_cons, Bool.and_eq_true]
    exact ⟨msgOK_payMsg env c _ _ _ hq, all_payIfPos env c _ _ _⟩
  case rejectBid id sz =>
    obtain ⟨b, p, tq, effQuote, effFee, _, hb, _, _, hinc, hle, hpp, htq, hfr, hu, hcf, _, _, hr⟩ := reverseBid_ok h
    have hfb := sane_bid_v3 hs hb
    obtain ⟨hg, _, hfull⟩ := reverseBid_amounts hs hb rfl hinc hle hpp htq hfr hu
    have hq : 0 < effQuote := by
      cases hsz : sz with
      | none => rw [hsz] at hfull; rw [hfull rfl]; exact remQuote_pos hfb
      | some n =>
        simp only [ExecMsg.valid, hsz, Bool.and_eq_true, decide_eq_true_eq] at hv
        rw [hsz] at hinc hg
        simp at hinc
        obtain ⟨p', hp', hz, _, _⟩ := priceOK_parse hfb.price_ok
        rw [hpp] at hp'; cases hp'
        rw [hg]
        exact product_pos hz (by have := hv.2; simp only [Option.getD_some]; omega) (whole_lot (sane_info hs) hfb.price_ok hpp hinc)
    rw [hr]
    simp only [List.all_cons, Bool.and_eq_true]
    exact ⟨msgOK_payMsg env c _ _ _ hq, all_payIfPos env c _ _ _⟩
  case executeMatch aid bid price size =>
    simp only [ExecMsg.valid, Bool.and_eq_true, decide_eq_true_eq] at hv
    have hsz : 0 < size := hv.2
    obtain ⟨a, b, askP, bidP, execP, grossD, gross, askFee, bidFee, m2, m3, rp, _, _, ha, hb, _,
      hap, hbp, hep, hpr, _, hsa, hsb, hg, hfr, hgu, haf, _, hbf, hm2, hm3, hrp, _, hr⟩ := executeMatch_ok h
    have hfa := sane_ask_facts hs ha
    have hfb := sane_bid_v3 hs hb
    have hfd : (b.fee.map (·.denom)).getD b.quote.denom = b.quote.denom := by
      cases hfe : b.fee with
      | none => rfl
      | some f => simp [hfb.fee_denom f hfe]
    obtain ⟨hnp, _, _, rfl⟩ := classMsgs_ok.mp hm3
    have hpayR : ∀ (d : String) (n : Nat) (to : String), 0 < n →
        msgOK env c (payMsgR (env.restricted d) env.contract d n to) = true :=
      fun d n to hn => by rw [← payMsg_eq]; exact msgOK_payMsg env c d n to hn
    have hpipR : ∀ (d : String) (n : Nat) (to : String),
        (payIfPosMsgsR (env.restricted d) env.contract d n to).all (msgOK env c) = true := by
      intro d n to
      unfold payIfPosMsgsR
      by_cases hn : n = 0
      · simp [hn]
      · simp [hn, hpayR d n to (Nat.pos_of_ne_zero hn)]
    rw [hr]
    simp only [List.all_append, Bool.and_eq_true]
    refine ⟨⟨⟨?_, ?_⟩, ?_⟩, ?_⟩
    · unfold askFeeMsgList
      cases s.info.askFee with
      | none => simp
      | some fi => exact hpipR _ _ _
    · rcases bidFeeMsgs_ok.mp hm2 with ⟨_, rfl⟩ | ⟨hn, fi, _, rfl⟩
      · simp
      · rw [hfd]; simp [hpayR _ _ _ (Nat.pos_of_ne_zero hn)]
    · unfold classMsgList
      cases hcl : (a.reduce size).cls with
      | pending => exact absurd hcl hnp
      | basic =>
        simp only [List.all_append, List.all_cons, List.all_nil, Bool.and_true, Bool.and_eq_true]
        exact ⟨hpipR _ _ _, hpayR _ _ _ hsz⟩
      | ready ap cv =>
        simp only [List.all_append, List.all_cons, List.all_nil, Bool.and_true, Bool.and_eq_true]
        exact ⟨⟨msgOK_payMsg env c _ _ _ hsz, hpayR _ _ _ hsz⟩, hpipR _ _ _⟩
    · rcases refundPart_ok.mp hrp with ⟨_, rfl⟩ | ⟨_, _, _, _, _, _, _, _, _, _, _, rfl⟩
      · simp
      · unfold refundMsgList
        simp only [List.all_append, Bool.and_eq_true]
        refine ⟨hpipR _ _ _, ?_⟩
        split
        · rw [hfd]; exact hpipR _ _ _
        · simp
  case modify =>
    obtain ⟨_, _, _, _, _, _, _, _, _, _, _, _, _, hr⟩ := modifyContract_ok h
    rw [hr]; simp

end Ats.Proofs
