/-
  AtsProofs.Migrate — migrations inside histories.  `Reach` (Run.lean) covers instantiate +
  execute requests; `ReachM` adds accepted migrations.  A migration of a sane (hence
  current-format) book preserves the structural invariant and the pro-rata fee invariant and
  leaves both sides of the book exactly as they were, so every reachable-state theorem
  (consistency, approver tracking, nearest-unit fee, exit liveness) extends to histories that
  contain migrations.
-/
import AtsProofs.C09b
import AtsProofs.C14
import AtsProofs.C06
import AtsProofs.Claims.C08
import AtsProofs.C17
namespace Ats.Proofs
open Ats Ats.Spec

theorem priceOK_congr {i i' : Info} (h : i'.precision = i.precision) (p : String) :
    priceOK i' p = priceOK i p := by unfold priceOK; rw [h]

/-- the per-order invariants only read the market parameters of the configuration -/
theorem askSane_market {i i' : Info} (hp : i'.precision = i.precision) (hq : i'.quotes = i.quotes)
    (hb : i'.baseDenom = i.baseDenom) (hc : i'.convertible = i.convertible) (k : String) (a : Ask) :
    askSane i' k a = askSane i k a := by
  unfold askSane
  rw [priceOK_congr hp, hq, hb, hc]

theorem bidSane_market {i i' : Info} (hp : i'.precision = i.precision) (hq : i'.quotes = i.quotes)
    (hb : i'.baseDenom = i.baseDenom) (k : String) (e : BidEntry) :
    bidSane i' k e = bidSane i k e := by
  cases e with
  | v2 b => rfl
  | v3 b => simp only [bidSane]; rw [priceOK_congr hp, hq, hb]

theorem rateOK_feeAfter {env : Env} {old : Option FeeInfo} {rate acct : Option String}
    (hold : rateOK old = true) (hf : FeePairFine env acct rate) :
    rateOK (feeAfter old rate acct) = true := by
  unfold feeAfter
  cases rate with
  | none => exact hold
  | some r =>
    cases acct with
    | none => exact hold
    | some a =>
      by_cases hc : a = "" ∧ r = ""
      · simp [hc, rateOK]
      · simp only [hc, if_false, rateOK]
        rcases hf a r rfl rfl with h | h
        · exact absurd h hc
        · exact h.1

/-- converting a book that holds only current-format bids changes nothing -/
theorem map_convert_of_v3 {info : Info} (b : Book BidEntry)
    (h : ∀ kv ∈ b, bidSane info kv.1 kv.2 = true) :
    b.map (fun kv => (kv.1, convertEntry kv.2)) = b := by
  induction b with
  | nil => rfl
  | cons hd tl ih =>
    have hh := h hd (List.mem_cons_self ..)
    have ht := ih (fun kv hk => h kv (List.mem_cons_of_mem _ hk))
    obtain ⟨k, e⟩ := hd
    cases e with
    | v2 x => simp [bidSane] at hh
    | v3 x =>
      show (k, convertEntry (.v3 x)) :: tl.map (fun kv => (kv.1, convertEntry kv.2)) = _
      rw [ht]; rfl

/-- C14 on a sane book: an accepted migration leaves *both* sides of the book exactly as they
    were (no bid is rewritten: all are in the current format), whatever the stored version -/
theorem migrate_book_same (env : Env) (s s' : State) (m : MigMsg) (r : Response) (hs : sane s = true)
    (h : migrate env s m = .ok (s', r)) : s'.asks = s.asks ∧ s'.bids = s.bids := by
  obtain ⟨_, ⟨v, _, _, hb⟩, _, _, _, _, _, ha, _⟩ := migrate_ok h
  refine ⟨ha, ?_⟩
  rw [hb]
  split
  · exact map_convert_of_v3 s.bids (sane_iff.mp hs).bids
  · rfl

/-- an accepted migration preserves the structural invariant -/
theorem migrate_sane (env : Env) (s s' : State) (m : MigMsg) (r : Response) (hs : sane s = true)
    (h : migrate env s m = .ok (s', r)) : sane s' = true := by
  obtain ⟨ha, hb⟩ := migrate_book_same env s s' m r hs h
  obtain ⟨_, _, _, hfa, hfb, hinfo, _, _, _⟩ := migrate_ok h
  have hp := sane_iff.mp hs
  have hi := hp.info
  unfold infoSane at hi
  simp only [Bool.and_eq_true, decide_eq_true_eq] at hi
  obtain ⟨⟨⟨⟨⟨h1, h2⟩, h3⟩, h4⟩, h5⟩, h6⟩ := hi
  rw [sane_iff]
  refine ⟨?_, by rw [ha]; exact hp.dasks, by rw [hb]; exact hp.dbids, ?_, ?_⟩
  · unfold infoSane
    rw [hinfo]
    simp only [Bool.and_eq_true, decide_eq_true_eq]
    exact ⟨⟨⟨⟨⟨h1, h2⟩, h3⟩, h4⟩, rateOK_feeAfter h5 hfa⟩, rateOK_feeAfter h6 hfb⟩
  · rw [ha]
    intro kv hk
    rw [askSane_market (i := s.info) (by rw [hinfo]) (by rw [hinfo]) (by rw [hinfo]) (by rw [hinfo])]
    exact hp.asks kv hk
  · rw [hb]
    intro kv hk
    rw [bidSane_market (i := s.info) (by rw [hinfo]) (by rw [hinfo]) (by rw [hinfo])]
    exact hp.bids kv hk

/-- … and the pro-rata fee invariant (it only reads the bids) -/
theorem migrate_feeExact (env : Env) (s s' : State) (m : MigMsg) (r : Response) (hs : sane s = true)
    (hfe : feeExact s = true) (h : migrate env s m = .ok (s', r)) : feeExact s' = true := by
  unfold feeExact at *
  rw [(migrate_book_same env s s' m r hs h).2]
  exact hfe

/-- states reachable by instantiation, accepted execute requests and accepted migrations -/
inductive ReachM : State → Prop
  | init (env : Env) (m : InstMsg) (s : State) (r : Response) :
      instantiate env m = .ok (s, r) → ReachM s
  | step (env : Env) (s s' : State) (c : Call) (r : Response) :
      ReachM s → ExactStep s c.msg → execute env s c = .ok (s', r) → ReachM s'
  | mig (env : Env) (s s' : State) (m : MigMsg) (r : Response) :
      ReachM s → migrate env s m = .ok (s', r) → ReachM s'

theorem reachM_of_reach {s : State} (h : Reach s) : ReachM s := by
  induction h with
  | init env m s r hi => exact .init env m s r hi
  | step env s s' c r _ hx he ih => exact .step env s s' c r ih hx he

theorem reachM_inv {s : State} (h : ReachM s) : sane s = true ∧ feeExact s = true := by
  induction h with
  | init env m s r hi => exact ⟨sane_init env m s r hi, C09_init env m s r hi⟩
  | step env s s' c r _ hx he ih =>
    exact ⟨Sane_step env s s' c r ih.1 hx he, C09_prorata env s s' c r ih.1 ih.2 hx he⟩
  | mig env s s' m r _ he ih =>
    exact ⟨migrate_sane env s s' m r ih.1 he, migrate_feeExact env s s' m r ih.1 ih.2 he⟩

/-- C11 (consistency), C08 (tracking), C09 (nearest unit) and C06 (exit liveness) in every state
    reachable through histories that may contain migrations -/
theorem C11_consistentM {s : State} (h : ReachM s) :
    (∀ k a, s.asks.get? k = some a → askSane s.info k a = true) ∧
    (∀ k e, s.bids.get? k = some e → bidSane s.info k e = true) :=
  ⟨fun _ _ hk => sane_ask (reachM_inv h).1 hk, fun _ _ hk => sane_bid (reachM_inv h).1 hk⟩

theorem C08_tracksM {s : State} (h : ReachM s) (k : String) (a : Ask) (ap : String) (conv : Coin)
    (hk : s.asks.get? k = some a) (hc : a.cls = .ready ap conv) :
    conv.amount = a.size ∧ conv.denom = s.info.baseDenom := by
  have := (sane_ask_facts (reachM_inv h).1 hk).cls_ok
  simp only [hc] at this
  exact ⟨this.2.2.2, this.2.2.1⟩

theorem C09_nearM {s : State} (h : ReachM s) (k : String) (e : BidEntry)
    (hk : s.bids.get? k = some e) (hsm : C09_small e = true) : C09_bidNear e = true := by
  have hfe := (reachM_inv h).2
  unfold feeExact at hfe
  rw [List.all_eq_true] at hfe
  exact C09_near_of_exact e (hfe (k, e) (Book.get?_some_mem hk)) hsm

theorem C06_reachableM {s : State} (h : ReachM s) (env : Env) :
    (∀ id a, s.asks.get? id = some a →
      ∃ s' r, execute env s ⟨a.owner, [], .cancelAsk id⟩ = .ok (s', r) ∧
        C06_askExitOK env.contract s id r s' = true) ∧
    (∀ id b, loadBid s id = some b →
      ∃ s' r, execute env s ⟨b.owner, [], .cancelBid id⟩ = .ok (s', r) ∧
        C06_bidExitOK env.contract s id r s' = true) :=
  ⟨fun id a ha => C06_cancel_ask env s id a (reachM_inv h).1 ha,
   fun id b hb => C06_cancel_bid env s id b (reachM_inv h).1 hb⟩

/-- C06 / C15 for bids carried over from the event-log format: after an accepted migration from
    a format-changing version whose result is a consistent book (`sane` – a decidable condition
    on the converted amounts, evaluated by the driver on every such migration), an old-format bid
    is on the book as a current-format bid with the same owner, terms and remaining amounts
    (the fold over its event log), and its owner can cancel it with a plain request: the
    request succeeds, returns exactly those remaining amounts and removes the order – the bid
    behaves like a native one -/
theorem C06_carried_over (env : Env) (s s' : State) (m : MigMsg) (r : Response)
    (h : migrate env s m = .ok (s', r)) (hw : inWindow s = true) (hs' : sane s' = true)
    (k : String) (old : BidV2) (hk : s.bids.get? k = some (.v2 old)) :
    ∃ b, loadBid s' k = some b ∧ b.owner = old.owner ∧ b.price = old.price ∧ b.base = old.base ∧
      b.quote = old.quote ∧ b.fee = old.fee ∧ (b.remBase, b.remQuote, b.remFee) = v2Remaining old ∧
      ∃ s'' r', execute env s' ⟨b.owner, [], .cancelBid k⟩ = .ok (s'', r') ∧
        C06_bidExitOK env.contract s' k r' s'' = true := by
  obtain ⟨_, ⟨v, hp, _, hb⟩, _⟩ := migrate_ok h
  have hwin : (v.geReq 0 16 2 && v.ltReq 0 19 1) = true := by simpa [inWindow, hp] using hw
  have hget : s'.bids.get? k = some (.v3 old.convert) := by
    rw [hb, if_pos hwin, get?_map_convert, hk]; rfl
  have hload : loadBid s' k = some old.convert := loadBid_some.mpr hget
  obtain ⟨h1, h2, h3, _, h5, h6, h7⟩ := C15_convert old
  refine ⟨old.convert, hload, h5, h6, h1, h2, h3, h7, ?_⟩
  exact C06_cancel_bid env s' k old.convert hs' hload

/-! ### C01 over histories that contain migrations -/

/-- one event of a history: an execute request or a migration (each with the environment –
    marker table, attributes – of that block) -/
inductive Ev
  | exec (env : Env) (c : Call)
  | mig (env : Env) (m : MigMsg)

/-- run a history of requests and migrations: refused ones change nothing; a migration moves no
    funds, so the ledger only advances on execute requests -/
def runHistM (s : State) (L : Ledger) : List Ev → State × Ledger
  | [] => (s, L)
  | .exec env c :: t =>
    (match execute env s c with
     | .ok (s', r) => runHistM s' (L.add env.contract c r) t
     | .err _ => runHistM s L t)
  | .mig env m :: t =>
    (match migrate env s m with
     | .ok (s', _) => runHistM s' L t
     | .err _ => runHistM s L t)

def GoodHistM : State → List Ev → Prop
  | _, [] => True
  | s, .exec env c :: t =>
    (match execute env s c with
     | .ok (s', _) => GoodStep env s c ∧ GoodHistM s' t
     | .err _ => GoodHistM s t)
  | s, .mig env m :: t =>
    (match migrate env s m with
     | .ok (s', _) => GoodHistM s' t
     | .err _ => GoodHistM s t)

/-- C01 over histories with migrations: along every finite history of accepted and refused
    execute requests *and migrations* from a sane balanced state – in particular from
    instantiation – the contract's holdings of every denomination equal exactly what its open
    orders are owed, and the state stays sane.  (No hypothesis on the migrations at all: any
    message, any stored version.) -/
theorem C01_historyM (s : State) (L : Ledger) (hist : List Ev)
    (hs : sane s = true) (hb : Balanced s L) (hg : GoodHistM s hist) :
    sane (runHistM s L hist).1 = true ∧ Balanced (runHistM s L hist).1 (runHistM s L hist).2 := by
  induction hist generalizing s L with
  | nil => exact ⟨hs, hb⟩
  | cons ev t ih =>
    cases ev with
    | exec env c =>
      unfold runHistM
      unfold GoodHistM at hg
      cases hx : execute env s c with
      | err e =>
        simp only [hx] at hg ⊢
        exact ih s L hs hb hg
      | ok p =>
        obtain ⟨s', r⟩ := p
        simp only [hx] at hg ⊢
        obtain ⟨⟨hex, hsender, hself⟩, hgt⟩ := hg
        have hs' := Sane_step env s s' c r hs hex hx
        refine ih s' _ hs' ?_ hgt
        intro d
        have := denomOK_iff.mp (C01_step env s s' c r d hs hex hsender (hself s' r hx) hx)
        have hbd := hb d
        simp only [Ledger.add]
        omega
    | mig env m =>
      unfold runHistM
      unfold GoodHistM at hg
      cases hx : migrate env s m with
      | err e =>
        simp only [hx] at hg ⊢
        exact ih s L hs hb hg
      | ok p =>
        obtain ⟨s', r⟩ := p
        simp only [hx] at hg ⊢
        have hs' := migrate_sane env s s' m r hs hx
        obtain ⟨ha, hbk⟩ := migrate_book_same env s s' m r hs hx
        refine ih s' L hs' ?_ hg
        intro d
        have hbd := hb d
        have : owed s' d = owed s d := by unfold owed; rw [ha, hbk]
        omega

/-- … in particular from instantiation -/
theorem C01_from_instantiation (env : Env) (m : InstMsg) (s : State) (r : Response) (hist : List Ev)
    (hi : instantiate env m = .ok (s, r)) (hg : GoodHistM s hist) :
    Balanced (runHistM s Ledger.zero hist).1 (runHistM s Ledger.zero hist).2 :=
  (C01_historyM s Ledger.zero hist (sane_init env m s r hi) (balanced_init env m s r hi) hg).2

/-- every state of such a history is `ReachM` (so C06, C08, C09, C11 hold in it as well) -/
theorem reachM_runHistM {s : State} (L : Ledger) (hist : List Ev) (hr : ReachM s)
    (hg : GoodHistM s hist) : ReachM (runHistM s L hist).1 := by
  induction hist generalizing s L with
  | nil => exact hr
  | cons ev t ih =>
    cases ev with
    | exec env c =>
      unfold runHistM
      unfold GoodHistM at hg
      cases hx : execute env s c with
      | err e => simp only [hx] at hg ⊢; exact ih L hr hg
      | ok p =>
        obtain ⟨s', r⟩ := p
        simp only [hx] at hg ⊢
        exact ih _ (.step env s s' c r hr hg.1.1 hx) hg.2
    | mig env m =>
      unfold runHistM
      unfold GoodHistM at hg
      cases hx : migrate env s m with
      | err e => simp only [hx] at hg ⊢; exact ih L hr hg
      | ok p =>
        obtain ⟨s', r⟩ := p
        simp only [hx] at hg ⊢
        exact ih L (.mig env s s' m r hr hx) hg

end Ats.Proofs
