/-
  C12 (relational form) — along any run of accepted requests during which an order stays on the
  book, the terms it was admitted under do not move: the fee rate of its side is the same number,
  the required attributes of its side are the same list, no approver is dropped, and the market
  parameters are untouched.
-/
import AtsProofs.C12
import AtsProofs.C11b
namespace Ats.Proofs
open Ats Ats.Spec Ats.Dec

/-- signed mantissa -/
def sval (a : Dec) : Int := if a.neg then -(a.mant : Int) else (a.mant : Int)

theorem num_eq_sval (a b : Dec) : num a b = sval a * (10 : Int) ^ b.scale := by
  unfold num sval
  split <;> simp [Int.natCast_mul, Int.natCast_pow, Int.neg_mul]

/-- equality by value is transitive, whatever the signs -/
theorem eqv_trans_gen {a b c : Dec} (h1 : eqv a b = true) (h2 : eqv b c = true) : eqv a c = true := by
  unfold eqv at *
  simp only [beq_iff_eq, num_eq_sval] at *
  have hb : ((10 : Int) ^ b.scale) ≠ 0 := Int.pow_ne_zero (by decide)
  apply Int.eq_of_mul_eq_mul_right hb
  calc sval a * 10 ^ c.scale * 10 ^ b.scale
      = (sval a * 10 ^ b.scale) * 10 ^ c.scale := by ac_rfl
    _ = (sval b * 10 ^ a.scale) * 10 ^ c.scale := by rw [h1]
    _ = (sval b * 10 ^ c.scale) * 10 ^ a.scale := by ac_rfl
    _ = (sval c * 10 ^ b.scale) * 10 ^ a.scale := by rw [h2]
    _ = sval c * 10 ^ a.scale * 10 ^ b.scale := by ac_rfl

theorem sameRate_refl {f : Option FeeInfo} (h : rateOK f = true) : sameRate f f = true := by
  cases f with
  | none => rfl
  | some c =>
    simp only [rateOK, Option.isSome_iff_exists] at h
    obtain ⟨p, hp⟩ := h
    simp [sameRate, hp, Dec.eqv]

theorem sameRate_trans {f g h : Option FeeInfo} (h1 : sameRate f g = true) (h2 : sameRate g h = true) :
    sameRate f h = true := by
  cases f with
  | none =>
    cases g with
    | none => exact h2
    | some y => simp [sameRate] at h1
  | some x =>
    cases g with
    | none => simp [sameRate] at h1
    | some y =>
      cases h with
      | none => simp [sameRate] at h2
      | some z =>
        simp only [sameRate] at h1 h2 ⊢
        cases hx : Dec.parse x.rate with
        | none => simp [hx] at h1
        | some px =>
          cases hy : Dec.parse y.rate with
          | none => simp [hx, hy] at h1
          | some py =>
            cases hz : Dec.parse z.rate with
            | none => simp [hy, hz] at h2
            | some pz =>
              simp only [hx, hy, hz] at h1 h2 ⊢
              exact eqv_trans_gen h1 h2

theorem memS_iff {x : String} {l : List String} : memS x l = true ↔ x ∈ l := by
  unfold memS
  simp only [List.any_eq_true, beq_iff_eq]
  exact ⟨fun ⟨y, hy, e⟩ => e ▸ hy, fun h => ⟨x, h, rfl⟩⟩

theorem subsetS_iff {a b : List String} : subsetS a b = true ↔ ∀ x ∈ a, x ∈ b := by
  unfold subsetS
  simp only [List.all_eq_true, memS_iff]

theorem subsetS_refl (a : List String) : subsetS a a = true := subsetS_iff.mpr fun _ h => h

theorem subsetS_trans {a b c : List String} (h1 : subsetS a b = true) (h2 : subsetS b c = true) :
    subsetS a c = true :=
  subsetS_iff.mpr fun x hx => subsetS_iff.mp h2 x (subsetS_iff.mp h1 x hx)

theorem marketSame_refl (i : Info) : marketSame i i = true := by simp [marketSame]

theorem marketSame_trans {i j k : Info} (h1 : marketSame i j = true) (h2 : marketSame j k = true) :
    marketSame i k = true := by
  unfold marketSame at *
  simp only [Bool.and_eq_true, beq_iff_eq] at *
  obtain ⟨⟨⟨⟨⟨⟨a1, a2⟩, a3⟩, a4⟩, a5⟩, a6⟩, a7⟩ := h1
  obtain ⟨⟨⟨⟨⟨⟨b1, b2⟩, b3⟩, b4⟩, b5⟩, b6⟩, b7⟩ := h2
  exact ⟨⟨⟨⟨⟨⟨b1.trans a1, b2.trans a2⟩, b3.trans a3⟩, b4.trans a4⟩, b5.trans a5⟩, b6.trans a6⟩, b7.trans a7⟩

/-- what an open order of a side is entitled to see unchanged between two states -/
structure TermsKept (asksOpen bidsOpen : Bool) (i i' : Info) : Prop where
  market : marketSame i i' = true
  askSide : asksOpen = true → sameRate i.askFee i'.askFee = true ∧ i'.askAttrs = i.askAttrs
  bidSide : bidsOpen = true → sameRate i.bidFee i'.bidFee = true ∧ i'.bidAttrs = i.bidAttrs
  approvers : (asksOpen = true ∨ bidsOpen = true) → subsetS i.approvers i'.approvers = true

/-- C12, one step, every kind of request: the terms are kept for whichever side has an open
    order in the pre-state -/
theorem C12_step_terms (env : Env) (s s' : State) (c : Call) (r : Response) (hs : sane s = true)
    (h : execute env s c = .ok (s', r)) :
    TermsKept (!s.asks.isEmpty) (!s.bids.isEmpty) s.info s'.info := by
  have hi := sane_info hs
  have hra : rateOK s.info.askFee = true ∧ rateOK s.info.bidFee = true := by
    unfold infoSane at hi
    simp only [Bool.and_eq_true] at hi
    exact ⟨hi.1.2, hi.2⟩
  by_cases hm : isModify c.msg = true
  · have hok := C12_modify env s s' c r hi hm h
    unfold C12_modifyOK at hok
    cases hc : c.msg <;> simp only [hc, isModify] at hm hok <;> try (cases hm)
    simp only [Bool.and_eq_true, Bool.or_eq_true, beq_iff_eq] at hok
    obtain ⟨⟨⟨⟨⟨⟨⟨⟨⟨⟨⟨⟨⟨⟨hmk, hA⟩, hB⟩, hP⟩, _⟩, _⟩, _⟩, _⟩, _⟩, _⟩, _⟩, _⟩, _⟩, _⟩, _⟩ := hok
    refine ⟨hmk, ?_, ?_, ?_⟩
    · intro ho
      rcases hA with he | ⟨h1, h2⟩
      · simp [he] at ho
      · exact ⟨h1, h2⟩
    · intro ho
      rcases hB with he | ⟨h1, h2⟩
      · simp [he] at ho
      · exact ⟨h1, h2⟩
    · intro ho
      rcases hP with ⟨he1, he2⟩ | h1
      · rcases ho with ho | ho <;> simp [he1, he2] at ho
      · exact h1
  · have hf := (C11_frame env s s' c r hs h).info (by simpa using hm)
    rw [hf]
    exact ⟨marketSame_refl _, fun _ => ⟨sameRate_refl hra.1, rfl⟩, fun _ => ⟨sameRate_refl hra.2, rfl⟩,
      fun _ => subsetS_refl _⟩

theorem isEmpty_false_of_get {V : Type} {b : Book V} {k : String} {v : V} (h : b.get? k = some v) :
    (!b.isEmpty) = true := by
  cases b with
  | nil => simp [Book.get?] at h
  | cons _ _ => rfl

/-- C12 along the life of an ask: from the state in which it is on the book to any later state
    in which it still is, the ask fee rate is the same number, the ask-side required attributes
    are the same, no approver has been dropped and the market parameters are unchanged -/
theorem C12_ask_life {k : String} {s u : State} {a b : Ask} (hs : sane s = true)
    (h : AskLife k s a u b) : TermsKept true false s.info u.info := by
  induction h with
  | start _ =>
    have hi := sane_info hs
    unfold infoSane at hi
    simp only [Bool.and_eq_true] at hi
    exact ⟨marketSame_refl _, fun _ => ⟨sameRate_refl hi.1.2, rfl⟩, (fun h => by cases h),
      fun _ => subsetS_refl _⟩
  | next hl st _ ih =>
    obtain ⟨env, c, r, _, he⟩ := st
    obtain ⟨hst, hget⟩ := askLife_sane hs hl
    have hstep := C12_step_terms env _ _ c r hst he
    have hopen := isEmpty_false_of_get hget
    obtain ⟨r1, a1⟩ := ih.askSide rfl
    obtain ⟨r2, a2⟩ := hstep.askSide hopen
    exact ⟨marketSame_trans ih.market hstep.market, fun _ => ⟨sameRate_trans r1 r2, a2.trans a1⟩,
      (fun h => by cases h),
      fun _ => subsetS_trans (ih.approvers (Or.inl rfl)) (hstep.approvers (Or.inl hopen))⟩

/-- C12 along the life of a bid -/
theorem C12_bid_life {k : String} {s u : State} {e f : BidEntry} (hs : sane s = true)
    (h : BidLife k s e u f) : TermsKept false true s.info u.info := by
  induction h with
  | start _ =>
    have hi := sane_info hs
    unfold infoSane at hi
    simp only [Bool.and_eq_true] at hi
    exact ⟨marketSame_refl _, (fun h => by cases h), fun _ => ⟨sameRate_refl hi.2, rfl⟩,
      fun _ => subsetS_refl _⟩
  | next hl st _ ih =>
    obtain ⟨env, c, r, _, he⟩ := st
    obtain ⟨hst, hget⟩ := bidLife_sane hs hl
    have hstep := C12_step_terms env _ _ c r hst he
    have hopen := isEmpty_false_of_get hget
    obtain ⟨r1, a1⟩ := ih.bidSide rfl
    obtain ⟨r2, a2⟩ := hstep.bidSide hopen
    exact ⟨marketSame_trans ih.market hstep.market, (fun h => by cases h),
      fun _ => ⟨sameRate_trans r1 r2, a2.trans a1⟩,
      fun _ => subsetS_trans (ih.approvers (Or.inr rfl)) (hstep.approvers (Or.inr hopen))⟩

end Ats.Proofs
