/-
  C05 — Authorization: owners cancel, executors operate, approvers approve; no one else.
-/
import AtsProofs.Basic
namespace Ats.Proofs
open Ats Ats.Spec

/-- every accepted request was sent by an account entitled to it, in every state -/
theorem C05_auth (env : Env) (s s' : State) (c : Call) (r : Response)
    (h : execute env s c = .ok (s', r)) : authorized s c.sender c.msg = true := by
  unfold execute at h
  simp only [Res.bind_eq_ok, guardR_eq_ok] at h
  obtain ⟨_, _, h⟩ := h
  cases hm : c.msg <;> simp only [hm] at h <;> simp only [authorized]
  all_goals sorry

end Ats.Proofs
