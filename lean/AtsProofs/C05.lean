/-
  C05 — Authorization: owners cancel, executors operate, approvers approve; no one else.
-/
import AtsProofs.Steps2
namespace Ats.Proofs
open Ats Ats.Spec

theorem modifyContract_auth {env : Env} {s s' : State} {sender : String} {funds : List Coin}
    {ap ex : Option (List String)} {ar aa br ba : Option String} {at_ bt : Option (List String)}
    {r : Response}
    (h : modifyContract env s sender funds ap ex ar aa br ba at_ bt = .ok (s', r)) :
    memS sender s.info.executors = true := by
  unfold modifyContract at h
  simp only [Res.bind_eq_ok, guardR_eq_ok] at h
  obtain ⟨_, hx, _⟩ := h
  exact hx

/-- every accepted request was sent by an account entitled to it — in every state, with no
    invariant assumed: cancel ⇒ the stored owner; match / expire / reject / modify ⇒ a configured
    executor; approve ⇒ a configured approver -/
theorem C05_auth (env : Env) (s s' : State) (c : Call) (r : Response)
    (h : execute env s c = .ok (s', r)) : authorized s c.sender c.msg = true := by
  unfold execute at h
  simp only [Res.bind_eq_ok, guardR_eq_ok] at h
  obtain ⟨_, _, h⟩ := h
  cases hm : c.msg <;> simp only [hm] at h <;> simp only [authorized]
  case cancelAsk id =>
    obtain ⟨a, _, ha, hown, _⟩ := cancelAsk_ok h
    simp [ha, hown]
  case cancelBid id =>
    obtain ⟨b, _, _, _, _, _, hb, hauth, _⟩ := reverseBid_ok h
    simp at hauth
    simp [hb, hauth]
  case approveAsk id base size =>
    obtain ⟨a, hap, _⟩ := approveAsk_ok h
    exact hap
  case executeMatch a b p sz =>
    obtain ⟨_, _, _, _, _, _, _, _, _, _, _, _, hex, _⟩ := executeMatch_ok h
    exact hex
  case expireAsk id =>
    obtain ⟨a, _, hex, _⟩ := reverseAsk_ok h
    exact hex
  case rejectAsk id sz =>
    obtain ⟨a, _, hex, _⟩ := reverseAsk_ok h
    exact hex
  case expireBid id =>
    obtain ⟨b, _, _, _, _, _, hb, hauth, _⟩ := reverseBid_ok h
    simpa using hauth
  case rejectBid id sz =>
    obtain ⟨b, _, _, _, _, _, hb, hauth, _⟩ := reverseBid_ok h
    simpa using hauth
  case modify => exact modifyContract_auth h
  all_goals rfl

/-- a request from a sender who is not entitled to it is refused (contrapositive of
    `C05_auth`); refused requests leave the state unchanged by construction of `run` -/
theorem C05_refused (env : Env) (s : State) (c : Call)
    (h : authorized s c.sender c.msg = false) : ∃ e, execute env s c = .err e := by
  cases hx : execute env s c with
  | err e => exact ⟨e, rfl⟩
  | ok p =>
    have := C05_auth env s p.1 c p.2 (by rw [hx])
    rw [h] at this; cases this

/-- holding one role never confers another: an executor who is not the owner cannot cancel -/
theorem C05_executor_cannot_cancel (env : Env) (s : State) (sender id : String) (funds : List Coin) (a : Ask)
    (ha : s.asks.get? id = some a) (hne : a.owner ≠ sender) :
    ∃ e, execute env s ⟨sender, funds, .cancelAsk id⟩ = .err e := by
  apply C05_refused
  simp [authorized, ha, hne]

/-- an owner who is not an executor cannot expire or reject their own order -/
theorem C05_owner_cannot_expire (env : Env) (s : State) (sender id : String) (funds : List Coin)
    (sz : Option Nat) (hne : memS sender s.info.executors = false) :
    (∃ e, execute env s ⟨sender, funds, .expireAsk id⟩ = .err e) ∧
    (∃ e, execute env s ⟨sender, funds, .rejectAsk id sz⟩ = .err e) ∧
    (∃ e, execute env s ⟨sender, funds, .expireBid id⟩ = .err e) ∧
    (∃ e, execute env s ⟨sender, funds, .rejectBid id sz⟩ = .err e) := by
  refine ⟨?_, ?_, ?_, ?_⟩ <;> apply C05_refused <;> simp [authorized, hne]

/-- an approver who is not an executor cannot match or change the configuration -/
theorem C05_approver_cannot_match (env : Env) (s : State) (sender a b p : String) (sz : Nat)
    (funds : List Coin) (hne : memS sender s.info.executors = false) :
    ∃ e, execute env s ⟨sender, funds, .executeMatch a b p sz⟩ = .err e := by
  apply C05_refused
  simp [authorized, hne]

end Ats.Proofs
