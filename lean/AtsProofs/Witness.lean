/-
  AtsProofs.Witness — non-vacuity.  One concrete history, from instantiation, in which every
  kind of request is accepted at least once from a state that satisfies the hypotheses the
  property theorems carry (`sane`, `ExactStep`, `NoSelfPay`, sender ≠ contract, `feeExact`).
  Every fact here is closed by kernel evaluation (`decide`) of the executable model: the
  hypotheses of the theorems are jointly satisfiable on non-trivial states (fees on both
  sides, a price improvement with a rounded fee share, a partial reject, an approved
  convertible ask), so none of the implications is vacuous.  The property theorems are then
  *applied* to these states, which also cross-checks each theorem's conclusion against direct
  evaluation of the same predicate.
-/
import AtsProofs.C01b
import AtsProofs.C02
import AtsProofs.C03
import AtsProofs.C04
import AtsProofs.C06
import AtsProofs.C07
import AtsProofs.C09
import AtsProofs.C10
import AtsProofs.C12
import AtsProofs.C14
import AtsProofs.C16b
import AtsProofs.C17
import AtsProofs.Claims.C08
namespace Ats.Proofs.Witness
open Ats Ats.Spec Ats.Dec Ats.Proofs

def env : Env :=
  { contract := "contract", restricted := fun d => d == "rquote",
    attrs := fun a => if a == "nobody" then none else some ["kyc"],
    validAddr := fun a => decide (a.length ≥ 3), pkgVersion := "0.19.2", crateName := "ats-smart-contract" }

def inst : InstMsg :=
  { name := "ats", baseDenom := "base", convertible := ["conv"], quotes := ["quote", "rquote"],
    approvers := ["approver"], executors := ["exec"],
    askRate := some "0.1", askAcct := some "askfee", bidRate := some "0.1", bidAcct := some "bidfee",
    askAttrs := ["kyc"], bidAttrs := [], precision := 1, increment := 10 }

def A1 := "00000000-0000-0000-0000-0000000000a1"
def A2 := "00000000-0000-0000-0000-0000000000a2"
def B1 := "00000000-0000-0000-0000-0000000000b1"
def B2 := "00000000-0000-0000-0000-0000000000b2"

/-- the history (all accepted) -/
def calls : List Call :=
  [ ⟨"seller", [⟨"base", 20⟩], .createAsk A1 "base" "quote" "2.5" 20⟩,
    -- bid 30 @ 3: total 90, fee 0.1 × 90 = 9
    ⟨"buyer", [⟨"quote", 99⟩], .createBid B1 "base" (some ⟨"quote", 9⟩) "3" "quote" 90 30⟩,
    -- match 10 @ 2.5 (price improvement): gross 25, ask fee 2.5 → 3, bid fee 3, refund 5
    ⟨"exec", [], .executeMatch A1 B1 "2.5" 10⟩,
    ⟨"exec", [], .rejectBid B1 (some 10)⟩,
    ⟨"seller2", [⟨"conv", 20⟩], .createAsk A2 "conv" "quote" "3" 20⟩,
    ⟨"approver", [⟨"base", 20⟩], .approveAsk A2 "base" 20⟩,
    ⟨"exec", [], .rejectAsk A2 (some 10)⟩,
    -- match the approved convertible ask at the common price
    ⟨"exec", [], .executeMatch A2 B1 "3" 10⟩,
    -- a bid in a restricted quote denomination: pulled in, no funds attached
    ⟨"buyer", [], .createBid B2 "base" (some ⟨"rquote", 3⟩) "2.5" "rquote" 25 10⟩,
    ⟨"exec", [], .modify (some ["approver", "approver2"]) none none none none none none none⟩,
    ⟨"exec", [], .expireAsk A1⟩,
    ⟨"buyer", [], .cancelBid B2⟩ ]

def s0 : State := match instantiate env inst with | .ok (s, _) => s | .err _ => default

/-- the state after a request (unchanged when it is refused) -/
def next (s : State) (c : Call) : State :=
  match execute env s c with
  | .ok (s', _) => s'
  | .err _ => s

theorem next_eq {s s' : State} {c : Call} {r : Response} (h : execute env s c = .ok (s', r)) :
    next s c = s' := by unfold next; rw [h]

/-- state after the first `n` requests -/
def at' : Nat → State
  | 0 => s0
  | n + 1 => match calls[n]? with
    | some c => next (at' n) c
    | none => at' n

/-- decidable sufficient condition for `ExactMatch` -/
def exactMatchB (s : State) (b : Bid) (price : String) (size : Nat) : Bool :=
  match Dec.parse price with
  | none => true
  | some p =>
    exactMul p size &&
    (match Dec.parse b.price with
     | some bp => !Dec.lt p bp || exactMul bp size
     | none => true) &&
    (match s.info.askFee with
     | some fi => (match Dec.parse fi.rate with | some r => exactMul r (product p size) | none => true)
     | none => true)

theorem exactMatch_of_B {s : State} {b : Bid} {price : String} {size : Nat}
    (h : exactMatchB s b price size = true) : ExactMatch s b price size := by
  unfold exactMatchB at h
  constructor
  · intro p hp
    simp only [hp, Bool.and_eq_true] at h
    exact h.1.1
  · intro p bp hp hbp hlt
    simp only [hp, hbp, Bool.and_eq_true, Bool.or_eq_true, Bool.not_eq_true'] at h
    rcases h.1.2 with h' | h'
    · rw [hlt] at h'; cases h'
    · exact h'
  · intro p fi r hp hfi hr
    simp only [hp, hfi, hr, Bool.and_eq_true] at h
    exact h.2

/-- decidable form of `ExactStep` -/
def exactStepB (s : State) : ExecMsg → Bool
  | .executeMatch _ bidId price size =>
    (match loadBid s bidId with
     | some b => exactMatchB s b price size
     | none => true)
  | _ => true

theorem exactStep_of_B {s : State} {m : ExecMsg} (h : exactStepB s m = true) : ExactStep s m := by
  unfold ExactStep
  cases m <;> try trivial
  case executeMatch a bidId price size =>
    intro b hb
    unfold exactStepB at h
    simp only [hb] at h
    exact exactMatch_of_B h

/-- decidable form of `NoSelfPay` -/
def noSelfPayB (contract : String) (msgs : List Msg) : Bool :=
  msgs.all fun m => match flowOf contract m with
    | some f => !(f.frm == contract) || !(f.to == contract)
    | none => true

theorem noSelfPay_of_B {c : String} {msgs : List Msg} (h : noSelfPayB c msgs = true) : NoSelfPay c msgs := by
  intro m hm f hf hfrm hto
  unfold noSelfPayB at h
  rw [List.all_eq_true] at h
  have := h m hm
  simp only [hf, Bool.or_eq_true, Bool.not_eq_true', beq_eq_false_iff_ne, ne_eq] at this
  rcases this with h' | h'
  · exact h' hfrm
  · exact h' hto

theorem ok_of_isOk {α : Type} {x : Res α} (h : x.isOk = true) : ∃ a, x = .ok a := by
  cases x with
  | ok a => exact ⟨a, rfl⟩
  | err e => cases h

/-! ### the history is accepted, request by request, from states meeting every hypothesis -/

/-- instantiation is accepted -/
theorem inst_ok : (instantiate env inst).isOk = true := by decide +kernel

/-- for the `n`-th request: pre-state sane and fee-exact, magnitude hypothesis holds, sender is not
    the contract, accepted, and the contract never pays itself -/
def stepFacts (n : Nat) : Bool :=
  match calls[n]? with
  | none => false
  | some c =>
    let s := at' n
    sane s && feeExact s && exactStepB s c.msg && (c.sender != env.contract) &&
    (match execute env s c with
     | .ok (s', r) => noSelfPayB env.contract r.msgs && sane s' && feeExact s' &&
                      (List.all ["base", "conv", "quote", "rquote"] fun d => C01_denomOK env.contract s c r s' d)
     | .err _ => false)

theorem facts_0 : stepFacts 0 = true := by decide +kernel
theorem facts_1 : stepFacts 1 = true := by decide +kernel
theorem facts_2 : stepFacts 2 = true := by decide +kernel
theorem facts_3 : stepFacts 3 = true := by decide +kernel
theorem facts_4 : stepFacts 4 = true := by decide +kernel
theorem facts_5 : stepFacts 5 = true := by decide +kernel
theorem facts_6 : stepFacts 6 = true := by decide +kernel
theorem facts_7 : stepFacts 7 = true := by decide +kernel
theorem facts_8 : stepFacts 8 = true := by decide +kernel
theorem facts_9 : stepFacts 9 = true := by decide +kernel
theorem facts_10 : stepFacts 10 = true := by decide +kernel
theorem facts_11 : stepFacts 11 = true := by decide +kernel

/-- at the end of the history every order has left the book and nothing is owed in any
    denomination: what was escrowed has been paid out exactly (with `C01_history`: holdings 0) -/
theorem end_state : (at' 12).asks.keys = [] ∧ (at' 12).bids.keys = [] ∧
    (List.all ["base", "conv", "quote", "rquote"] fun d => owed (at' 12) d == 0) = true := by
  decide +kernel

/-- after nine requests both sides of the book are populated (three open orders) -/
theorem mid_state : (at' 9).asks.keys = [A1] ∧ (at' 9).bids.keys = [B2] ∧ owed (at' 9) "rquote" = 28 ∧
    owed (at' 9) "base" = 10 := by
  decide +kernel

/-! ### the property theorems applied to the witness (their hypotheses are met) -/

/-- the price-improved match (request 2): settlement predicate via the theorem -/
example : ∃ s' r, execute env (at' 2) ⟨"exec", [], .executeMatch A1 B1 "2.5" 10⟩ = .ok (s', r) ∧
    C02_matchOK env.contract (at' 2) A1 B1 "2.5" 10 r s' = true ∧
    C03_conds (at' 2) "exec" A1 B1 "2.5" 10 = true ∧
    C10_msgsOK env ⟨"exec", [], .executeMatch A1 B1 "2.5" 10⟩ r = true ∧
    C17_attrsOK (at' 2) ⟨"exec", [], .executeMatch A1 B1 "2.5" 10⟩ r s' = true := by
  have hs : sane (at' 2) = true := by decide +kernel
  have hx : exactStepB (at' 2) (.executeMatch A1 B1 "2.5" 10) = true := by decide +kernel
  obtain ⟨⟨s', r⟩, h⟩ := ok_of_isOk (x := execute env (at' 2) ⟨"exec", [], .executeMatch A1 B1 "2.5" 10⟩) (by decide +kernel)
  refine ⟨s', r, h, ?_, ?_, ?_, ?_⟩
  · exact C02_settled env _ s' _ r A1 B1 "2.5" 10 hs rfl (exactStep_of_B hx) h
  · exact C03_only_if env _ s' ⟨"exec", [], .executeMatch A1 B1 "2.5" 10⟩ r A1 B1 "2.5" 10 rfl h
  · exact C10_mechanism env _ s' _ r hs (exactStep_of_B hx) h
  · exact C17_truthful env _ s' _ r hs (exactStep_of_B hx) h

/-- on that match the fee that leaves the bid is paid out (`C09_fee_leaves`), by direct evaluation:
    the bid held 90 + 9, holds 60 + 6 afterwards (a price improvement of 5 returned, 3 fee
    paid), the ask is owed nothing in the quote denomination -/
example : (match execute env (at' 2) ⟨"exec", [], .executeMatch A1 B1 "2.5" 10⟩ with
    | .ok (s', r) => C09_feeLeavesOK env.contract (at' 2) ⟨"exec", [], .executeMatch A1 B1 "2.5" 10⟩ A1 B1 r s' &&
        bidHeld "quote" (at' 2) B1 == 99 && bidHeld "quote" s' B1 == 66
    | .err _ => false) = true := by decide +kernel

/-- the amounts of that match, computed by the exact-arithmetic specification: gross 25,
    ask fee 3 (2.5 rounded half away from zero), bid fee 3 (the 28-place quotient 65/90 makes the
    fee still needed 6.4999… → 6, one of the two nearest units of the exact tie 6.5), quote
    refund 5, no further fee refund -/
example : ((at' 2).asks.get? A1).bind (fun a => (loadBid (at' 2) B1).bind fun b =>
    matchAmounts (at' 2) a b "2.5" 10) = some ⟨25, 3, 3, 5, 0⟩ := by decide +kernel

/-- partial reject of a bid (request 3) and of an approved convertible ask (request 6) -/
example : ∃ s' r, execute env (at' 3) ⟨"exec", [], .rejectBid B1 (some 10)⟩ = .ok (s', r) ∧
    C04_bidOK env.contract (at' 3) B1 (some 10) r s' = true := by
  obtain ⟨⟨s', r⟩, h⟩ := ok_of_isOk (x := execute env (at' 3) ⟨"exec", [], .rejectBid B1 (some 10)⟩) (by decide +kernel)
  exact ⟨s', r, h, C04_reverse_bid env _ s' ⟨"exec", [], .rejectBid B1 (some 10)⟩ r B1 (some 10)
    (by decide +kernel) (Or.inr rfl) h⟩

example : ∃ s' r, execute env (at' 6) ⟨"exec", [], .rejectAsk A2 (some 10)⟩ = .ok (s', r) ∧
    C04_askOK env.contract (at' 6) A2 (some 10) r s' = true ∧ C08_readyTracks s' = true := by
  obtain ⟨⟨s', r⟩, h⟩ := ok_of_isOk (x := execute env (at' 6) ⟨"exec", [], .rejectAsk A2 (some 10)⟩) (by decide +kernel)
  refine ⟨s', r, h, C04_reverse_ask env _ s' ⟨"exec", [], .rejectAsk A2 (some 10)⟩ r A2 (some 10)
    (by decide +kernel) (Or.inr rfl) h, ?_⟩
  have : s' = at' 7 := (next_eq h).symm
  subst this; decide +kernel

/-- exit liveness on the witness: every open order of the final state can be cancelled -/
example : ∀ k a, (at' 12).asks.get? k = some a →
    ∃ s' r, execute env (at' 12) ⟨a.owner, [], .cancelAsk k⟩ = .ok (s', r) ∧
      C06_askExitOK env.contract (at' 12) k r s' = true :=
  fun k a h => C06_cancel_ask env _ k a (by decide +kernel) h


/-- admission (requests 0, 1, 8): plain funds and pull-in of a restricted denomination -/
example : ∃ s' r, execute env (at' 8) ⟨"buyer", [], .createBid B2 "base" (some ⟨"rquote", 3⟩) "2.5" "rquote" 25 10⟩ = .ok (s', r) ∧
    C07_bidOK env (at' 8) ⟨"buyer", [], .createBid B2 "base" (some ⟨"rquote", 3⟩) "2.5" "rquote" 25 10⟩
      B2 "base" (some ⟨"rquote", 3⟩) "2.5" "rquote" 25 10 r s' = true ∧
    r.msgs = [.transfer ⟨"rquote", 28⟩ "contract" "buyer" "contract"] := by
  obtain ⟨⟨s', r⟩, h⟩ := ok_of_isOk (x := execute env (at' 8) ⟨"buyer", [], .createBid B2 "base" (some ⟨"rquote", 3⟩) "2.5" "rquote" 25 10⟩) (by decide +kernel)
  refine ⟨s', r, h, C07_bid_only_if env _ s' _ r B2 "base" (some ⟨"rquote", 3⟩) "2.5" "rquote" 25 10 rfl ?_ h, ?_⟩
  · intro p rate hp hr
    have hp' : p = ⟨false, 25, 1⟩ := by
      have : Dec.parse "2.5" = some ⟨false, 25, 1⟩ := by decide +kernel
      rw [this] at hp; exact (Option.some.inj hp).symm
    have hr' : rate = ⟨false, 1, 1⟩ := by
      have : bidRate (at' 8).info = some ⟨false, 1, 1⟩ := by decide +kernel
      rw [this] at hr; exact (Option.some.inj hr).symm
    subst hp' hr'; decide +kernel
  · have : (execute env (at' 8) ⟨"buyer", [], .createBid B2 "base" (some ⟨"rquote", 3⟩) "2.5" "rquote" 25 10⟩).toOption.map (·.2.msgs)
        = some [.transfer ⟨"rquote", 28⟩ "contract" "buyer" "contract"] := by decide +kernel
    rw [h] at this; exact Option.some.inj this

/-- a request that meets the admission conditions is accepted (converse direction) -/
example : C07_askMustAccept env (at' 0) ⟨"seller", [⟨"base", 20⟩], .createAsk A1 "base" "quote" "2.5" 20⟩
    A1 "base" "quote" "2.5" 20 = true := by decide +kernel

/-- a legal match is carried out (converse direction of C03) on the witness -/
example : C03_mustAccept (at' 2) ⟨"exec", [], .executeMatch A1 B1 "2.5" 10⟩ A1 B1 "2.5" 10 = true := by
  decide +kernel

/-- configuration change with open orders on both sides (request 9): freeze rules apply -/
example : ∃ s' r, execute env (at' 9) ⟨"exec", [], .modify (some ["approver", "approver2"]) none none none none none none none⟩ = .ok (s', r) ∧
    C12_modifyOK (at' 9) (.modify (some ["approver", "approver2"]) none none none none none none none) s' = true := by
  obtain ⟨⟨s', r⟩, h⟩ := ok_of_isOk (x := execute env (at' 9) ⟨"exec", [], .modify (some ["approver", "approver2"]) none none none none none none none⟩) (by decide +kernel)
  exact ⟨s', r, h, C12_modify env _ s' _ r (by decide +kernel) rfl h⟩

/-- … and a change of the bid fee rate is refused while a bid is open -/
example : (execute env (at' 9) ⟨"exec", [], .modify none none none none (some "0.2") (some "bidfee") none none⟩).isOk = false := by
  decide +kernel

/-! ### migration witness: a book written by version 0.16.3 with an event-log bid -/

def legacy : State :=
  { info := (at' 0).info, version := ⟨"ats-smart-contract", "0.16.3"⟩,
    asks := [(A1, { id := A1, owner := "seller", cls := .basic, base := "base", quote := "quote", price := "2.5", size := 20 })],
    bids := [(B1, .v2 { base := ⟨"base", 30⟩,
                        events := [.fill ⟨"base", 10⟩ (some ⟨"quote", 3⟩) "2.5" ⟨"quote", 25⟩,
                                   .refund none ⟨"quote", 5⟩,
                                   .reject ⟨"base", 10⟩ (some ⟨"quote", 3⟩) ⟨"quote", 30⟩],
                        fee := some ⟨"quote", 9⟩, id := B1, owner := "buyer", price := "3", quote := ⟨"quote", 90⟩ })] }

def mig : MigMsg := { approvers := none, askRate := none, askAcct := none, bidRate := none, bidAcct := none,
                      askAttrs := none, bidAttrs := none }

example : ∃ s' r, migrate env legacy mig = .ok (s', r) ∧ C14_migrateOK env legacy mig s' = true ∧
    C15_bidsOK legacy s' = true ∧
    (loadBid s' B1).map (fun b => (b.remBase, b.remQuote, b.remFee)) = some (10, 30, 3) := by
  obtain ⟨⟨s', r⟩, h⟩ := ok_of_isOk (x := migrate env legacy mig) (by decide +kernel)
  refine ⟨s', r, h, C14_effect env _ s' mig r h, C15_scope env _ s' mig r h, ?_⟩
  have : ((migrate env legacy mig).toOption.bind fun p => (loadBid p.1 B1).map (fun b => (b.remBase, b.remQuote, b.remFee)))
      = some (10, 30, 3) := by decide +kernel
  rw [h] at this; exact this

/-- a version before the supported minimum is refused -/
example : (migrate env { legacy with version := ⟨"ats-smart-contract", "0.16.1"⟩ } mig).isOk = false := by
  decide +kernel

theorem reach_s0 : Reach s0 := by
  obtain ⟨⟨s, r⟩, h⟩ := ok_of_isOk (x := instantiate env inst) (by decide +kernel)
  have : s0 = s := by unfold s0; rw [h]
  rw [this]
  exact Reach.init env inst s r h

theorem reach_step (n : Nat) (hr : Reach (at' n)) (hf : stepFacts n = true) : Reach (at' (n + 1)) := by
  unfold stepFacts at hf
  cases hc : calls[n]? with
  | none => simp [hc] at hf
  | some c =>
    simp only [hc, Bool.and_eq_true] at hf
    obtain ⟨⟨⟨⟨_, _⟩, hx⟩, _⟩, hex⟩ := hf
    cases h : execute env (at' n) c with
    | err e => simp [h] at hex
    | ok p =>
      obtain ⟨s', r⟩ := p
      have : at' (n + 1) = s' := by
        show (match calls[n]? with | some c => next (at' n) c | none => at' n) = s'
        rw [hc]; exact next_eq h
      rw [this]
      exact Reach.step env (at' n) s' c r hr (exactStep_of_B hx) h

/-- the whole history is a `Reach` derivation: the reachable-state theorems apply to it -/
theorem reach_end : Reach (at' 12) :=
  reach_step 11 (reach_step 10 (reach_step 9 (reach_step 8 (reach_step 7 (reach_step 6
    (reach_step 5 (reach_step 4 (reach_step 3 (reach_step 2 (reach_step 1 (reach_step 0 reach_s0
      facts_0) facts_1) facts_2) facts_3) facts_4) facts_5) facts_6) facts_7) facts_8) facts_9)
      facts_10) facts_11

/-- hence the reachable-state theorems speak about it: e.g. the approver amount tracks the size -/
example : ∀ k a ap conv, (at' 12).asks.get? k = some a → a.cls = .ready ap conv →
    conv.amount = a.size ∧ conv.denom = (at' 12).info.baseDenom :=
  fun k a ap conv hk hc => C08_tracks reach_end k a ap conv hk hc

end Ats.Proofs.Witness
