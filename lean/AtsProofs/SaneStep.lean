/-
  AtsProofs.SaneStep — the structural invariant `sane` is preserved by every accepted request
  (matches under the magnitude hypothesis), and holds after instantiation.
-/
import AtsProofs.C01
namespace Ats.Proofs
open Ats Ats.Spec

structure SaneP (s : State) : Prop where
  info : infoSane s.info = true
  dasks : Book.Distinct s.asks
  dbids : Book.Distinct s.bids
  asks : ∀ kv ∈ s.asks, askSane s.info kv.1 kv.2 = true
  bids : ∀ kv ∈ s.bids, bidSane s.info kv.1 kv.2 = true

theorem sane_iff {s : State} : sane s = true ↔ SaneP s := by
  unfold sane
  simp only [Bool.and_eq_true, List.all_eq_true]
  constructor
  · rintro ⟨⟨⟨⟨h1, h2⟩, h3⟩, h4⟩, h5⟩
    exact ⟨h1, Book.distinct_of_bool h2, Book.distinct_of_bool h3, h4, h5⟩
  · rintro ⟨h1, h2, h3, h4, h5⟩
    exact ⟨⟨⟨⟨h1, Book.bool_of_distinct h2⟩, Book.bool_of_distinct h3⟩, h4⟩, h5⟩

theorem all_set {V : Type} {b : Book V} {k : String} {v : V} {P : String × V → Prop}
    (h : ∀ kv ∈ b, P kv) (hv : P (k, v)) : ∀ kv ∈ b.set k v, P kv := by
  intro kv hm
  rcases Book.mem_set hm with h1 | h1
  · rw [h1]; exact hv
  · exact h kv h1

theorem all_del {V : Type} {b : Book V} {k : String} {P : String × V → Prop}
    (h : ∀ kv ∈ b, P kv) : ∀ kv ∈ b.del k, P kv :=
  fun kv hm => h kv (Book.mem_del hm).1

theorem all_putAsk {asks : Book Ask} {k : String} {a : Ask} {P : String × Ask → Prop}
    (h : ∀ kv ∈ asks, P kv) (hv : a.size ≠ 0 → P (k, a)) : ∀ kv ∈ putAsk asks k a, P kv := by
  unfold putAsk
  by_cases h0 : a.size = 0
  · simp only [h0, beq_self_eq_true, if_true]; exact all_del h
  · simp only [h0, beq_iff_eq, if_false]; exact all_set h (hv h0)

theorem all_putBid {bids : Book BidEntry} {k : String} {b : Bid} {P : String × BidEntry → Prop}
    (h : ∀ kv ∈ bids, P kv) (hv : b.base.amount - b.accBase ≠ 0 → P (k, .v3 b)) :
    ∀ kv ∈ putBid bids k b, P kv := by
  unfold putBid
  by_cases h0 : b.base.amount - b.accBase = 0
  · simp only [h0, beq_self_eq_true, if_true]; exact all_del h
  · simp only [h0, beq_iff_eq, if_false]; exact all_set h (hv h0)

theorem distinct_putAsk {asks : Book Ask} (k : String) (a : Ask) (h : Book.Distinct asks) :
    Book.Distinct (putAsk asks k a) := by
  unfold putAsk; split
  · exact Book.distinct_del k h
  · exact Book.distinct_set k a h

theorem distinct_putBid {bids : Book BidEntry} (k : String) (b : Bid) (h : Book.Distinct bids) :
    Book.Distinct (putBid bids k b) := by
  unfold putBid; split
  · exact Book.distinct_del k h
  · exact Book.distinct_set k (.v3 b) h

/-! ### the uuid forms -/

theorem hyphenated_mono {cs : List Char} (h : hyphenatedShape isHexLower cs = true) :
    hyphenatedShape isHexAny cs = true := by
  unfold hyphenatedShape at *
  simp only [Bool.and_eq_true, List.all_eq_true] at *
  refine ⟨h.1, fun x hx => ?_⟩
  have := h.2 x hx
  split at this
  · simp_all
  · rename_i hne
    simp only [hne]
    unfold isHexLower at this
    unfold isHexAny
    simp only [Bool.false_eq_true, if_false, Bool.or_eq_true] at this ⊢
    exact Or.inl this

theorem canonical_anyForm {s : String} (h : isCanonicalUuid s = true) : isUuidAnyForm s = true := by
  unfold isCanonicalUuid at h
  have h2 := hyphenated_mono h
  unfold isUuidAnyForm
  have hlen : s.toList.length = 36 := by
    unfold hyphenatedShape at h
    simp only [Bool.and_eq_true, beq_iff_eq] at h
    exact h.1
  simp only [hlen]
  exact h2

/-! ### sanity of the entries the handlers write -/

theorem askSane_new {info : Info} {id sender base quote price : String} {size : Nat}
    (hid : isCanonicalUuid id = true) (hsz : size ≥ 1) (hp : priceOK info price = true)
    (hq : memS quote info.quotes = true)
    (hb : base = info.baseDenom ∨ memS base info.convertible = true) :
    askSane info id ⟨id, sender, if (base != info.baseDenom) = true then .pending else .basic,
      base, quote, price, size⟩ = true := by
  unfold askSane
  simp only [beq_self_eq_true, canonical_anyForm hid, hp, hq, Bool.true_and, Bool.and_eq_true,
    decide_eq_true_eq]
  refine ⟨⟨⟨by omega, trivial⟩, trivial⟩, ?_⟩
  by_cases hbb : base = info.baseDenom
  · simp [hbb]
  · rcases hb with hb | hb
    · exact absurd hb hbb
    · simp [hbb, hb]

theorem askSane_approved {info : Info} {k sender : String} {a : Ask}
    (h : askSane info k a = true) (hp : a.cls = .pending) :
    askSane info k { a with cls := .ready sender ⟨info.baseDenom, a.size⟩ } = true := by
  unfold askSane at *
  simp only [hp, Bool.and_eq_true] at h ⊢
  exact ⟨h.1, ⟨h.2, by simp⟩, by simp⟩

theorem askSane_reduce {info : Info} {k : String} {a : Ask} {n : Nat}
    (h : askSane info k a = true) (hn : (a.reduce n).size ≠ 0) :
    askSane info k (a.reduce n) = true := by
  unfold askSane at *
  unfold Ask.reduce at *
  simp only [Bool.and_eq_true, decide_eq_true_eq] at h hn ⊢
  obtain ⟨⟨⟨⟨⟨h1, h2⟩, h3⟩, h4⟩, h5⟩, h6⟩ := h
  refine ⟨⟨⟨⟨⟨h1, h2⟩, by omega⟩, h4⟩, h5⟩, ?_⟩
  cases hc : a.cls <;> simp only [hc] at h6 ⊢
  · exact h6
  · exact h6
  · simp only [Bool.and_eq_true, beq_iff_eq] at h6 ⊢
    exact ⟨⟨h6.1.1, h6.1.2⟩, trivial⟩

/-- the quote invariant after `q = price × n` of quote and `n` of base were consumed -/
theorem quoteInv_accumulate {b : Bid} {bp : Dec} {n q f : Nat} (hp : Dec.parse b.price = some bp)
    (hinv : quoteInv b = true) (hq : q * 10 ^ bp.scale = bp.mant * n)
    (hqle : b.accQuote + q ≤ b.quote.amount) (hnle : b.accBase + n ≤ b.base.amount) :
    quoteInv (b.accumulate n q f) = true := by
  unfold quoteInv at *
  simp only [hp, beq_iff_eq] at hinv
  simp only [Bid.accumulate, hp, beq_iff_eq, Bid.remQuote, Bid.remBase] at hinv ⊢
  have e1 : b.quote.amount - (b.accQuote + q) = (b.quote.amount - b.accQuote) - q := by omega
  have e2 : b.base.amount - (b.accBase + n) = (b.base.amount - b.accBase) - n := by omega
  rw [e1, e2, Nat.sub_mul, Nat.mul_sub, hinv, hq]

theorem bidSane_accumulate {info : Info} {k : String} {b : Bid} {bp : Dec} {n q f : Nat}
    (h : bidSane info k (.v3 b) = true) (hp : Dec.parse b.price = some bp)
    (hq : q * 10 ^ bp.scale = bp.mant * n)
    (hqle : b.accQuote + q ≤ b.quote.amount) (hfle : b.accFee + f ≤ b.feeAmount)
    (hkeep : (b.accumulate n q f).base.amount - (b.accumulate n q f).accBase ≠ 0) :
    bidSane info k (.v3 (b.accumulate n q f)) = true := by
  have hf := bidSane_facts h
  have hnle : b.accBase + n ≤ b.base.amount := by
    simp only [Bid.accumulate] at hkeep; omega
  have hqi := quoteInv_accumulate (f := f) hp hf.qinv hq hqle hnle
  unfold bidSane at *
  simp only [Bool.and_eq_true, decide_eq_true_eq] at h ⊢
  obtain ⟨⟨⟨⟨⟨⟨⟨⟨⟨⟨⟨⟨h1, h2⟩, h3⟩, h4⟩, h5⟩, h6⟩, h7⟩, h8⟩, h9⟩, h10⟩, h11⟩, h12⟩, h13⟩ := h
  refine ⟨⟨⟨⟨⟨⟨⟨⟨⟨⟨⟨⟨h1, h2⟩, h3⟩, ?_⟩, ?_⟩, ?_⟩, hqi⟩, h8⟩, h9⟩, h10⟩, h11⟩, h12⟩, h13⟩
  · simp only [Bid.accumulate] at hkeep ⊢; omega
  · simpa [Bid.accumulate] using hqle
  · simpa [Bid.accumulate, Bid.feeAmount] using hfle

theorem bidSane_new {info : Info} {id sender base quote price : String} {fee : Option Coin}
    {qs size feeSize : Nat} {p : Dec}
    (hid : isCanonicalUuid id = true) (hsz : size ≥ 1) (hp : priceOK info price = true)
    (hpp : Dec.parse price = some p) (hw : wholeProduct p size = true) (hprod : product p size = qs)
    (hsl : size < LIM) (hql : qs < LIM) (hfl : feeSize < LIM) (hfm : feeMatches fee feeSize quote)
    (hb : base = info.baseDenom) (hq : memS quote info.quotes = true) :
    bidSane info id (.v3 ⟨⟨base, size⟩, 0, 0, 0, fee, id, sender, price, ⟨quote, qs⟩⟩) = true := by
  have hqi : qs * 10 ^ p.scale = p.mant * size := by
    rw [← hprod]
    unfold wholeProduct at hw
    simp only [beq_iff_eq] at hw
    unfold product
    exact Nat.div_mul_cancel (Nat.dvd_of_mod_eq_zero hw)
  have hfa : feeAmt fee < LIM := by
    unfold feeMatches at hfm
    unfold feeAmt
    cases fee with
    | none => decide
    | some f => simp only at hfm ⊢; rw [hfm.1]; exact hfl
  have hfeq : Bid.feeAmount ⟨⟨base, size⟩, 0, 0, 0, fee, id, sender, price, ⟨quote, qs⟩⟩ = feeAmt fee := by
    unfold Bid.feeAmount feeAmt; cases fee <;> rfl
  unfold bidSane quoteInv
  simp only [hfeq]
  simp only [beq_self_eq_true, canonical_anyForm hid, hp, hpp, hq, hb, Bid.remQuote, Bid.remBase,
    Nat.sub_zero, hqi, Bool.true_and, Bool.and_eq_true, decide_eq_true_eq, hsl, hql, hfa,
    Nat.zero_le, and_true]
  refine ⟨by omega, ?_⟩
  unfold feeMatches at hfm
  cases fee with
  | none => rfl
  | some f => simp only at hfm ⊢; simp [hfm.2]

theorem infoSane_modify {info : Info} {ap ex : Option (List String)} {ar aa br ba : Option String}
    {at_ bt : Option (List String)} {env : Env}
    (h : infoSane info = true) (hex : ∀ l, ex = some l → l.isEmpty = false)
    (h1 : FeePairFine env aa ar) (h2 : FeePairFine env ba br) :
    infoSane { info with approvers := ap.getD info.approvers, executors := ex.getD info.executors,
                         askFee := feeAfter info.askFee ar aa, bidFee := feeAfter info.bidFee br ba,
                         askAttrs := at_.getD info.askAttrs, bidAttrs := bt.getD info.bidAttrs } = true := by
  unfold infoSane at *
  simp only [Bool.and_eq_true, decide_eq_true_eq, beq_iff_eq, Bool.not_eq_true'] at h ⊢
  obtain ⟨⟨⟨⟨⟨h3, h4⟩, h5⟩, h6⟩, h7⟩, h8⟩ := h
  have hrate : ∀ (old : Option FeeInfo) (r a : Option String), rateOK old = true → FeePairFine env a r →
      rateOK (feeAfter old r a) = true := by
    intro old r a ho hfp
    unfold feeAfter
    cases r with
    | none => exact ho
    | some rr =>
      cases a with
      | none => exact ho
      | some aa' =>
        by_cases hc : aa' = "" ∧ rr = ""
        · simp [hc, rateOK]
        · simp only [hc, if_false, rateOK]
          rcases hfp aa' rr rfl rfl with h | h
          · exact absurd h hc
          · exact h.1
  refine ⟨⟨⟨⟨⟨h3, h4⟩, h5⟩, ?_⟩, hrate _ _ _ h7 h1⟩, hrate _ _ _ h8 h2⟩
  cases ex with
  | none => exact h6
  | some l => exact hex l rfl

theorem mem_of_get? {V : Type} {b : Book V} {k : String} {v : V} (h : b.get? k = some v) : (k, v) ∈ b :=
  Book.get?_some_mem h

/-- every accepted request preserves the structural invariant (matches: under the magnitude
    hypothesis of finding F6) -/
theorem Sane_step (env : Env) (s s' : State) (c : Call) (r : Response)
    (hs : sane s = true) (hx : ExactStep s c.msg)
    (h : execute env s c = .ok (s', r)) : sane s' = true := by
  have hP := sane_iff.mp hs
  rw [sane_iff]
  unfold execute at h
  simp only [Res.bind_eq_ok, guardR_eq_ok] at h
  obtain ⟨_, hv, h⟩ := h
  cases hm : c.msg <;> simp only [hm] at h hx hv
  case createAsk id base quote price size =>
    simp only [ExecMsg.valid, Bool.and_eq_true, decide_eq_true_eq] at hv
    obtain ⟨hb, _, hq, _, _, hp, _, _, _, rfl, _⟩ := createAsk_ok h
    exact ⟨hP.info, Book.distinct_set _ _ hP.dasks, hP.dbids,
      all_set hP.asks (askSane_new hv.1.1.1.1 hv.2 hp hq hb), hP.bids⟩
  case createBid id base fee price quote qs size =>
    simp only [ExecMsg.valid, Bool.and_eq_true, decide_eq_true_eq] at hv
    obtain ⟨p, total, rate, feeSize, hp, _, hsz, ht, hfr, hlim, heq, _, hfee, hfm, hq, hb, _, _, _, _, rfl, _⟩ :=
      createBid_ok h
    obtain ⟨hpp, _, hpn, _⟩ := checkPrice_ok.mp hp
    have hpok := checkPrice_priceOK hp
    have hsl : size < LIM := (Dec.total_inv ht).1
    have hw := whole_lot hP.info hpok hpp hsz
    have htn : total.neg = false := Dec.mul_nat_neg hpn (Dec.total_inv ht).2
    have htu : total.toU128 = some total.trunc := by simp [Dec.toU128, Dec.trunc, htn]
    obtain ⟨_, hg⟩ := Dec.total_exact (Dec.parse_scale hpp) hpn (exactMul_of_whole hsl hw) ht hfr htu
    have hmant := eqv_ofNat htn heq
    have htrunc : total.trunc = qs := by
      unfold Dec.trunc; rw [hmant, Nat.mul_div_cancel _ (Dec.pow10_pos _)]
    exact ⟨hP.info, hP.dasks, Book.distinct_set _ _ hP.dbids, hP.asks,
      all_set hP.bids (bidSane_new hv.1.1.1.1.1 hv.2 hpok hpp hw (by rw [← hg, htrunc]) hsl hlim
        (Dec.rateFee_lt hfee) hfm hb hq)⟩
  case approveAsk id base size =>
    obtain ⟨a, _, _, ha, hp, rfl, rfl, _, rfl, _⟩ := approveAsk_ok h
    exact ⟨hP.info, Book.distinct_set _ _ hP.dasks, hP.dbids,
      all_set hP.asks (askSane_approved (hP.asks _ (mem_of_get? ha)) hp), hP.bids⟩
  case cancelAsk id =>
    obtain ⟨a, _, ha, _, _, _, rfl, _⟩ := cancelAsk_ok h
    exact ⟨hP.info, Book.distinct_del _ hP.dasks, hP.dbids, all_del hP.asks, hP.bids⟩
  case expireAsk id =>
    obtain ⟨a, _, _, ha, _, _, _, _, rfl, _⟩ := reverseAsk_ok h
    have hsa := hP.asks _ (mem_of_get? ha)
    have hid := (askSane_facts hsa).id_eq
    exact ⟨hP.info, distinct_putAsk _ _ hP.dasks, hP.dbids,
      all_putAsk hP.asks (fun hn => by rw [hid]; exact askSane_reduce hsa hn), hP.bids⟩
  case rejectAsk id sz =>
    obtain ⟨a, _, _, ha, _, _, _, _, rfl, _⟩ := reverseAsk_ok h
    have hsa := hP.asks _ (mem_of_get? ha)
    have hid := (askSane_facts hsa).id_eq
    exact ⟨hP.info, distinct_putAsk _ _ hP.dasks, hP.dbids,
      all_putAsk hP.asks (fun hn => by rw [hid]; exact askSane_reduce hsa hn), hP.bids⟩
  case cancelBid id =>
    obtain ⟨b, p, tq, effQuote, effFee, _, hb, _, _, hinc, hle, hpp, htq, hfr, hu, hcf, _, rfl, _⟩ := reverseBid_ok h
    have hsb := hP.bids _ (mem_of_get? (loadBid_some.mp hb))
    have hfb := bidSane_facts hsb
    obtain ⟨hg, hqle, _⟩ := reverseBid_amounts hs hb rfl hinc hle hpp htq hfr hu
    have hw : wholeProduct p (none.getD b.remBase) = true := (whole_rem hfb.qinv hpp).1
    have hqi : effQuote * 10 ^ p.scale = p.mant * (none : Option Nat).getD b.remBase := by
      rw [hg]; unfold wholeProduct at hw; simp only [beq_iff_eq] at hw
      unfold product; exact Nat.div_mul_cancel (Nat.dvd_of_mod_eq_zero hw)
    have hfee : b.accFee + effFee.getD 0 ≤ b.feeAmount := by
      have hfl := hfb.fee_le
      rcases cancelFee_ok.mp hcf with ⟨_, rfl⟩ | ⟨f, need, hff, hsp, rfl⟩
      · simpa using hfl
      · have := hsp.hle; simp only [Option.getD_some]; unfold Bid.remFee at this ⊢; omega
    have hqa : b.accQuote + effQuote ≤ b.quote.amount := by
      have := hfb.quote_le; unfold Bid.remQuote at hqle; omega
    exact ⟨hP.info, hP.dasks, distinct_putBid _ _ hP.dbids, hP.asks,
      all_putBid hP.bids (fun hn => by rw [hfb.id_eq]; exact bidSane_accumulate hsb hpp hqi hqa hfee hn)⟩
  case expireBid id =>
    obtain ⟨b, p, tq, effQuote, effFee, _, hb, _, _, hinc, hle, hpp, htq, hfr, hu, hcf, _, rfl, _⟩ := reverseBid_ok h
    have hsb := hP.bids _ (mem_of_get? (loadBid_some.mp hb))
    have hfb := bidSane_facts hsb
    obtain ⟨hg, hqle, _⟩ := reverseBid_amounts hs hb rfl hinc hle hpp htq hfr hu
    have hw : wholeProduct p (none.getD b.remBase) = true := (whole_rem hfb.qinv hpp).1
    have hqi : effQuote * 10 ^ p.scale = p.mant * (none : Option Nat).getD b.remBase := by
      rw [hg]; unfold wholeProduct at hw; simp only [beq_iff_eq] at hw
      unfold product; exact Nat.div_mul_cancel (Nat.dvd_of_mod_eq_zero hw)
    have hfee : b.accFee + effFee.getD 0 ≤ b.feeAmount := by
      have hfl := hfb.fee_le
      rcases cancelFee_ok.mp hcf with ⟨_, rfl⟩ | ⟨f, need, hff, hsp, rfl⟩
      · simpa using hfl
      · have := hsp.hle; simp only [Option.getD_some]; unfold Bid.remFee at this ⊢; omega
    have hqa : b.accQuote + effQuote ≤ b.quote.amount := by
      have := hfb.quote_le; unfold Bid.remQuote at hqle; omega
    exact ⟨hP.info, hP.dasks, distinct_putBid _ _ hP.dbids, hP.asks,
      all_putBid hP.bids (fun hn => by rw [hfb.id_eq]; exact bidSane_accumulate hsb hpp hqi hqa hfee hn)⟩
  case rejectBid id sz =>
    obtain ⟨b, p, tq, effQuote, effFee, _, hb, _, _, hinc, hle, hpp, htq, hfr, hu, hcf, _, rfl, _⟩ := reverseBid_ok h
    have hsb := hP.bids _ (mem_of_get? (loadBid_some.mp hb))
    have hfb := bidSane_facts hsb
    obtain ⟨hg, hqle, _⟩ := reverseBid_amounts hs hb rfl hinc hle hpp htq hfr hu
    have hw : wholeProduct p (sz.getD b.remBase) = true := by
      cases hr : sz with
      | none => exact (whole_rem hfb.qinv hpp).1
      | some n =>
        rw [hr] at hinc
        simp at hinc
        exact whole_lot hP.info hfb.price_ok hpp hinc
    have hqi : effQuote * 10 ^ p.scale = p.mant * sz.getD b.remBase := by
      rw [hg]; unfold wholeProduct at hw; simp only [beq_iff_eq] at hw
      unfold product; exact Nat.div_mul_cancel (Nat.dvd_of_mod_eq_zero hw)
    have hfee : b.accFee + effFee.getD 0 ≤ b.feeAmount := by
      have hfl := hfb.fee_le
      rcases cancelFee_ok.mp hcf with ⟨_, rfl⟩ | ⟨f, need, hff, hsp, rfl⟩
      · simpa using hfl
      · have := hsp.hle; simp only [Option.getD_some]; unfold Bid.remFee at this ⊢; omega
    have hqa : b.accQuote + effQuote ≤ b.quote.amount := by
      have := hfb.quote_le; unfold Bid.remQuote at hqle; omega
    exact ⟨hP.info, hP.dasks, distinct_putBid _ _ hP.dbids, hP.asks,
      all_putBid hP.bids (fun hn => by rw [hfb.id_eq]; exact bidSane_accumulate hsb hpp hqi hqa hfee hn)⟩
  case executeMatch aid bid price size =>
    obtain ⟨a, b, askP, bidP, execP, grossD, gross, askFee, bidFee, m2, m3, rp, _, _, ha, hb, _,
      hap, hbp, hep, hpr, _, hsa, hsb, hg, hfr, hgu, haf, _, hbf, _, _, hrp, rfl, _⟩ := executeMatch_ok h
    have hsa' := hP.asks _ (mem_of_get? ha)
    have hsb' := hP.bids _ (mem_of_get? (loadBid_some.mp hb))
    have hfa := askSane_facts hsa'
    have hfb := bidSane_facts hsb'
    obtain ⟨bp', hbp', hbpz, hbpn, _⟩ := priceOK_parse hfb.price_ok
    rw [hbp] at hbp'; cases hbp'
    obtain ⟨ap', hap', hapz, hapn, _⟩ := priceOK_parse hfa.price_ok
    rw [hap] at hap'; cases hap'
    have hepn : execP.neg = false := by
      rcases priceRule_ok.mp hpr with ⟨_, he | he⟩ | ⟨_, _, he⟩
      · exact eqv_pos_neg hapn hapz he
      · exact eqv_pos_neg hbpn hbpz he
      · exact eqv_pos_neg hapn hapz he
    obtain ⟨refund, feeRefund, _, hrpe, _⟩ :=
      matchAmounts_model (a := a) (by rw [hfb.id_eq]; exact hfb) (hx b hb) hep hbp hepn hbpn hg hfr hgu haf hbf hrp
    have hrp2 : rp.2 = (b.accumulate size gross bidFee).accumulate 0 refund feeRefund := by rw [hrpe]
    have heff := match_bid_effect (a := a) (by rw [hfb.id_eq]; exact hfb) (hx b hb) hapn hbpn hepn hep hbp hpr hsb
      hg hfr hgu hbf hrp hrp2
    have hacc2 : (b.accumulate size gross bidFee).accumulate 0 refund feeRefund =
        b.accumulate size (gross + refund) (bidFee + feeRefund) := by
      simp [Bid.accumulate, Nat.add_assoc]
    rw [hrp2, hacc2]
    have hka : aid = a.id := hfa.id_eq.symm
    have hkb : bid = b.id := hfb.id_eq.symm
    exact ⟨hP.info, distinct_putAsk _ _ hP.dasks, distinct_putBid _ _ hP.dbids,
      all_putAsk hP.asks (fun hn => askSane_reduce hsa' hn),
      all_putBid hP.bids (fun hn => bidSane_accumulate hsb' hbp (heff.hinv bidP hbp) heff.hq heff.hf hn)⟩
  case modify ap ex ar aa br ba at_ bt =>
    simp only [ExecMsg.valid, Bool.and_eq_true] at hv
    obtain ⟨_, _, _, _, _, _, _, _, _, _, h1, h2, rfl, _⟩ := modifyContract_ok h
    refine ⟨infoSane_modify hP.info ?_ h1 h2, hP.dasks, hP.dbids, ?_, ?_⟩
    · intro l hl
      have := hv.1.1.2
      rw [hl] at this
      simpa using this
    · intro kv hkv; have := hP.asks kv hkv; unfold askSane priceOK at *; exact this
    · intro kv hkv; have := hP.bids kv hkv; unfold bidSane priceOK at *; exact this

end Ats.Proofs
