/-
  C13 — Instantiation accepts exactly the coherent configurations.
-/
import AtsProofs.Steps2
namespace Ats.Proofs
open Ats Ats.Spec

theorem feePairCoherent_iff (env : Env) (rate acct : Option String) :
    feePairCoherent env rate acct = true ↔ pairOk rate acct = true ∧ FeePairFine env acct rate := by
  unfold feePairCoherent pairOk FeePairFine
  cases rate <;> cases acct <;> simp

/-- C13, both directions: instantiate succeeds exactly for the coherent configurations -/
theorem C13_iff (env : Env) (m : InstMsg) :
    (∃ s r, instantiate env m = .ok (s, r)) ↔ coherent env m = true := by
  unfold instantiate coherent InstMsg.valid
  simp only [Res.bind_eq_ok, guardR_eq_ok, validAddrs_ok, Res.pure_eq, Res.ok.injEq, Prod.mk.injEq,
    Bool.and_eq_true, feePairCoherent_iff, decide_eq_true_eq, bne_iff_ne, ne_eq, beq_iff_eq,
    Bool.not_eq_true']
  constructor
  · rintro ⟨s, r, _, ⟨⟨⟨⟨⟨⟨⟨h1, h2⟩, h3⟩, h4⟩, h5⟩, h6⟩, h7⟩, h8⟩, _, h9, _, h10, af, haf, bf, hbf, _, h11, _⟩
    exact ⟨⟨⟨⟨⟨⟨⟨⟨⟨⟨h1, h2⟩, h3⟩, h4⟩, h7⟩, h8⟩, h11⟩, h5, (feePair_inv haf).1⟩, h6, (feePair_inv hbf).1⟩, h9⟩, h10⟩
  · rintro ⟨⟨⟨⟨⟨⟨⟨⟨⟨⟨h1, h2⟩, h3⟩, h4⟩, h7⟩, h8⟩, h11⟩, h5, ha⟩, h6, hb⟩, h9⟩, h10⟩
    obtain ⟨af, haf, _⟩ := feePair_prog ha
    obtain ⟨bf, hbf, _⟩ := feePair_prog hb
    exact ⟨_, _, (), ⟨⟨⟨⟨⟨⟨⟨h1, h2⟩, h3⟩, h4⟩, h5⟩, h6⟩, h7⟩, h8⟩, (), h9, (), h10, af, haf, bf, hbf, (), h11,
      rfl, rfl⟩

/-- the stored configuration and version record equal the request -/
theorem C13_stored (env : Env) (m : InstMsg) (s : State) (r : Response)
    (h : instantiate env m = .ok (s, r)) : Spec.C13_stored env m s = true := by
  unfold instantiate at h
  simp only [Res.bind_eq_ok, guardR_eq_ok, validAddrs_ok, Res.pure_eq, Res.ok.injEq, Prod.mk.injEq] at h
  obtain ⟨_, _, _, _, _, _, af, haf, bf, hbf, _, _, rfl, _⟩ := h
  have ha := (feePair_inv haf).2 none
  have hb := (feePair_inv hbf).2 none
  simp [Spec.C13_stored, ha, hb]

/-- the arithmetic the precision / increment rule is there for: in an accepted configuration a
    price with at most `precision` decimals times a lot-multiple size is a whole number -/
theorem C13_integral (precision increment size : Nat) (p : Dec)
    (hinc : increment % 10 ^ precision = 0)
    (hprice : (p.mant * 10 ^ precision) % 10 ^ p.scale = 0)
    (hsize : size % increment = 0) :
    wholeProduct p size = true := by
  unfold wholeProduct
  have h1 : 10 ^ precision ∣ increment := Nat.dvd_of_mod_eq_zero hinc
  have h2 : increment ∣ size := Nat.dvd_of_mod_eq_zero hsize
  have h3 : 10 ^ p.scale ∣ p.mant * 10 ^ precision := Nat.dvd_of_mod_eq_zero hprice
  obtain ⟨k, hk⟩ := Nat.dvd_trans h1 h2
  have : 10 ^ p.scale ∣ p.mant * size := by
    rw [hk, ← Nat.mul_assoc]
    exact Nat.dvd_trans h3 (Nat.dvd_mul_right _ _)
  simp [Nat.mod_eq_zero_of_dvd this]

/-- non-vacuity: a concrete coherent configuration is accepted and stored as requested -/
example :
    let env : Env := { contract := "c", restricted := fun _ => false, attrs := fun _ => some [],
                       validAddr := fun a => a.length ≥ 3, pkgVersion := "1.0.0", crateName := "ats" }
    let m : InstMsg := { name := "ats", baseDenom := "base", convertible := ["conv"], quotes := ["q"],
                         approvers := ["carol"], executors := ["erin"], askRate := some "0.01",
                         askAcct := some "frank", bidRate := none, bidAcct := none, askAttrs := [],
                         bidAttrs := [], precision := 2, increment := 100 }
    coherent env m = true ∧ (instantiate env m).isOk = true := by decide

end Ats.Proofs
