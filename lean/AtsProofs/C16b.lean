/-
  C16 (continued) — what a bid query reports is what a cancel returns.
-/
import AtsProofs.C16
import AtsProofs.C06
namespace Ats.Proofs
open Ats Ats.Spec

/-- the amounts reported for a bid – its unspent quote and unspent fee – are exactly those an
    immediately following cancel by its owner pays out, and that cancel succeeds -/
theorem C16_next_bid (env : Env) (s : State) (id : String) (b : Bid) (hs : sane s = true)
    (hq : query s (.getBid id) = .ok (.bid b)) :
    ∃ s' r, execute env s ⟨b.owner, [], .cancelBid id⟩ = .ok (s', r) ∧
      paysExactly env.contract r.msgs
        [(b.owner, b.quote.denom, b.remQuote), (b.owner, b.quote.denom, b.remFee)] = true ∧
      s'.bids.get? id = none := by
  have := query_ok.mp hq
  simp only at this
  obtain ⟨_, b', hb', he⟩ := this
  cases he
  obtain ⟨s', r, hx, hok⟩ := C06_cancel_bid env s id b hs hb'
  refine ⟨s', r, hx, ?_⟩
  unfold C06_bidExitOK at hok
  simp only [hb', Bool.and_eq_true, Option.isNone_iff_eq_none] at hok
  exact hok

end Ats.Proofs
