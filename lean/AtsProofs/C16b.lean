/-
  C16 (continued) — what a bid query reports is what a cancel returns.
-/
import AtsProofs.C16
import AtsProofs.C06
namespace Ats.Proofs
open Ats Ats.Spec

/-- the amounts reported for a bid – its unspent quote and unspent fee – are exactly those an
    immediately following cancel by its owner pays out, and that cancel succeeds -/
theorem C16_next_bid (env : Env) (s : State) (id : String) (b : Bid) (hs : sane s = true)
    (hq : query s (.getBid id) = .ok (.bid b)) :
    ∃ s' r, execute env s ⟨b.owner, [], .cancelBid id⟩ = .ok (s', r) ∧
      paysExactly env.contract r.msgs
        [(b.owner, b.quote.denom, b.remQuote), (b.owner, b.quote.denom, b.remFee)] = true ∧
      s'.bids.get? id = none := by
  have := query_ok.mp hq
  simp only at this
  obtain ⟨_, b', hb', he⟩ := this
  cases he
  obtain ⟨s', r, hx, hok⟩ := C06_cancel_bid env s id b hs hb'
  refine ⟨s', r, hx, ?_⟩
  unfold C06_bidExitOK at hok
  simp only [hb', Bool.and_eq_true, Option.isNone_iff_eq_none] at hok
  exact hok

/-- the same through expiry: what the bid query reports is what an executor's expiry returns to
    the owner, and that expiry succeeds -/
theorem C16_next_bid_expire (env : Env) (s : State) (id exec : String) (b : Bid) (hs : sane s = true)
    (hq : query s (.getBid id) = .ok (.bid b)) (hex : memS exec s.info.executors = true) :
    ∃ s' r, execute env s ⟨exec, [], .expireBid id⟩ = .ok (s', r) ∧
      paysExactly env.contract r.msgs
        [(b.owner, b.quote.denom, b.remQuote), (b.owner, b.quote.denom, b.remFee)] = true ∧
      s'.bids.get? id = none := by
  have := query_ok.mp hq
  simp only at this
  obtain ⟨_, b', hb', he⟩ := this
  cases he
  obtain ⟨s', r, hx, hok⟩ := C06_expire_bid env s id exec b hs hb' hex
  refine ⟨s', r, hx, ?_⟩
  unfold C06_bidExitOK at hok
  simp only [hb', Bool.and_eq_true, Option.isNone_iff_eq_none] at hok
  exact hok

/-- the ask counterpart at full strength (`C16_next_ask` assumes the cancel succeeded; here it is
    shown to): in a sane state the ask a query reports can be cancelled by its owner, the cancel
    pays exactly the reported size to the owner and the reported approver escrow to the
    approver, and the ask is gone afterwards -/
theorem C16_next_ask_exit (env : Env) (s : State) (id : String) (a : Ask) (hs : sane s = true)
    (hq : query s (.getAsk id) = .ok (.ask a)) :
    ∃ s' r, execute env s ⟨a.owner, [], .cancelAsk id⟩ = .ok (s', r) ∧
      paysExactly env.contract r.msgs
        ((a.owner, a.base, a.size) ::
          (match a.cls with | .ready ap conv => [(ap, conv.denom, conv.amount)] | _ => [])) = true ∧
      s'.asks.get? id = none := by
  have := query_ok.mp hq
  simp only at this
  obtain ⟨_, a', ha', he⟩ := this
  cases he
  obtain ⟨s', r, hx, hok⟩ := C06_cancel_ask env s id a hs ha'
  refine ⟨s', r, hx, ?_⟩
  unfold C06_askExitOK at hok
  simp only [ha', Bool.and_eq_true, Option.isNone_iff_eq_none] at hok
  exact hok

/-- an order that a query reported is no longer reported once it has been cancelled: the two
    halves of the property (faithful while open, absent once closed) chained over one step -/
theorem C16_reported_then_closed (env : Env) (s : State) (id : String) (b : Bid) (hs : sane s = true)
    (hq : query s (.getBid id) = .ok (.bid b)) :
    ∃ s' r, execute env s ⟨b.owner, [], .cancelBid id⟩ = .ok (s', r) ∧
      ∃ e, query s' (.getBid id) = .err e := by
  obtain ⟨s', r, hx, _, hgone⟩ := C16_next_bid env s id b hs hq
  exact ⟨s', r, hx, (C16_closed s' id).2 hgone⟩

/-- and through an executor's expiry of the ask: exactly the reported size goes back to the owner
    and the reported approver escrow to the approver -/
theorem C16_next_ask_expire (env : Env) (s : State) (id exec : String) (a : Ask) (hs : sane s = true)
    (hq : query s (.getAsk id) = .ok (.ask a)) (hex : memS exec s.info.executors = true) :
    ∃ s' r, execute env s ⟨exec, [], .expireAsk id⟩ = .ok (s', r) ∧
      paysExactly env.contract r.msgs
        ((a.owner, a.base, a.size) ::
          (match a.cls with | .ready ap conv => [(ap, conv.denom, conv.amount)] | _ => [])) = true ∧
      s'.asks.get? id = none := by
  have := query_ok.mp hq
  simp only at this
  obtain ⟨_, a', ha', he⟩ := this
  cases he
  obtain ⟨s', r, hx, hok⟩ := C06_expire_ask env s id exec a hs ha' hex
  refine ⟨s', r, hx, ?_⟩
  unfold C06_askExitOK at hok
  simp only [ha', Bool.and_eq_true, Option.isNone_iff_eq_none] at hok
  exact hok

end Ats.Proofs
