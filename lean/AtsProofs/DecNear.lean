/-
  AtsProofs.DecNear — the "nearest unit" clause of C09 as a theorem: under the magnitude bound
  4·F·Q ≤ 10^28 (finding F7 shows it fails beyond), the fee the contract's decimal pipeline
  keeps for `q` unspent quote of a bid with fee `F` on quote `Q` is an integer nearest to the
  exact F·q/Q (either neighbour at an exact half-unit tie).
  The only module that imports Mathlib (`linarith` for the polynomial bookkeeping).
-/
import Mathlib.Tactic.Linarith
import AtsProofs.DecMono
namespace Ats.Dec

/-- arithmetic core, upper side: all error terms together stay below 1/(2Q) -/
theorem near_core_hi (E Q R q m F D T M n S : Nat)
    (a1 : 2 * (Q * R) ≤ 2 * (q * E) + Q)
    (b : m * E = R * (D * T))
    (c1 : 2 * (D * M) ≤ 2 * (m * F) + S)
    (d1 : 2 * (T * n) ≤ 2 * M + T)
    (f : 4 * (F * Q) ≤ E) (hE : 0 < E)
    (hS : 4 * (Q * S) < 3 * (D * T)) :
    2 * (n * Q) ≤ 2 * (F * q) + Q := by
  by_contra hneg
  have hneg : 2 * (F * q) + Q + 1 ≤ 2 * (n * Q) := by omega
  have P1 := Nat.mul_le_mul_left (2 * D * Q * E) d1
  have P2 := Nat.mul_le_mul_left (2 * Q * E) c1
  have P3 : (4 * F * Q) * (m * E) = (4 * F * Q) * (R * (D * T)) := by rw [b]
  have P4 := Nat.mul_le_mul_left (2 * D * T * F) a1
  have P5 := Nat.mul_le_mul_left (2 * E * (D * T)) hneg
  have P6 := Nat.mul_le_mul_left (D * T) f
  have P7' : E * (4 * (Q * S)) < E * (3 * (D * T)) := Nat.mul_lt_mul_of_pos_left hS hE
  linarith [P1, P2, P3, P4, P5, P6, P7']

/-- arithmetic core, lower side -/
theorem near_core_lo (E Q R q m F D T M n S : Nat)
    (a2 : 2 * (q * E) ≤ 2 * (Q * R) + Q)
    (b : m * E = R * (D * T))
    (c2 : 2 * (m * F) ≤ 2 * (D * M) + S)
    (d2 : 2 * M ≤ 2 * (T * n) + T)
    (f : 4 * (F * Q) ≤ E) (hE : 0 < E)
    (hS : 4 * (Q * S) < 3 * (D * T)) :
    2 * (F * q) ≤ 2 * (n * Q) + Q := by
  by_contra hneg
  have hneg : 2 * (n * Q) + Q + 1 ≤ 2 * (F * q) := by omega
  have P1 := Nat.mul_le_mul_left (2 * D * Q * E) d2
  have P2 := Nat.mul_le_mul_left (2 * Q * E) c2
  have P3 : (4 * F * Q) * (m * E) = (4 * F * Q) * (R * (D * T)) := by rw [b]
  have P4 := Nat.mul_le_mul_left (2 * D * T * F) a2
  have P5 := Nat.mul_le_mul_left (2 * E * (D * T)) hneg
  have P6 := Nat.mul_le_mul_left (D * T) f
  have P7' : E * (4 * (Q * S)) < E * (3 * (D * T)) := Nat.mul_lt_mul_of_pos_left hS hE
  linarith [P1, P2, P3, P4, P5, P6, P7']

/-- the slack of the rescale loop is small against the result's unit: when the loop had to
    drop `j ≥ 1` digits, the product was at least about 2^96·10^(j-1) -/
theorem slack_small (Q F m C D' : Nat) (hC : 0 < C)
    (hge : 2 * (D' * LIM) ≤ 2 * (m * F) + D')
    (hm : m ≤ C) (f : 4 * (F * Q) ≤ 10 ^ 28) :
    4 * (Q * (10 * D')) < 3 * C := by
  have P1 := Nat.mul_le_mul_left (2 * Q) hge
  have P2 := Nat.mul_le_mul_left (4 * F * Q) hm
  have P3 := Nat.mul_le_mul_left C f
  unfold LIM at P1
  have e28 : (10 : Nat) ^ 28 = 10000000000000000000000000000 := by norm_num
  rw [e28] at P3
  nlinarith [P1, P2, P3]

theorem quot_le (E Q R q : Nat) (hQ : 0 < Q) (hq : q ≤ Q) (a1 : 2 * (Q * R) ≤ 2 * (q * E) + Q) : R ≤ E := by
  by_contra h
  have h1 : E + 1 ≤ R := by omega
  have h2 := Nat.mul_le_mul_left Q h1
  have h3 := Nat.mul_le_mul_right E hq
  linarith

theorem rha0_bounds (M T : Nat) (hT : 0 < T) :
    2 * (T * ((2 * M + T) / (2 * T))) ≤ 2 * M + T ∧ 2 * M ≤ 2 * (T * ((2 * M + T) / (2 * T))) + T := by
  have h1 := Nat.div_add_mod (2 * M + T) (2 * T)
  have h2 := Nat.mod_lt (2 * M + T) (show 0 < 2 * T by omega)
  have e : 2 * T * ((2 * M + T) / (2 * T)) = 2 * (T * ((2 * M + T) / (2 * T))) := by ac_rfl
  constructor <;> omega

/-- C09, "to the nearest unit": under `4·F·Q ≤ 10^28` the fee the decimal pipeline keeps for
    `q` unspent quote is an integer nearest to the exact `F·q/Q` -/
theorem feeFor_near {F Q q n : Nat} (hb : 4 * (F * Q) ≤ 10 ^ 28) (h : feeFor F Q q = .ok n) :
    2 * (n * Q) ≤ 2 * (F * q) + Q ∧ 2 * (F * q) ≤ 2 * (n * Q) + Q := by
  unfold feeFor at h
  simp only [Res.bind_eq_ok, orErr_eq_ok] at h
  obtain ⟨r, hr, f, hf, p, hp, hu⟩ := h
  unfold fromU128 at hf
  by_cases hF : F < LIM
  swap
  · simp [hF] at hf
  simp only [hF, if_true, Res.ok.injEq] at hf
  subst hf
  obtain ⟨hQ, hqQ, hQl, hcase⟩ := ratio_eq hr
  have hE : (0 : Nat) < 10 ^ 28 := pow10_pos 28
  -- a zero product: the kept fee is 0
  have zero_case : p = ⟨false, 0, 0⟩ → n = 0 := by
    intro hp0
    subst hp0
    simp [toU128, rha0] at hu
    omega
  rcases hcase with ⟨hq0, hr0⟩ | ⟨hq0, m, c, hstrip, hr0⟩
  · -- nothing unspent
    subst hr0
    unfold mul at hp
    simp only [true_or, if_true, Option.some.injEq] at hp
    have := zero_case hp.symm
    subst this hq0
    simp
  · subst hr0
    have hsv := strip_val 28 (rhe (q * 10 ^ 28) Q)
    rw [hstrip] at hsv
    obtain ⟨hb', hc28⟩ := hsv
    simp only at hb' hc28
    have a1 := rhe_lower (n := q * 10 ^ 28) hQ
    have a2 := rhe_upper (n := q * 10 ^ 28) hQ
    generalize hR : rhe (q * 10 ^ 28) Q = R at a1 a2 hb' hstrip
    unfold mul at hp
    by_cases z : m = 0 ∨ (ofNat F).mant = 0
    · simp only [z, if_true, Option.some.injEq] at hp
      have := zero_case hp.symm
      subst this
      refine ⟨by omega, ?_⟩
      rcases z with z | z
      · -- the 28-place quotient itself rounded to zero
        subst z
        have hR0 : R = 0 := by
          rcases Nat.mul_eq_zero.mp hb'.symm with h | h
          · exact h
          · exact absurd h (Nat.ne_of_gt (pow10_pos _))
        subst hR0
        have hFE : F ≤ 10 ^ 28 := by
          have : F * 1 ≤ F * Q := Nat.mul_le_mul_left F hQ
          omega
        have := Nat.mul_le_mul_right q hFE
        omega
      · have : F = 0 := z
        subst this; simp
    · simp only [z, if_false] at hp
      have hm0 : m ≠ 0 := fun h => z (Or.inl h)
      have hF0 : F ≠ 0 := fun h => z (Or.inr h)
      have hk : c + (ofNat F).scale - 28 = 0 := by simp [ofNat]; omega
      have hsc : c + (ofNat F).scale = c := by simp [ofNat]
      have hFm : (ofNat F).mant = F := rfl
      rw [hk, hsc, hFm] at hp
      cases hl : mulLoop (m * F) c (c + 2) 0 with
      | none => simp [hl] at hp
      | some x =>
        obtain ⟨M, sc⟩ := x
        simp only [hl, Option.some.injEq] at hp
        subst hp
        obtain ⟨j, _, hjc, hM, rfl, hlt, hmin⟩ := mulLoop_some _ _ hl
        -- the kept fee
        have hn : n = (2 * M + 10 ^ (c - j)) / (2 * 10 ^ (c - j)) := by
          simp [toU128, rha0] at hu
          omega
        have hT : 0 < 10 ^ (c - j) := pow10_pos _
        obtain ⟨d1, d2⟩ := rha0_bounds M (10 ^ (c - j)) hT
        rw [← hn] at d1 d2
        have hC : 10 ^ c = 10 ^ j * 10 ^ (c - j) := pow_split hjc
        have hbb : m * 10 ^ 28 = R * (10 ^ j * 10 ^ (c - j)) := by rw [← hC]; exact hb'
        -- R ≤ 10^28 and m ≤ 10^c
        have hRE : R ≤ 10 ^ 28 := quot_le (10 ^ 28) Q R q hQ hqQ a1
        have hmC : m ≤ 10 ^ c := by
          have : m * 10 ^ 28 ≤ 10 ^ c * 10 ^ 28 := by
            rw [hb', Nat.mul_comm (10 ^ c)]
            exact Nat.mul_le_mul_right _ hRE
          exact Nat.le_of_mul_le_mul_right this hE
        by_cases hj0 : j = 0
        · -- no digit dropped: the product is exact
          subst hj0
          simp only [Nat.pow_zero, rhe_one, Nat.sub_zero, Nat.one_mul] at hM hbb d1 d2 hT
          subst hM
          have hS : 4 * (Q * 0) < 3 * (1 * 10 ^ c) := by
            have := pow10_pos c; omega
          have hb1 : m * 10 ^ 28 = R * (1 * 10 ^ c) := by rw [Nat.one_mul]; exact hbb
          exact ⟨near_core_hi (10 ^ 28) Q R q m F 1 (10 ^ c) (m * F) n 0 a1 hb1 (by omega) d1 hb hE hS,
                 near_core_lo (10 ^ 28) Q R q m F 1 (10 ^ c) (m * F) n 0 a2 hb1 (by omega) d2 hb hE hS⟩
        · have hjp : 0 < j := Nat.pos_of_ne_zero hj0
          have hD : 0 < 10 ^ j := pow10_pos j
          have c1 := rhe_lower (n := m * F) hD
          have c2 := rhe_upper (n := m * F) hD
          rw [← hM] at c1 c2
          have hnot := hmin (j - 1) (Nat.zero_le _) (by omega)
          have hge := rhe_ge_LIM (pow10_pos (j - 1)) (Nat.le_of_not_lt hnot)
          have hD10 : 10 ^ j = 10 * 10 ^ (j - 1) := by
            have : j = (j - 1) + 1 := by omega
            rw [this, Nat.pow_succ]; simp; ac_rfl
          have hS : 4 * (Q * 10 ^ j) < 3 * (10 ^ j * 10 ^ (c - j)) := by
            rw [← hC, hD10]
            exact slack_small Q F m (10 ^ c) (10 ^ (j - 1)) (pow10_pos c) hge hmC hb
          exact ⟨near_core_hi (10 ^ 28) Q R q m F (10 ^ j) (10 ^ (c - j)) M n (10 ^ j) a1 hbb c1 d1 hb hE hS,
                 near_core_lo (10 ^ 28) Q R q m F (10 ^ j) (10 ^ (c - j)) M n (10 ^ j) a2 hbb c2 d2 hb hE hS⟩

end Ats.Dec
