/-
  AtsProofs.Basic — the monad laws and guard inversions every step lemma starts from.
-/
import Ats.Spec
namespace Ats
open Ats

@[simp] theorem Res.pure_eq {α : Type} (a : α) : (pure a : Res α) = .ok a := rfl
@[simp] theorem Res.ok_bind {α β : Type} (a : α) (f : α → Res β) : (Res.ok a >>= f) = f a := rfl
@[simp] theorem Res.err_bind {α β : Type} (e : Err) (f : α → Res β) : (Res.err e >>= f) = .err e := rfl

theorem Res.bind_eq_ok {α β : Type} {x : Res α} {f : α → Res β} {b : β} :
    (x >>= f) = .ok b ↔ ∃ a, x = .ok a ∧ f a = .ok b := by
  cases x with
  | ok a => simp
  | err e => simp

@[simp] theorem guardR_eq_ok {c : Bool} {e : Err} {u : Unit} : guardR c e = .ok u ↔ c = true := by
  unfold guardR; cases c <;> simp

@[simp] theorem orErr_eq_ok {α : Type} {o : Option α} {e : Err} {a : α} :
    orErr o e = .ok a ↔ o = some a := by
  unfold orErr; cases o <;> simp

@[simp] theorem subR_eq_ok {a b : Nat} {e : Err} {n : Nat} :
    subR a b e = .ok n ↔ b ≤ a ∧ n = a - b := by
  unfold subR
  split
  · simp_all [eq_comm]
  · simp; omega

end Ats
