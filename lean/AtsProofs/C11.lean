/-
  C11 — Order integrity: immutable terms, shrinking remainders, no interference.
-/
import AtsProofs.Inv
namespace Ats.Proofs
open Ats Ats.Spec

theorem putAsk_get_ne (asks : Book Ask) (k k2 : String) (a : Ask) (h : k2 ≠ k) :
    (putAsk asks k a).get? k2 = asks.get? k2 := by
  unfold putAsk
  split
  · exact Book.get?_del_ne _ _ _ h
  · exact Book.get?_set_ne _ _ _ _ h

theorem putAsk_get_eq (asks : Book Ask) (k : String) (a : Ask) :
    (putAsk asks k a).get? k = if a.size = 0 then none else some a := by
  unfold putAsk
  by_cases h0 : a.size = 0
  · simp [h0, Book.get?_del_eq]
  · simp [h0, Book.get?_set_eq]

theorem putBid_get_ne (bids : Book BidEntry) (k k2 : String) (b : Bid) (h : k2 ≠ k) :
    (putBid bids k b).get? k2 = bids.get? k2 := by
  unfold putBid
  split
  · exact Book.get?_del_ne _ _ _ h
  · exact Book.get?_set_ne _ _ _ _ h

theorem putBid_get_eq (bids : Book BidEntry) (k : String) (b : Bid) :
    (putBid bids k b).get? k = if b.base.amount - b.accBase = 0 then none else some (.v3 b) := by
  unfold putBid
  by_cases h0 : b.base.amount - b.accBase = 0
  · simp [h0, Book.get?_del_eq]
  · simp [h0, Book.get?_set_eq]

theorem memS_singleton_false {k x : String} : memS k [x] = false ↔ k ≠ x := by
  unfold memS
  simp only [List.any_cons, List.any_nil, Bool.or_false, beq_eq_false_iff_ne, ne_eq]
  exact ⟨fun h e => h e.symm, fun h e => h e.symm⟩

/-- the effect of an accepted request on the two books, the configuration and the version -/
structure Frame (s : State) (m : ExecMsg) (s' : State) : Prop where
  asks : ∀ k, memS k (namedAsks m) = false → s'.asks.get? k = s.asks.get? k
  bids : ∀ k, memS k (namedBids m) = false → s'.bids.get? k = s.bids.get? k
  version : s'.version = s.version
  info : isModify m = false → s'.info = s.info

/-- C11 (no interference): an accepted request changes only the orders it names – one ask or
    bid for create / approve / cancel / expire / reject, the named ask and bid for a match –
    and never the other side of the book, the configuration or the version record -/
theorem C11_frame (env : Env) (s s' : State) (c : Call) (r : Response) (hs : sane s = true)
    (h : execute env s c = .ok (s', r)) : Frame s c.msg s' := by
  unfold execute at h
  simp only [Res.bind_eq_ok, guardR_eq_ok] at h
  obtain ⟨_, _, h⟩ := h
  cases hm : c.msg <;> simp only [hm] at h
  case approveAsk id base size =>
    obtain ⟨a, _, _, ha, _, _, _, _, rfl, _⟩ := approveAsk_ok h
    exact ⟨fun k hk => Book.get?_set_ne _ _ _ _ (memS_singleton_false.mp hk), fun _ _ => rfl, rfl, fun _ => rfl⟩
  case createAsk id base quote price size =>
    obtain ⟨_, _, _, _, _, _, _, _, _, rfl, _⟩ := createAsk_ok h
    exact ⟨fun k hk => Book.get?_set_ne _ _ _ _ (memS_singleton_false.mp hk), fun _ _ => rfl, rfl, fun _ => rfl⟩
  case createBid id base fee price quote qs size =>
    obtain ⟨_, _, _, _, _, _, _, _, _, _, _, _, _, _, _, _, _, _, _, _, rfl, _⟩ := createBid_ok h
    exact ⟨fun _ _ => rfl, fun k hk => Book.get?_set_ne _ _ _ _ (memS_singleton_false.mp hk), rfl, fun _ => rfl⟩
  case cancelAsk id =>
    obtain ⟨a, _, ha, _, _, _, rfl, _⟩ := cancelAsk_ok h
    have hid := (sane_ask_facts hs ha).id_eq
    refine ⟨fun k hk => ?_, fun _ _ => rfl, rfl, fun _ => rfl⟩
    rw [hid]; exact Book.get?_del_ne _ _ _ (memS_singleton_false.mp hk)
  case cancelBid id =>
    obtain ⟨b, _, _, _, _, _, hb, _, _, _, _, _, _, _, _, _, _, rfl, _⟩ := reverseBid_ok h
    have hid := (sane_bid_v3 hs hb).id_eq
    refine ⟨fun _ _ => rfl, fun k hk => ?_, rfl, fun _ => rfl⟩
    simp only [hid]; exact putBid_get_ne _ _ _ _ (memS_singleton_false.mp hk)
  case expireBid id =>
    obtain ⟨b, _, _, _, _, _, hb, _, _, _, _, _, _, _, _, _, _, rfl, _⟩ := reverseBid_ok h
    have hid := (sane_bid_v3 hs hb).id_eq
    refine ⟨fun _ _ => rfl, fun k hk => ?_, rfl, fun _ => rfl⟩
    simp only [hid]; exact putBid_get_ne _ _ _ _ (memS_singleton_false.mp hk)
  case rejectBid id sz =>
    obtain ⟨b, _, _, _, _, _, hb, _, _, _, _, _, _, _, _, _, _, rfl, _⟩ := reverseBid_ok h
    have hid := (sane_bid_v3 hs hb).id_eq
    refine ⟨fun _ _ => rfl, fun k hk => ?_, rfl, fun _ => rfl⟩
    simp only [hid]; exact putBid_get_ne _ _ _ _ (memS_singleton_false.mp hk)
  case expireAsk id =>
    obtain ⟨a, _, _, ha, _, _, _, _, rfl, _⟩ := reverseAsk_ok h
    have hid := (sane_ask_facts hs ha).id_eq
    refine ⟨fun k hk => ?_, fun _ _ => rfl, rfl, fun _ => rfl⟩
    simp only [hid]; exact putAsk_get_ne _ _ _ _ (memS_singleton_false.mp hk)
  case rejectAsk id sz =>
    obtain ⟨a, _, _, ha, _, _, _, _, rfl, _⟩ := reverseAsk_ok h
    have hid := (sane_ask_facts hs ha).id_eq
    refine ⟨fun k hk => ?_, fun _ _ => rfl, rfl, fun _ => rfl⟩
    simp only [hid]; exact putAsk_get_ne _ _ _ _ (memS_singleton_false.mp hk)
  case executeMatch aid bid p sz =>
    obtain ⟨a, b, _, _, _, _, _, _, _, _, _, rp, _, _, _, _, _, _, _, _, _, _, _, _, _, _, _, _, _, _, _, _, _, rfl, _⟩ :=
      executeMatch_ok h
    exact ⟨fun k hk => putAsk_get_ne _ _ _ _ (memS_singleton_false.mp hk),
      fun k hk => putBid_get_ne _ _ _ _ (memS_singleton_false.mp hk), rfl, fun _ => rfl⟩
  case modify =>
    obtain ⟨_, _, _, _, _, _, _, _, _, _, _, _, rfl, _⟩ := modifyContract_ok h
    exact ⟨fun _ _ => rfl, fun _ _ => rfl, rfl, fun hf => by simp [isModify] at hf⟩

/-- a configuration change leaves both books exactly as they were -/
theorem C11_modify_books (env : Env) (s s' : State) (c : Call) (r : Response)
    (hm : isModify c.msg = true) (h : execute env s c = .ok (s', r)) :
    s'.asks = s.asks ∧ s'.bids = s.bids := by
  unfold execute at h
  simp only [Res.bind_eq_ok, guardR_eq_ok] at h
  obtain ⟨_, _, h⟩ := h
  cases hc : c.msg <;> simp only [hc, isModify] at hm h <;> try (cases hm)
  obtain ⟨_, _, _, _, _, _, _, _, _, _, _, _, rfl, _⟩ := modifyContract_ok h
  exact ⟨rfl, rfl⟩

end Ats.Proofs
