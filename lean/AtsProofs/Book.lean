/-
  AtsProofs.Book — association-list facts: lookups after set / del, key distinctness,
  sums over a book after an update.
-/
import AtsProofs.Basic
namespace Ats.Book
open Ats
variable {V : Type}

@[simp] theorem get?_nil (k : String) : Book.get? ([] : Book V) k = none := rfl

theorem get?_cons (k' : String) (v : V) (t : Book V) (k : String) :
    Book.get? ((k', v) :: t) k = if k' = k then some v else Book.get? t k := rfl

theorem get?_set_eq (b : Book V) (k : String) (v : V) : (b.set k v).get? k = some v := by
  induction b with
  | nil => simp [Book.set, get?_cons]
  | cons h t ih =>
    obtain ⟨k', v'⟩ := h
    unfold Book.set
    by_cases hk : k' = k
    · simp [hk, get?_cons]
    · simp [hk, get?_cons, ih]

theorem get?_set_ne (b : Book V) (k k2 : String) (v : V) (h : k2 ≠ k) :
    (b.set k v).get? k2 = b.get? k2 := by
  induction b with
  | nil => simp [Book.set, get?_cons, Ne.symm h]
  | cons hd t ih =>
    obtain ⟨k', v'⟩ := hd
    unfold Book.set
    by_cases hk : k' = k
    · subst hk; simp [get?_cons, Ne.symm h]
    · by_cases hk2 : k' = k2
      · subst hk2; simp [h, get?_cons]
      · simp [hk, hk2, get?_cons, ih]

theorem get?_del_eq (b : Book V) (k : String) : (b.del k).get? k = none := by
  induction b with
  | nil => rfl
  | cons hd t ih =>
    obtain ⟨k', v'⟩ := hd
    unfold Book.del
    by_cases hk : k' = k
    · simp [hk, ih]
    · simp [hk, get?_cons, ih]

theorem get?_del_ne (b : Book V) (k k2 : String) (h : k2 ≠ k) :
    (b.del k).get? k2 = b.get? k2 := by
  induction b with
  | nil => rfl
  | cons hd t ih =>
    obtain ⟨k', v'⟩ := hd
    unfold Book.del
    by_cases hk : k' = k
    · subst hk; simp [get?_cons, Ne.symm h, ih]
    · by_cases hk2 : k' = k2
      · subst hk2; simp [h, get?_cons]
      · simp [hk, hk2, get?_cons, ih]

theorem get?_some_mem {b : Book V} {k : String} {v : V} (h : b.get? k = some v) : (k, v) ∈ b := by
  induction b with
  | nil => simp at h
  | cons hd t ih =>
    obtain ⟨k', v'⟩ := hd
    rw [get?_cons] at h
    by_cases hk : k' = k
    · simp [hk] at h; subst hk h; exact List.mem_cons_self
    · simp [hk] at h; exact List.mem_cons_of_mem _ (ih h)

theorem get?_none_of_not_mem_keys {b : Book V} {k : String} (h : ∀ v, (k, v) ∉ b) : b.get? k = none := by
  cases hx : b.get? k with
  | none => rfl
  | some v => exact absurd (get?_some_mem hx) (h v)

theorem get?_isSome_of_mem_keys {b : Book V} {k : String} (h : k ∈ Book.keys b) :
    ∃ v, b.get? k = some v := by
  induction b with
  | nil => simp [Book.keys] at h
  | cons hd t ih =>
    obtain ⟨k', v'⟩ := hd
    rw [get?_cons]
    by_cases hk : k' = k
    · exact ⟨v', by simp [hk]⟩
    · simp only [Book.keys, List.map_cons, List.mem_cons] at h
      rcases h with h | h
      · exact absurd h.symm hk
      · obtain ⟨v, hv⟩ := ih (by simpa [Book.keys] using h)
        exact ⟨v, by simp [hk, hv]⟩

/-! ### sums over a book -/

/-- keys pairwise distinct, as a proposition -/
def Distinct : Book V → Prop
  | [] => True
  | (k, _) :: t => (∀ v, (k, v) ∉ t) ∧ Distinct t

theorem get?_none_of_distinct_head {k : String} {t : Book V} (h : ∀ v, (k, v) ∉ t) : Book.get? t k = none :=
  get?_none_of_not_mem_keys h

theorem sumBy_set_new (f : V → Nat) (b : Book V) (k : String) (v : V) (h : b.get? k = none) :
    Book.sumBy f (b.set k v) = Book.sumBy f b + f v := by
  induction b with
  | nil => simp [Book.set, Book.sumBy]
  | cons hd t ih =>
    obtain ⟨k', v'⟩ := hd
    rw [get?_cons] at h
    by_cases hk : k' = k
    · simp [hk] at h
    · simp only [hk, if_false] at h
      unfold Book.set
      simp only [hk, if_false, Book.sumBy, ih h]
      omega

theorem sumBy_del_none (f : V → Nat) (b : Book V) (k : String) (h : b.get? k = none) :
    Book.sumBy f (b.del k) = Book.sumBy f b := by
  induction b with
  | nil => rfl
  | cons hd t ih =>
    obtain ⟨k', v'⟩ := hd
    rw [get?_cons] at h
    by_cases hk : k' = k
    · simp [hk] at h
    · simp only [hk, if_false] at h
      unfold Book.del
      simp only [hk, if_false, Book.sumBy, ih h]

theorem sumBy_del (f : V → Nat) (b : Book V) (k : String) (old : V) (hd : Distinct b)
    (h : b.get? k = some old) : Book.sumBy f (b.del k) + f old = Book.sumBy f b := by
  induction b with
  | nil => simp at h
  | cons hd' t ih =>
    obtain ⟨k', v'⟩ := hd'
    rw [get?_cons] at h
    obtain ⟨hnot, hdt⟩ := hd
    by_cases hk : k' = k
    · subst hk
      simp only [if_true, Option.some.injEq] at h
      subst h
      unfold Book.del
      simp only [if_true, Book.sumBy]
      rw [sumBy_del_none f t k' (get?_none_of_distinct_head hnot)]
      omega
    · simp only [hk, if_false] at h
      unfold Book.del
      simp only [hk, if_false, Book.sumBy]
      have := ih hdt h
      omega

theorem sumBy_set_old (f : V → Nat) (b : Book V) (k : String) (old v : V) (hd : Distinct b)
    (h : b.get? k = some old) : Book.sumBy f (b.set k v) + f old = Book.sumBy f b + f v := by
  induction b with
  | nil => simp at h
  | cons hd' t ih =>
    obtain ⟨k', v'⟩ := hd'
    rw [get?_cons] at h
    obtain ⟨hnot, hdt⟩ := hd
    by_cases hk : k' = k
    · subst hk
      simp only [if_true, Option.some.injEq] at h
      subst h
      unfold Book.set
      simp only [if_true, Book.sumBy]
      omega
    · simp only [hk, if_false] at h
      unfold Book.set
      simp only [hk, if_false, Book.sumBy]
      have := ih hdt h
      omega

theorem distinct_of_bool {b : Book V} (h : Spec.distinctKeys b = true) : Distinct b := by
  induction b with
  | nil => trivial
  | cons hd t ih =>
    obtain ⟨k, v⟩ := hd
    unfold Spec.distinctKeys at h
    simp only [Bool.and_eq_true, List.all_eq_true, bne_iff_ne, ne_eq] at h
    refine ⟨?_, ih h.2⟩
    intro v' hm
    exact h.1 (k, v') hm rfl

end Ats.Book
