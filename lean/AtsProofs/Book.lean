/-
  AtsProofs.Book — association-list facts: lookups after set / del, key distinctness,
  sums over a book after an update.
-/
import AtsProofs.Basic
namespace Ats.Book
open Ats
variable {V : Type}

@[simp] theorem get?_nil (k : String) : Book.get? ([] : Book V) k = none := rfl

theorem get?_cons (k' : String) (v : V) (t : Book V) (k : String) :
    Book.get? ((k', v) :: t) k = if k' = k then some v else Book.get? t k := rfl

theorem get?_set_eq (b : Book V) (k : String) (v : V) : (b.set k v).get? k = some v := by
  induction b with
  | nil => simp [Book.set, get?_cons]
  | cons h t ih =>
    obtain ⟨k', v'⟩ := h
    unfold Book.set
    by_cases hk : k' = k
    · simp [hk, get?_cons]
    · simp [hk, get?_cons, ih]

theorem get?_set_ne (b : Book V) (k k2 : String) (v : V) (h : k2 ≠ k) :
    (b.set k v).get? k2 = b.get? k2 := by
  induction b with
  | nil => simp [Book.set, get?_cons, Ne.symm h]
  | cons hd t ih =>
    obtain ⟨k', v'⟩ := hd
    unfold Book.set
    by_cases hk : k' = k
    · subst hk; simp [get?_cons, Ne.symm h]
    · by_cases hk2 : k' = k2
      · subst hk2; simp [h, get?_cons]
      · simp [hk, hk2, get?_cons, ih]

theorem get?_del_eq (b : Book V) (k : String) : (b.del k).get? k = none := by
  induction b with
  | nil => rfl
  | cons hd t ih =>
    obtain ⟨k', v'⟩ := hd
    unfold Book.del
    by_cases hk : k' = k
    · simp [hk, ih]
    · simp [hk, get?_cons, ih]

theorem get?_del_ne (b : Book V) (k k2 : String) (h : k2 ≠ k) :
    (b.del k).get? k2 = b.get? k2 := by
  induction b with
  | nil => rfl
  | cons hd t ih =>
    obtain ⟨k', v'⟩ := hd
    unfold Book.del
    by_cases hk : k' = k
    · subst hk; simp [get?_cons, Ne.symm h, ih]
    · by_cases hk2 : k' = k2
      · subst hk2; simp [h, get?_cons]
      · simp [hk, hk2, get?_cons, ih]

theorem get?_some_mem {b : Book V} {k : String} {v : V} (h : b.get? k = some v) : (k, v) ∈ b := by
  induction b with
  | nil => simp at h
  | cons hd t ih =>
    obtain ⟨k', v'⟩ := hd
    rw [get?_cons] at h
    by_cases hk : k' = k
    · simp [hk] at h; subst hk h; exact List.mem_cons_self
    · simp [hk] at h; exact List.mem_cons_of_mem _ (ih h)

theorem get?_none_of_not_mem_keys {b : Book V} {k : String} (h : ∀ v, (k, v) ∉ b) : b.get? k = none := by
  cases hx : b.get? k with
  | none => rfl
  | some v => exact absurd (get?_some_mem hx) (h v)

theorem get?_isSome_of_mem_keys {b : Book V} {k : String} (h : k ∈ Book.keys b) :
    ∃ v, b.get? k = some v := by
  induction b with
  | nil => simp [Book.keys] at h
  | cons hd t ih =>
    obtain ⟨k', v'⟩ := hd
    rw [get?_cons]
    by_cases hk : k' = k
    · exact ⟨v', by simp [hk]⟩
    · simp only [Book.keys, List.map_cons, List.mem_cons] at h
      rcases h with h | h
      · exact absurd h.symm hk
      · obtain ⟨v, hv⟩ := ih (by simpa [Book.keys] using h)
        exact ⟨v, by simp [hk, hv]⟩

/-! ### sums over a book -/

/-- keys pairwise distinct, as a proposition -/
def Distinct : Book V → Prop
  | [] => True
  | (k, _) :: t => (∀ v, (k, v) ∉ t) ∧ Distinct t

theorem get?_none_of_distinct_head {k : String} {t : Book V} (h : ∀ v, (k, v) ∉ t) : Book.get? t k = none :=
  get?_none_of_not_mem_keys h

theorem sumBy_set_new (f : V → Nat) (b : Book V) (k : String) (v : V) (h : b.get? k = none) :
    Book.sumBy f (b.set k v) = Book.sumBy f b + f v := by
  induction b with
  | nil => simp [Book.set, Book.sumBy]
  | cons hd t ih =>
    obtain ⟨k', v'⟩ := hd
    rw [get?_cons] at h
    by_cases hk : k' = k
    · simp [hk] at h
    · simp only [hk, if_false] at h
      unfold Book.set
      simp only [hk, if_false, Book.sumBy, ih h]
      omega

theorem sumBy_del_none (f : V → Nat) (b : Book V) (k : String) (h : b.get? k = none) :
    Book.sumBy f (b.del k) = Book.sumBy f b := by
  induction b with
  | nil => rfl
  | cons hd t ih =>
    obtain ⟨k', v'⟩ := hd
    rw [get?_cons] at h
    by_cases hk : k' = k
    · simp [hk] at h
    · simp only [hk, if_false] at h
      unfold Book.del
      simp only [hk, if_false, Book.sumBy, ih h]

theorem sumBy_del (f : V → Nat) (b : Book V) (k : String) (old : V) (hd : Distinct b)
    (h : b.get? k = some old) : Book.sumBy f (b.del k) + f old = Book.sumBy f b := by
  induction b with
  | nil => simp at h
  | cons hd' t ih =>
    obtain ⟨k', v'⟩ := hd'
    rw [get?_cons] at h
    obtain ⟨hnot, hdt⟩ := hd
    by_cases hk : k' = k
    · subst hk
      simp only [if_true, Option.some.injEq] at h
      subst h
      unfold Book.del
      simp only [if_true, Book.sumBy]
      rw [sumBy_del_none f t k' (get?_none_of_distinct_head hnot)]
      omega
    · simp only [hk, if_false] at h
      unfold Book.del
      simp only [hk, if_false, Book.sumBy]
      have := ih hdt h
      omega

theorem sumBy_set_old (f : V → Nat) (b : Book V) (k : String) (old v : V) (hd : Distinct b)
    (h : b.get? k = some old) : Book.sumBy f (b.set k v) + f old = Book.sumBy f b + f v := by
  induction b with
  | nil => simp at h
  | cons hd' t ih =>
    obtain ⟨k', v'⟩ := hd'
    rw [get?_cons] at h
    obtain ⟨hnot, hdt⟩ := hd
    by_cases hk : k' = k
    · subst hk
      simp only [if_true, Option.some.injEq] at h
      subst h
      unfold Book.set
      simp only [if_true, Book.sumBy]
      omega
    · simp only [hk, if_false] at h
      unfold Book.set
      simp only [hk, if_false, Book.sumBy]
      have := ih hdt h
      omega

theorem distinct_of_bool {b : Book V} (h : Spec.distinctKeys b = true) : Distinct b := by
  induction b with
  | nil => trivial
  | cons hd t ih =>
    obtain ⟨k, v⟩ := hd
    unfold Spec.distinctKeys at h
    simp only [Bool.and_eq_true, List.all_eq_true, bne_iff_ne, ne_eq] at h
    refine ⟨?_, ih h.2⟩
    intro v' hm
    exact h.1 (k, v') hm rfl

/-! ### membership after an update -/

theorem mem_set {b : Book V} {k : String} {v : V} {kv : String × V} (h : kv ∈ b.set k v) :
    kv = (k, v) ∨ kv ∈ b := by
  induction b with
  | nil => simp [Book.set] at h; exact Or.inl h
  | cons hd t ih =>
    obtain ⟨k', v'⟩ := hd
    unfold Book.set at h
    by_cases hk : k' = k
    · simp only [hk, if_true, List.mem_cons] at h
      rcases h with h | h
      · exact Or.inl h
      · exact Or.inr (List.mem_cons_of_mem _ h)
    · simp only [hk, if_false, List.mem_cons] at h
      rcases h with h | h
      · exact Or.inr (by rw [h]; exact List.mem_cons_self)
      · rcases ih h with h | h
        · exact Or.inl h
        · exact Or.inr (List.mem_cons_of_mem _ h)

theorem mem_del {b : Book V} {k : String} {kv : String × V} (h : kv ∈ b.del k) : kv ∈ b ∧ kv.1 ≠ k := by
  induction b with
  | nil => simp [Book.del] at h
  | cons hd t ih =>
    obtain ⟨k', v'⟩ := hd
    unfold Book.del at h
    by_cases hk : k' = k
    · simp only [hk, if_true] at h
      exact ⟨List.mem_cons_of_mem _ (ih h).1, (ih h).2⟩
    · simp only [hk, if_false, List.mem_cons] at h
      rcases h with h | h
      · subst h; exact ⟨List.mem_cons_self, hk⟩
      · exact ⟨List.mem_cons_of_mem _ (ih h).1, (ih h).2⟩

theorem mem_set_key {b : Book V} {k : String} {v : V} {kv : String × V} (h : kv ∈ b.set k v)
    (hne : kv.1 ≠ k) : kv ∈ b := by
  rcases mem_set h with h | h
  · subst h; exact absurd rfl hne
  · exact h

theorem distinct_del {b : Book V} (k : String) (h : Distinct b) : Distinct (b.del k) := by
  induction b with
  | nil => trivial
  | cons hd t ih =>
    obtain ⟨k', v'⟩ := hd
    obtain ⟨hn, ht⟩ := h
    unfold Book.del
    by_cases hk : k' = k
    · simp only [hk, if_true]; exact ih ht
    · simp only [hk, if_false]
      exact ⟨fun v hm => hn v (mem_del hm).1, ih ht⟩

theorem distinct_set {b : Book V} (k : String) (v : V) (h : Distinct b) : Distinct (b.set k v) := by
  induction b with
  | nil => exact ⟨(fun _ hm => by cases hm), trivial⟩
  | cons hd t ih =>
    obtain ⟨k', v'⟩ := hd
    obtain ⟨hn, ht⟩ := h
    unfold Book.set
    by_cases hk : k' = k
    · subst hk; simp only [if_true]; exact ⟨hn, ht⟩
    · simp only [hk, if_false]
      refine ⟨fun v2 hm => ?_, ih ht⟩
      rcases mem_set hm with h | h
      · simp only [Prod.mk.injEq] at h; exact hk h.1
      · exact hn v2 h

theorem bool_of_distinct {b : Book V} (h : Distinct b) : Spec.distinctKeys b = true := by
  induction b with
  | nil => rfl
  | cons hd t ih =>
    obtain ⟨k, v⟩ := hd
    obtain ⟨hn, ht⟩ := h
    unfold Spec.distinctKeys
    simp only [Bool.and_eq_true, List.all_eq_true, bne_iff_ne, ne_eq]
    refine ⟨fun kv hm he => ?_, ih ht⟩
    apply hn kv.2
    rw [← he]; exact hm

theorem mem_get? {b : Book V} (hd : Distinct b) {k : String} {v : V} (h : (k, v) ∈ b) : b.get? k = some v := by
  induction b with
  | nil => cases h
  | cons hd' t ih =>
    obtain ⟨k', v'⟩ := hd'
    obtain ⟨hn, ht⟩ := hd
    rw [get?_cons]
    rcases List.mem_cons.mp h with h | h
    · simp only [Prod.mk.injEq] at h; simp [h.1, h.2]
    · by_cases hk : k' = k
      · subst hk; exact absurd h (hn v)
      · simp only [hk, if_false]; exact ih ht h

end Ats.Book
