/-
  C06 — Exit liveness: an open order can always be cancelled and made whole.
-/
import AtsProofs.Run
namespace Ats.Proofs
open Ats Ats.Spec

theorem anyForm_ne_empty {id : String} (h : isUuidAnyForm id = true) : (id != "") = true := by
  simp only [bne_iff_ne, ne_eq]
  intro he
  subst he
  simp [isUuidAnyForm] at h

/-- C06, asks, owner's cancel: in every sane state (so in every reachable state, and on seeded
    legacy or migrated books), for every marker assignment, the owner's plain fund-less cancel
    of any ask on the book succeeds, returns the whole remaining escrow – the ask's size to the
    owner and, if approved, the approver-supplied base to the approver – and removes the ask -/
theorem C06_cancel_ask (env : Env) (s : State) (id : String) (a : Ask) (hs : sane s = true)
    (ha : s.asks.get? id = some a) :
    ∃ s' r, execute env s ⟨a.owner, [], .cancelAsk id⟩ = .ok (s', r) ∧
      C06_askExitOK env.contract s id r s' = true := by
  have hf := sane_ask_facts hs ha
  have hsz : a.size ≠ 0 := by have := hf.size_pos; omega
  have hm1 : addTransfer (env.restricted a.base) a.size a.base a.owner env.contract =
      .ok (payMsg env a.base a.size a.owner) := addTransfer_eq_ok.mpr ⟨fun _ => hsz, rfl⟩
  have hm2 : approverLeg env a.cls (fun c => c.amount) = .ok (approverMsgs env a.cls (fun c => c.amount)) := by
    apply approverLeg_eq_ok.mpr
    refine ⟨?_, rfl⟩
    intro ap c hc _
    have := hf.cls_ok
    simp only [hc] at this
    rw [this.2.2.2]; exact hsz
  refine ⟨{ s with asks := s.asks.del a.id },
    { msgs := payMsg env a.base a.size a.owner :: approverMsgs env a.cls (fun c => c.amount),
      attrs := [("action", "cancel_ask"), ("id", a.id)] }, ?_, ?_⟩
  · unfold execute
    simp only [ExecMsg.valid, hf.key_form, guardR, if_true, Res.ok_bind]
    unfold cancelAsk
    simp [guardR, orErr, ha, hm1, hm2]
  · unfold C06_askExitOK
    simp only [ha, hf.id_eq, Book.get?_del_eq, Option.isNone_none, Bool.and_true]
    apply paysExactly_of
    · exact fromContract_payMsg _ _ _ _ (fromContract_approverMsgs _ _ _)
    · intro x d
      rw [credit_payMsg, credit_approverMsgs]
      cases a.cls <;> simp [expCredit_cons]

/-- C06, asks, an executor's expire -/
theorem C06_expire_ask (env : Env) (s : State) (id exec : String) (a : Ask) (hs : sane s = true)
    (ha : s.asks.get? id = some a) (hex : memS exec s.info.executors = true) :
    ∃ s' r, execute env s ⟨exec, [], .expireAsk id⟩ = .ok (s', r) ∧
      C06_askExitOK env.contract s id r s' = true := by
  have hf := sane_ask_facts hs ha
  have hsz : a.size ≠ 0 := by have := hf.size_pos; omega
  have hred : (a.reduce a.size).size = 0 := by simp [Ask.reduce]
  have hm1 : addTransfer (env.restricted a.base) a.size a.base a.owner env.contract =
      .ok (payMsg env a.base a.size a.owner) := addTransfer_eq_ok.mpr ⟨fun _ => hsz, rfl⟩
  have hm2 : approverLeg env (a.reduce a.size).cls (fun _ => a.size) =
      .ok (approverMsgs env (a.reduce a.size).cls (fun _ => a.size)) :=
    approverLeg_eq_ok.mpr ⟨fun _ _ _ _ => hsz, rfl⟩
  refine ⟨{ s with asks := putAsk s.asks (a.reduce a.size).id (a.reduce a.size) },
    { msgs := payMsg env a.base a.size a.owner :: approverMsgs env (a.reduce a.size).cls (fun _ => a.size),
      attrs := [("action", "expire_ask"), ("id", id), ("reverse_size", toString a.size),
                ("order_open", openFlag ((a.reduce a.size).size != 0))] }, ?_, ?_⟩
  · unfold execute
    simp only [ExecMsg.valid, hf.key_form, guardR, if_true, Res.ok_bind]
    unfold reverseAsk
    simp [guardR, orErr, ha, hm1, hm2, hex, anyForm_ne_empty hf.key_form]
  · unfold C06_askExitOK
    have hid : (a.reduce a.size).id = id := hf.id_eq
    simp only [ha, hid, putAsk_get_eq, hred, if_true, Option.isNone_none, Bool.and_true]
    apply paysExactly_of
    · exact fromContract_payMsg _ _ _ _ (fromContract_approverMsgs _ _ _)
    · intro x d
      rw [credit_payMsg, credit_approverMsgs]
      have hc := hf.cls_ok
      unfold Ask.reduce
      cases hcl : a.cls <;> simp only [hcl] at hc ⊢ <;> simp [expCredit_cons]
      rw [hc.2.2.2]

theorem remQuote_pos {info : Info} {k : String} {b : Bid} (hf : BidFacts info k b) : 0 < b.remQuote := by
  obtain ⟨p, hpp, hz, _, _⟩ := priceOK_parse hf.price_ok
  have hq := hf.qinv
  unfold quoteInv at hq
  simp only [hpp, beq_iff_eq] at hq
  have hm : 0 < p.mant := by
    unfold Dec.isZero at hz
    simp only [beq_eq_false_iff_ne, ne_eq] at hz
    exact Nat.pos_of_ne_zero hz
  have hb : 0 < b.remBase := by have := hf.base_lt; unfold Bid.remBase; omega
  have : 0 < b.remQuote * 10 ^ p.scale := by rw [hq]; exact Nat.mul_pos hm hb
  exact Nat.pos_of_mul_pos_right this

theorem feeFor_zero_ok {F Q : Nat} (hQ : 0 < Q) (hQl : Q < LIM) (hF : F < LIM) :
    Dec.feeFor F Q 0 = .ok 0 := by
  unfold Dec.feeFor Dec.ratio Dec.fromU128
  have h1 : ¬ (Q = 0 ∨ 0 > Q ∨ Q ≥ LIM) := by omega
  have hm : Dec.mul ⟨false, 0, 0⟩ (Dec.ofNat F) = some ⟨false, 0, 0⟩ := by
    unfold Dec.mul; simp
  simp only [h1, if_false, if_true, hF, orErr, Res.ok_bind, hm]
  simp [Dec.rha0, Dec.toU128]

/-- the fee a complete exit hands back is the whole unspent fee -/
theorem cancelFee_full {info : Info} {k : String} {b : Bid} (hf : BidFacts info k b) :
    ∃ x, cancelFee b b.remQuote = .ok x ∧ x.getD 0 = b.remFee := by
  have hq := hf.quote_le
  have hqp := remQuote_pos hf
  cases hfe : b.fee with
  | none =>
    refine ⟨none, cancelFee_ok.mpr (Or.inl ⟨hfe, rfl⟩), ?_⟩
    simp [Bid.remFee, Bid.feeAmount, hfe]
  | some f =>
    have hfl : f.amount < LIM := by have := hf.fee_lim; simpa [Bid.feeAmount, hfe] using this
    have hfa : b.accFee ≤ f.amount := by have := hf.fee_le; simpa [Bid.feeAmount, hfe] using this
    have hQ : 0 < b.quote.amount := by unfold Bid.remQuote at hqp; omega
    refine ⟨some (b.remFee - 0), cancelFee_ok.mpr (Or.inr ⟨f, 0, hfe, ⟨hq, Nat.le_refl _, ?_, hfa, Nat.zero_le _⟩, rfl⟩), by simp⟩
    rw [Nat.sub_self]
    exact feeFor_zero_ok hQ hf.quote_lim hfl

/-- C06, bids: the owner's cancel and an executor's expire of any bid on a sane book succeed,
    return the entire unspent quote and the entire unspent fee to the owner, and remove the bid -/
theorem C06_exit_bid (env : Env) (s : State) (id sender action : String) (b : Bid) (hs : sane s = true)
    (hb : loadBid s id = some b)
    (hauth : (if action == "cancel_bid" then sender == b.owner else memS sender s.info.executors) = true) :
    ∃ s' r, reverseBid env s sender [] id action none = .ok (s', r) ∧
      C06_bidExitOK env.contract s id r s' = true := by
  have hf := sane_bid_v3 hs hb
  obtain ⟨p, hpp, _, hpn, _⟩ := priceOK_parse hf.price_ok
  obtain ⟨hw, hprod⟩ := whole_rem hf.qinv hpp
  have hrem_lim : b.remBase < LIM := by have := hf.base_lim; unfold Bid.remBase; omega
  have hq_lim : product p b.remBase < LIM := by
    rw [hprod]; have := hf.quote_lim; unfold Bid.remQuote; omega
  obtain ⟨t, ht, hfr, hu⟩ := Dec.total_of_whole (Dec.parse_scale hpp) hpn hrem_lim hw hq_lim
  rw [hprod] at hu
  obtain ⟨x, hcf, hx⟩ := cancelFee_full hf
  have hqp := remQuote_pos hf
  have hm1 : addTransfer (env.restricted b.quote.denom) b.remQuote b.quote.denom b.owner env.contract =
      .ok (payMsg env b.quote.denom b.remQuote b.owner) :=
    addTransfer_eq_ok.mpr ⟨fun _ => by omega, rfl⟩
  have hm2 : payIfPos (env.restricted b.quote.denom) (x.getD 0) b.quote.denom b.owner env.contract =
      .ok (payIfPosMsgs env b.quote.denom (x.getD 0) b.owner) := payIfPos_eq_ok.mpr rfl
  have hab : b.accBase ≤ b.base.amount := by have := hf.base_lt; omega
  have hrb : b.base.amount - b.accBase = b.remBase := rfl
  refine ⟨{ s with bids := (putBid s.bids (Bid.accumulate b b.remBase b.remQuote (x.getD 0)).id (Bid.accumulate b b.remBase b.remQuote (x.getD 0))) },
    { msgs := payMsg env b.quote.denom b.remQuote b.owner :: payIfPosMsgs env b.quote.denom (x.getD 0) b.owner,
      attrs := [("action", action), ("id", id), ("reverse_size", toString b.remBase),
                ("order_open", openFlag ((b.accumulate b.remBase b.remQuote (x.getD 0)).base.amount -
                  (b.accumulate b.remBase b.remQuote (x.getD 0)).accBase != 0))] }, ?_, ?_⟩
  · have hauth' : (if action = "cancel_bid" then sender = b.owner else memS sender s.info.executors = true) := by
      by_cases ha : action = "cancel_bid" <;> simp [ha] at hauth ⊢ <;> exact hauth
    unfold reverseBid
    simp [guardR, orErr, subR, hb, hauth', hab, hrb, hpp, ht, hfr, hu, hcf, hm1, hm2,
      anyForm_ne_empty hf.key_form]
  · unfold C06_bidExitOK
    have hid : (b.accumulate b.remBase b.remQuote (x.getD 0)).id = id := hf.id_eq
    have hz : (b.accumulate b.remBase b.remQuote (x.getD 0)).base.amount -
        (b.accumulate b.remBase b.remQuote (x.getD 0)).accBase = 0 := by
      simp only [Bid.accumulate, Bid.remBase]; omega
    simp only [hb, hid, putBid_get_eq, hz, if_true, Option.isNone_none, Bool.and_true]
    apply paysExactly_of
    · exact fromContract_payMsg _ _ _ _ (fromContract_payIfPos _ _ _ _)
    · intro y d
      rw [credit_payMsg, credit_payIfPos, hx]
      simp [expCredit_cons]

theorem C06_cancel_bid (env : Env) (s : State) (id : String) (b : Bid) (hs : sane s = true)
    (hb : loadBid s id = some b) :
    ∃ s' r, execute env s ⟨b.owner, [], .cancelBid id⟩ = .ok (s', r) ∧
      C06_bidExitOK env.contract s id r s' = true := by
  obtain ⟨s', r, h1, h2⟩ := C06_exit_bid env s id b.owner "cancel_bid" b hs hb (by simp)
  refine ⟨s', r, ?_, h2⟩
  unfold execute
  simp only [ExecMsg.valid, (sane_bid_v3 hs hb).key_form, guardR, if_true, Res.ok_bind]
  exact h1

theorem C06_expire_bid (env : Env) (s : State) (id exec : String) (b : Bid) (hs : sane s = true)
    (hb : loadBid s id = some b) (hex : memS exec s.info.executors = true) :
    ∃ s' r, execute env s ⟨exec, [], .expireBid id⟩ = .ok (s', r) ∧
      C06_bidExitOK env.contract s id r s' = true := by
  obtain ⟨s', r, h1, h2⟩ := C06_exit_bid env s id exec "expire_bid" b hs hb (by simpa using hex)
  refine ⟨s', r, ?_, h2⟩
  unfold execute
  simp only [ExecMsg.valid, (sane_bid_v3 hs hb).key_form, guardR, if_true, Res.ok_bind]
  exact h1

/-- C06 over reachable states: the exits are available in every state reachable from
    instantiation by requests that satisfy the magnitude hypothesis -/
theorem C06_reachable {s : State} (h : Reach s) : sane s = true := reach_sane h

end Ats.Proofs
