/-
  C11 (continued) — immutable terms and shrinking remainders, per step and along histories;
  consistency of every visible order in every reachable state.
-/
import AtsProofs.Run
namespace Ats.Proofs
open Ats Ats.Spec

theorem askImmutable_refl (a : Ask) : askImmutable a a = true := by
  unfold askImmutable
  cases a.cls <;> simp

theorem askImmutable_reduce (a : Ask) (n : Nat)
    (hc : ∀ ap c, a.cls = .ready ap c → c.amount = a.size) : askImmutable a (a.reduce n) = true := by
  unfold askImmutable Ask.reduce
  cases h : a.cls <;> simp
  rename_i ap c
  rw [hc ap c h]; omega

theorem askImmutable_trans {a b c : Ask} (h1 : askImmutable a b = true) (h2 : askImmutable b c = true) :
    askImmutable a c = true := by
  unfold askImmutable at *
  simp only [Bool.and_eq_true, beq_iff_eq, decide_eq_true_eq] at h1 h2 ⊢
  obtain ⟨⟨⟨⟨⟨⟨i1, o1⟩, b1⟩, q1⟩, p1⟩, s1⟩, c1⟩ := h1
  obtain ⟨⟨⟨⟨⟨⟨i2, o2⟩, b2⟩, q2⟩, p2⟩, s2⟩, c2⟩ := h2
  refine ⟨⟨⟨⟨⟨⟨i2.trans i1, o2.trans o1⟩, b2.trans b1⟩, q2.trans q1⟩, p2.trans p1⟩, Nat.le_trans s2 s1⟩, ?_⟩
  cases ha : a.cls <;> cases hb : b.cls <;> cases hc : c.cls <;> simp [ha, hb, hc] at c1 c2 ⊢
  obtain ⟨⟨e1, d1⟩, l1⟩ := c1
  obtain ⟨⟨e2, d2⟩, l2⟩ := c2
  exact ⟨⟨e1.trans e2, d1.trans d2⟩, Nat.le_trans l2 l1⟩

theorem bidImmutable_refl (b : Bid) : bidImmutable (.v3 b) (.v3 b) = true := by
  simp [bidImmutable]

theorem bidImmutable_acc (b : Bid) (x y z : Nat) :
    bidImmutable (.v3 b) (.v3 (b.accumulate x y z)) = true := by
  simp [bidImmutable, Bid.accumulate]

theorem bidImmutable_trans {a b c : BidEntry} (h1 : bidImmutable a b = true) (h2 : bidImmutable b c = true) :
    bidImmutable a c = true := by
  cases a with
  | v2 _ => simp [bidImmutable] at h1
  | v3 x =>
  cases b with
  | v2 _ => simp [bidImmutable] at h1
  | v3 y =>
  cases c with
  | v2 _ => simp [bidImmutable] at h2
  | v3 z =>
  simp only [bidImmutable, Bool.and_eq_true, beq_iff_eq, decide_eq_true_eq] at h1 h2 ⊢
  obtain ⟨⟨⟨⟨⟨⟨⟨⟨i1, o1⟩, p1⟩, b1⟩, q1⟩, f1⟩, x1⟩, y1⟩, z1⟩ := h1
  obtain ⟨⟨⟨⟨⟨⟨⟨⟨i2, o2⟩, p2⟩, b2⟩, q2⟩, f2⟩, x2⟩, y2⟩, z2⟩ := h2
  exact ⟨⟨⟨⟨⟨⟨⟨⟨i2.trans i1, o2.trans o1⟩, p2.trans p1⟩, b2.trans b1⟩, q2.trans q1⟩, f2.trans f1⟩,
    Nat.le_trans x1 x2⟩, Nat.le_trans y1 y2⟩, Nat.le_trans z1 z2⟩

theorem memS_singleton_true {k x : String} (h : memS k [x] = true) : k = x := by
  unfold memS at h
  simp only [List.any_cons, List.any_nil, Bool.or_false, beq_iff_eq] at h
  exact h.symm

/-- C11 (immutable terms, shrinking remainders; asks): across any accepted request, an ask that
    is on the book before and after keeps its id, owner, denominations and price, its size does
    not grow, and its class changes at most from pending to approved (an approved ask keeps its
    approver and the approver amount does not grow) -/
theorem C11_ask_immutable (env : Env) (s s' : State) (c : Call) (r : Response) (hs : sane s = true)
    (h : execute env s c = .ok (s', r)) (k : String) (a a' : Ask)
    (ha : s.asks.get? k = some a) (ha' : s'.asks.get? k = some a') : askImmutable a a' = true := by
  have hfr := C11_frame env s s' c r hs h
  by_cases hn : memS k (namedAsks c.msg) = false
  · have := hfr.asks k hn
    rw [ha, ha'] at this
    cases this
    exact askImmutable_refl a
  · have hn' : memS k (namedAsks c.msg) = true := by simpa using hn
    unfold execute at h
    simp only [Res.bind_eq_ok, guardR_eq_ok] at h
    obtain ⟨_, _, h⟩ := h
    cases hm : c.msg <;> simp only [hm, namedAsks] at h hn' <;> try (simp [memS] at hn'; done)
    case approveAsk id base size =>
      have hk := memS_singleton_true hn'; subst hk
      obtain ⟨a0, _, _, ha0, hp, _, _, _, rfl, _⟩ := approveAsk_ok h
      rw [ha] at ha0; cases ha0
      simp only [Book.get?_set_eq, Option.some.injEq] at ha'
      subst ha'
      simp [askImmutable, hp]
    case createAsk id base quote price size =>
      have hk := memS_singleton_true hn'; subst hk
      obtain ⟨_, _, _, _, _, _, _, hex, _⟩ := createAsk_ok h
      rw [ha] at hex; cases hex
    case cancelAsk id =>
      have hk := memS_singleton_true hn'; subst hk
      obtain ⟨a0, _, ha0, _, _, _, rfl, _⟩ := cancelAsk_ok h
      have hid := (sane_ask_facts hs ha0).id_eq
      simp only [hid, Book.get?_del_eq] at ha'
      cases ha'
    case expireAsk id =>
      have hk := memS_singleton_true hn'; subst hk
      obtain ⟨a0, _, _, ha0, _, _, _, _, rfl, _⟩ := reverseAsk_ok h
      have hid := (sane_ask_facts hs ha0).id_eq
      rw [ha] at ha0; cases ha0
      simp only [hid, putAsk_get_eq] at ha'
      split at ha'
      · cases ha'
      · cases ha'; exact askImmutable_reduce _ _ (fun ap c hc => by have := (sane_ask_facts hs ha).cls_ok; simp only [hc] at this; exact this.2.2.2)
    case rejectAsk id sz =>
      have hk := memS_singleton_true hn'; subst hk
      obtain ⟨a0, _, _, ha0, _, _, _, _, rfl, _⟩ := reverseAsk_ok h
      have hid := (sane_ask_facts hs ha0).id_eq
      rw [ha] at ha0; cases ha0
      simp only [hid, putAsk_get_eq] at ha'
      split at ha'
      · cases ha'
      · cases ha'; exact askImmutable_reduce _ _ (fun ap c hc => by have := (sane_ask_facts hs ha).cls_ok; simp only [hc] at this; exact this.2.2.2)
    case executeMatch aid bid p sz =>
      have hk := memS_singleton_true hn'; subst hk
      obtain ⟨a0, b, _, _, _, _, _, _, _, _, _, rp, _, _, ha0, _, _, _, _, _, _, _, _, _, _, _, _, _, _, _, _, _, _, rfl, _⟩ :=
        executeMatch_ok h
      rw [ha] at ha0; cases ha0
      simp only [putAsk_get_eq] at ha'
      split at ha'
      · cases ha'
      · cases ha'; exact askImmutable_reduce _ _ (fun ap c hc => by have := (sane_ask_facts hs ha).cls_ok; simp only [hc] at this; exact this.2.2.2)

/-- C11 (immutable terms, shrinking remainders; bids): across any accepted request, a bid that
    is on the book before and after keeps its id, owner, price, and original base, quote and
    fee, and its consumed amounts do not decrease (so its remaining amounts do not grow) -/
theorem C11_bid_immutable (env : Env) (s s' : State) (c : Call) (r : Response) (hs : sane s = true)
    (h : execute env s c = .ok (s', r)) (k : String) (e e' : BidEntry)
    (he : s.bids.get? k = some e) (he' : s'.bids.get? k = some e') : bidImmutable e e' = true := by
  have hfr := C11_frame env s s' c r hs h
  have hv3 : ∃ b, e = .v3 b := by
    have := sane_bid hs he
    cases e with
    | v2 _ => simp [bidSane] at this
    | v3 b => exact ⟨b, rfl⟩
  obtain ⟨b, rfl⟩ := hv3
  have hlb : loadBid s k = some b := by simp [loadBid, he]
  by_cases hn : memS k (namedBids c.msg) = false
  · have := hfr.bids k hn
    rw [he, he'] at this
    cases this
    exact bidImmutable_refl b
  · have hn' : memS k (namedBids c.msg) = true := by simpa using hn
    unfold execute at h
    simp only [Res.bind_eq_ok, guardR_eq_ok] at h
    obtain ⟨_, _, h⟩ := h
    cases hm : c.msg <;> simp only [hm, namedBids] at h hn' <;> try (simp [memS] at hn'; done)
    case createBid id base fee price quote qs size =>
      have hk := memS_singleton_true hn'; subst hk
      obtain ⟨_, _, _, _, _, _, _, _, _, _, _, _, _, _, _, _, _, _, hex, _⟩ := createBid_ok h
      rw [he] at hex; cases hex
    case cancelBid id =>
      have hk := memS_singleton_true hn'; subst hk
      obtain ⟨b0, _, _, _, _, _, hb0, _, _, _, _, _, _, _, _, _, _, rfl, _⟩ := reverseBid_ok h
      have hid := (sane_bid_v3 hs hb0).id_eq
      rw [hlb] at hb0; cases hb0
      simp only [hid, putBid_get_eq] at he'
      split at he'
      · cases he'
      · cases he'; exact bidImmutable_acc _ _ _ _
    case expireBid id =>
      have hk := memS_singleton_true hn'; subst hk
      obtain ⟨b0, _, _, _, _, _, hb0, _, _, _, _, _, _, _, _, _, _, rfl, _⟩ := reverseBid_ok h
      have hid := (sane_bid_v3 hs hb0).id_eq
      rw [hlb] at hb0; cases hb0
      simp only [hid, putBid_get_eq] at he'
      split at he'
      · cases he'
      · cases he'; exact bidImmutable_acc _ _ _ _
    case rejectBid id sz =>
      have hk := memS_singleton_true hn'; subst hk
      obtain ⟨b0, _, _, _, _, _, hb0, _, _, _, _, _, _, _, _, _, _, rfl, _⟩ := reverseBid_ok h
      have hid := (sane_bid_v3 hs hb0).id_eq
      rw [hlb] at hb0; cases hb0
      simp only [hid, putBid_get_eq] at he'
      split at he'
      · cases he'
      · cases he'; exact bidImmutable_acc _ _ _ _
    case executeMatch aid bid p sz =>
      have hk := memS_singleton_true hn'; subst hk
      obtain ⟨a0, b0, _, _, _, _, gross, _, bidFee, _, _, rp, _, _, _, hb0, _, _, _, _, _, _, _, _, _, _, _, _, _, _, _, _, hrp, rfl, _⟩ :=
        executeMatch_ok h
      rw [hlb] at hb0; cases hb0
      simp only [putBid_get_eq] at he'
      split at he'
      · cases he'
      · cases he'
        rcases refundPart_ok.mp hrp with ⟨_, rfl⟩ | ⟨_, _, _, _, _, _, _, _, _, _, _, rfl⟩
        · exact bidImmutable_acc _ _ _ _
        · exact bidImmutable_trans (bidImmutable_acc _ _ _ _) (bidImmutable_acc _ _ _ _)

/-! ### along histories -/

/-- one accepted request (with the magnitude hypothesis F6 on matches) -/
def Step (s s' : State) : Prop :=
  ∃ env c r, ExactStep s c.msg ∧ execute env s c = .ok (s', r)

/-- a run of accepted requests during which the ask under key `k` stays on the book -/
inductive AskLife (k : String) (s : State) (a : Ask) : State → Ask → Prop
  | start : s.asks.get? k = some a → AskLife k s a s a
  | next {t u : State} {b b' : Ask} : AskLife k s a t b → Step t u → u.asks.get? k = some b' →
      AskLife k s a u b'

inductive BidLife (k : String) (s : State) (e : BidEntry) : State → BidEntry → Prop
  | start : s.bids.get? k = some e → BidLife k s e s e
  | next {t u : State} {f f' : BidEntry} : BidLife k s e t f → Step t u → u.bids.get? k = some f' →
      BidLife k s e u f'

theorem askLife_sane {k : String} {s u : State} {a b : Ask} (hs : sane s = true) (h : AskLife k s a u b) :
    sane u = true ∧ u.asks.get? k = some b := by
  induction h with
  | start ha => exact ⟨hs, ha⟩
  | next _ st hb ih =>
    obtain ⟨env, c, r, hx, he⟩ := st
    exact ⟨Sane_step env _ _ c r ih.1 hx he, hb⟩

theorem bidLife_sane {k : String} {s u : State} {e f : BidEntry} (hs : sane s = true) (h : BidLife k s e u f) :
    sane u = true ∧ u.bids.get? k = some f := by
  induction h with
  | start ha => exact ⟨hs, ha⟩
  | next _ st hb ih =>
    obtain ⟨env, c, r, hx, he⟩ := st
    exact ⟨Sane_step env _ _ c r ih.1 hx he, hb⟩

/-- C11 over histories (asks): from the moment an ask is recorded, for as long as it stays on
    the book – through any number of accepted requests of any kind, by anyone – its id, owner,
    denominations and price never change, its size never grows and its class changes at most
    from pending to approved -/
theorem C11_ask_history {k : String} {s u : State} {a b : Ask} (hs : sane s = true)
    (h : AskLife k s a u b) : askImmutable a b = true := by
  induction h with
  | start _ => exact askImmutable_refl a
  | next hl st hb ih =>
    obtain ⟨env, c, r, hx, he⟩ := st
    obtain ⟨hst, hbt⟩ := askLife_sane hs hl
    exact askImmutable_trans ih (C11_ask_immutable env _ _ c r hst he k _ _ hbt hb)

/-- C11 over histories (bids) -/
theorem C11_bid_history {k : String} {s u : State} {e f : BidEntry} (hs : sane s = true)
    (h : BidLife k s e u f) (hv : ∃ b, e = .v3 b) : bidImmutable e f = true := by
  induction h with
  | start _ => obtain ⟨b, rfl⟩ := hv; exact bidImmutable_refl b
  | next hl st hb ih =>
    obtain ⟨env, c, r, hx, he⟩ := st
    obtain ⟨hst, hbt⟩ := bidLife_sane hs hl
    exact bidImmutable_trans ih (C11_bid_immutable env _ _ c r hst he k _ _ hbt hb)

/-- C11 (consistency): every order visible on the book of a state reachable from instantiation
    is internally consistent – positive remaining size, plain exactly when its base is the
    contract's base denomination, a traded quote denomination, a valid price; for a bid the
    unspent quote equals price × unfilled size -/
theorem C11_consistent {s : State} (h : Reach s) :
    (∀ k a, s.asks.get? k = some a → askSane s.info k a = true) ∧
    (∀ k e, s.bids.get? k = some e → bidSane s.info k e = true) :=
  ⟨fun _ _ hk => sane_ask (reach_sane h) hk, fun _ _ hk => sane_bid (reach_sane h) hk⟩

/-- C08 (tracking): in every reachable state the approver-supplied amount recorded for an
    approved ask equals the ask's remaining size, in the contract's base denomination -/
theorem C08_tracks {s : State} (h : Reach s) (k : String) (a : Ask) (ap : String) (conv : Coin)
    (hk : s.asks.get? k = some a) (hc : a.cls = .ready ap conv) :
    conv.amount = a.size ∧ conv.denom = s.info.baseDenom := by
  have := (sane_ask_facts (reach_sane h) hk).cls_ok
  simp only [hc] at this
  exact ⟨this.2.2.2, this.2.2.1⟩

end Ats.Proofs
