/-
  C02 — Match settlement: each party receives exactly its due, nobody else anything.
-/
import AtsProofs.C04
namespace Ats.Proofs
open Ats Ats.Spec

/-- the magnitude hypothesis of one match (DESIGN §4.2, finding F6): the products the match
    forms are computed without rounding by the 96-bit decimal -/
structure ExactMatch (s : State) (b : Bid) (price : String) (size : Nat) : Prop where
  exec : ∀ p, Dec.parse price = some p → exactMul p size = true
  bid : ∀ p bp, Dec.parse price = some p → Dec.parse b.price = some bp → Dec.lt p bp = true →
    exactMul bp size = true
  askFee : ∀ p fi r, Dec.parse price = some p → s.info.askFee = some fi → Dec.parse fi.rate = some r →
    exactMul r (product p size) = true

theorem admissible_exactFee {r : Dec} {g n : Nat} (h : admissibleFee r g = some n) : n = exactFee r g := by
  unfold admissibleFee at h
  simp only at h
  split at h
  · cases h
  · simpa using h.symm

/-- the amounts the model settles are the amounts the specification computes from the
    pre-state with exact arithmetic -/
theorem matchAmounts_model {env : Env} {s : State} {a : Ask} {b : Bid} {price : String} {size : Nat}
    {execP bidP grossD : Dec} {gross askFee bidFee : Nat} {rp : List Msg × Bid}
    (hsb : BidFacts s.info b.id b)
    (hx : ExactMatch s b price size)
    (hep : Dec.parse price = some execP) (hbp : Dec.parse b.price = some bidP)
    (hepn : execP.neg = false) (hbpn : bidP.neg = false)
    (hg : Dec.total execP size = .ok grossD) (hfr : grossD.hasFract = false)
    (hgu : grossD.toU128 = some gross)
    (haf : AskFeeIs s.info grossD askFee)
    (hbf : calcFee b gross = .ok bidFee)
    (hrp : refundPart env b (Dec.lt execP bidP) bidP size gross bidFee (env.restricted b.quote.denom) = .ok rp) :
    ∃ refund feeRefund,
      matchAmounts s a b price size = some ⟨gross, askFee, bidFee, refund, feeRefund⟩ ∧
      rp = (if Dec.lt execP bidP then refundMsgList env b (env.restricted b.quote.denom) refund feeRefund else [],
            (b.accumulate size gross bidFee).accumulate 0 refund feeRefund) ∧
      (refund = 0 → feeRefund = 0) := by
  obtain ⟨_, hgross⟩ := Dec.total_exact (Dec.parse_scale hep) hepn (hx.exec execP hep) hg hfr hgu
  -- ask fee
  have hask : askFeeExact s.info gross = askFee := by
    unfold askFeeExact
    unfold AskFeeIs at haf
    cases hfi : s.info.askFee with
    | none => simp [hfi] at haf ⊢; exact haf.symm
    | some fi =>
      simp only [hfi] at haf ⊢
      obtain ⟨r, hr, hrf⟩ := haf
      simp only [hr]
      have hgn : grossD.neg = false := Dec.mul_nat_neg hepn (Dec.total_inv hg).2
      have hgm : grossD.mant = gross * 10 ^ grossD.scale := by
        unfold Dec.hasFract at hfr
        simp only [bne_eq_false_iff_eq] at hfr
        obtain ⟨q, hq⟩ := Nat.dvd_of_mod_eq_zero hfr
        unfold Dec.toU128 at hgu
        simp only [hgn, Bool.false_eq_true, if_false, Option.some.injEq] at hgu
        rw [hq, Nat.mul_div_cancel_left _ (Dec.pow10_pos _)] at hgu
        rw [hq, ← hgu]; exact Nat.mul_comm _ _
      have hxa := hx.askFee execP fi r hep hfi hr
      rw [← hgross] at hxa
      exact (admissible_exactFee (Dec.rateFee_exact (Dec.parse_scale hr) hgm hgn hxa hrf)).symm
  unfold matchAmounts
  simp only [hep, hbp, ← hgross, hask]
  by_cases himp : Dec.lt execP bidP = true
  · -- improved price: a refund
    rcases refundPart_ok.mp hrp with ⟨hf, _⟩ | ⟨_, origD, orig, origFee, feeRefund, ht, hfr2, hu2, hle, hcf, hfri, rfl⟩
    · rw [himp] at hf; cases hf
    · obtain ⟨_, horig⟩ := Dec.total_exact (Dec.parse_scale hbp) hbpn (hx.bid execP bidP hep hbp himp) ht hfr2 hu2
      simp only [himp, if_true, ← horig]
      refine ⟨orig - gross, feeRefund, ?_, rfl, ?_⟩
      rotate_left
      · -- no quote refund ⇒ the two fee computations coincide ⇒ no fee refund
        intro hr0
        have hog : orig = gross := by omega
        subst hog
        rw [hcf] at hbf
        simp only [Res.ok.injEq] at hbf
        subst hbf
        rcases hfri with ⟨_, _, rfl⟩ | ⟨_, rfl⟩
        · omega
        · rfl
      unfold bidFeeSplit
      rcases calcFee_ok.mp hbf with ⟨hn, rfl⟩ | ⟨f, need, hff, hsp, rfl⟩
      · -- no fee on the bid
        rcases calcFee_ok.mp hcf with ⟨_, rfl⟩ | ⟨f, _, hff, _⟩
        · rcases hfri with ⟨h0, _⟩ | ⟨_, rfl⟩
          · exact absurd rfl h0
          · simp [hn]
        · rw [hn] at hff; cases hff
      · rcases calcFee_ok.mp hcf with ⟨hn, _⟩ | ⟨f', need', hff', hsp', rfl⟩
        · rw [hn] at hff; cases hff
        · rw [hff] at hff'; cases hff'
          simp only [hff, hsp.hneed, hsp'.hneed]
          have h1 := hsp.hle
          have h2 := hsp'.hle
          generalize b.remFee = R at h1 h2 hfri ⊢
          rcases hfri with ⟨_, hle2, rfl⟩ | ⟨h0, rfl⟩
          · have : need - need' = R - need' - (R - need) := by omega
            rw [this]
          · have : need - need' = 0 := by omega
            rw [this]
  · -- execution at the bid's price: nothing to refund
    have himp' : Dec.lt execP bidP = false := by simpa using himp
    rcases refundPart_ok.mp hrp with ⟨_, rfl⟩ | ⟨hf, _⟩
    · simp only [himp', Bool.false_eq_true, if_false]
      refine ⟨0, 0, ?_, by simp [Bid.accumulate], fun _ => rfl⟩
      unfold bidFeeSplit
      rcases calcFee_ok.mp hbf with ⟨hn, rfl⟩ | ⟨f, need, hff, hsp, rfl⟩
      · simp [hn]
      · simp [hff, hsp.hneed]
    · rw [himp'] at hf; cases hf

/-- a price equal (as a number) to a positive price carries no sign -/
theorem eqv_pos_neg {e a : Dec} (han : a.neg = false) (haz : a.isZero = false)
    (h : Dec.eqv e a = true) : e.neg = false := by
  cases hen : e.neg with
  | false => rfl
  | true =>
    exfalso
    unfold Dec.eqv Dec.num at h
    simp only [hen, han, if_true, Bool.false_eq_true, if_false, beq_iff_eq] at h
    have hpos : 0 < a.mant * 10 ^ e.scale := by
      unfold Dec.isZero at haz
      simp only [beq_eq_false_iff_ne, ne_eq] at haz
      exact Nat.mul_pos (Nat.pos_of_ne_zero haz) (Dec.pow10_pos _)
    omega

theorem credit_askFeeMsgList (env : Env) (info : Info) (n : Nat) (qd x d : String) :
    credit env.contract (askFeeMsgList env info (env.restricted qd) n qd) x d =
      (if (info.askFee.map (·.account)).getD "" = x ∧ qd = d then (if info.askFee.isSome then n else 0) else 0) := by
  unfold askFeeMsgList
  cases info.askFee <;> simp

theorem fromContract_askFeeMsgList (env : Env) (info : Info) (r : Bool) (n : Nat) (qd : String) :
    FromContract env.contract (askFeeMsgList env info r n qd) := by
  unfold askFeeMsgList
  cases info.askFee
  · exact fromContract_nil _
  · exact fromContract_payIfPosR _ _ _ _ _

theorem fromContract_classMsgList (env : Env) (a : Ask) (b : Bid) (rB rQ : Bool) (net size : Nat) :
    FromContract env.contract (classMsgList env a b rB rQ net size) := by
  unfold classMsgList
  cases a.cls
  · exact fromContract_append (fromContract_payIfPosR _ _ _ _ _) (fromContract_payMsgR _ _ _ _ _ (fromContract_nil _))
  · exact fromContract_nil _
  · exact fromContract_append
      (fromContract_payMsg _ _ _ _ (fromContract_payMsgR _ _ _ _ _ (fromContract_nil _)))
      (fromContract_payIfPosR _ _ _ _ _)

theorem fromContract_refundMsgList (env : Env) (b : Bid) (rQ : Bool) (x y : Nat) :
    FromContract env.contract (refundMsgList env b rQ x y) := by
  unfold refundMsgList
  apply fromContract_append (fromContract_payIfPosR _ _ _ _ _)
  split
  · exact fromContract_payIfPosR _ _ _ _ _
  · exact fromContract_nil _

/-- C02: an accepted match (on a sane book, under the magnitude hypothesis `ExactMatch`) moves
    exactly the amounts of `matchAmounts` along the routes of `matchPays` – as net credit per
    (account, denomination), every payout drawn from the contract – and both orders' remaining
    amounts fall by exactly these quantities -/
theorem C02_settled (env : Env) (s s' : State) (c : Call) (r : Response)
    (askId bidId price : String) (size : Nat) (hs : sane s = true)
    (hm : c.msg = .executeMatch askId bidId price size)
    (hx : ∀ b, loadBid s bidId = some b → ExactMatch s b price size)
    (h : execute env s c = .ok (s', r)) :
    C02_matchOK env.contract s askId bidId price size r s' = true := by
  unfold execute at h
  simp only [Res.bind_eq_ok, guardR_eq_ok, hm] at h
  obtain ⟨_, _, h⟩ := h
  obtain ⟨a, b, askP, bidP, execP, grossD, gross, askFee, bidFee, m2, m3, rp, _, _, ha, hb, hq,
    hap, hbp, hep, hpr, _, hsa, hsb, hg, hfr, hgu, haf, hle, hbf, hm2, hm3, hrp, rfl, rfl⟩ :=
    executeMatch_ok h
  have hfa := sane_ask_facts hs ha
  have hfb := sane_bid_v3 hs hb
  have hbid := hfb.id_eq
  obtain ⟨bp', hbp', _, hbpn, _⟩ := priceOK_parse hfb.price_ok
  rw [hbp] at hbp'; cases hbp'
  obtain ⟨ap', hap', _, hapn, _⟩ := priceOK_parse hfa.price_ok
  rw [hap] at hap'; cases hap'
  obtain ⟨_, _, hbpz, _, _⟩ := priceOK_parse hfb.price_ok
  -- the execution price is one of the two limit prices, hence carries no sign
  have hepn : execP.neg = false := by
    obtain ⟨ap2, hap2, hapz, _, _⟩ := priceOK_parse hfa.price_ok
    rw [hap] at hap2; cases hap2
    obtain ⟨bp2, hbp2, hbpz, _, _⟩ := priceOK_parse hfb.price_ok
    rw [hbp] at hbp2; cases hbp2
    rcases priceRule_ok.mp hpr with ⟨_, he | he⟩ | ⟨_, _, he⟩
    · exact eqv_pos_neg hapn hapz he
    · exact eqv_pos_neg hbpn hbpz he
    · exact eqv_pos_neg hapn hapz he
  obtain ⟨refund, feeRefund, hma, hrpe, hzero⟩ :=
    matchAmounts_model (a := a) (by rw [hbid]; exact hfb) (hx b hb) hep hbp hepn hbpn hg hfr hgu haf hbf hrp
  unfold C02_matchOK
  simp only [ha, hb, hma, Bool.and_eq_true]
  obtain ⟨hnp, _, _, rfl⟩ := classMsgs_ok.mp hm3
  have hfd : (b.fee.map (·.denom)).getD b.quote.denom = b.quote.denom := by
    cases hfe : b.fee with
    | none => rfl
    | some f => simp [hfb.fee_denom f hfe]
  have hrp1 : rp.1 = (if Dec.lt execP bidP then refundMsgList env b (env.restricted b.quote.denom) refund feeRefund else []) := by
    rw [hrpe]
  have hrp2 : rp.2 = (b.accumulate size gross bidFee).accumulate 0 refund feeRefund := by rw [hrpe]
  have hnoimp : Dec.lt execP bidP = false → refund = 0 ∧ feeRefund = 0 := by
    intro hni
    unfold matchAmounts at hma
    simp only [hep, hbp, hni, Bool.false_eq_true, if_false] at hma
    cases hsplit : bidFeeSplit b (product execP size) (product execP size) with
    | none => simp [hsplit] at hma
    | some pr =>
      simp only [hsplit, Option.some.injEq, MatchAmounts.mk.injEq] at hma
      unfold bidFeeSplit at hsplit
      obtain ⟨_, _, _, h4, h5⟩ := hma
      cases hfe : b.fee with
      | none => simp [hfe] at hsplit; subst hsplit; simp at h4 h5; exact ⟨by omega, h5.symm⟩
      | some f =>
        simp only [hfe] at hsplit
        split at hsplit
        · rename_i n1 n2 e1 e2
          rw [e1] at e2; cases e2
          simp at hsplit; subst hsplit; simp at h4 h5; exact ⟨by omega, by omega⟩
        · cases hsplit
  refine ⟨⟨?_, ?_⟩, ?_⟩
  · -- every payout, per (account, denomination)
    apply paysExactly_of
    · apply fromContract_append (fromContract_append (fromContract_append
        (fromContract_askFeeMsgList _ _ _ _ _) ?_) (fromContract_classMsgList _ _ _ _ _ _ _)) ?_
      · rcases bidFeeMsgs_ok.mp hm2 with ⟨_, rfl⟩ | ⟨_, fi, _, rfl⟩
        · exact fromContract_nil _
        · exact fromContract_payMsgR _ _ _ _ _ (fromContract_nil _)
      · rw [hrp1]; split
        · exact fromContract_refundMsgList _ _ _ _ _
        · exact fromContract_nil _
    · intro x d
      have hq0 : s.info.askFee = none → askFee = 0 := by
        intro h0; unfold AskFeeIs at haf; simpa [h0] using haf
      have hcr_refund : credit env.contract rp.1 x d =
          (if b.owner = x ∧ b.quote.denom = d then refund else 0) +
          (if b.owner = x ∧ b.quote.denom = d then feeRefund else 0) := by
        rw [hrp1]
        by_cases himp : Dec.lt execP bidP = true
        · simp only [himp, if_true]
          unfold refundMsgList
          rw [credit_append, credit_payIfPosR, hfd]
          by_cases hr0 : refund = 0
          · simp [hr0, hzero hr0]
          · simp [hr0]
        · have himp' : Dec.lt execP bidP = false := by simpa using himp
          obtain ⟨h1, h2⟩ := hnoimp himp'
          simp [himp', h1, h2]
      rw [credit_append, credit_append, credit_append, credit_askFeeMsgList, hcr_refund]
      unfold matchPays
      simp only [expCredit_append, expCredit_cons, expCredit_nil]
      have hcls := hfa.cls_ok
      rcases bidFeeMsgs_ok.mp hm2 with ⟨hb0, rfl⟩ | ⟨hbn, fi, hfi, rfl⟩
      · cases hcl : a.cls with
        | pending => simp [Ask.reduce, hcl] at hnp
        | basic =>
          simp only [hcl] at hcls
          cases hafi : s.info.askFee with
          | none => simp [classMsgList, credit_append, expCredit_cons, Ask.reduce, hcl, hcls, hb0, hq0 hafi, hafi]; omega
          | some afi => simp [classMsgList, credit_append, expCredit_cons, Ask.reduce, hcl, hcls, hb0, hafi]; omega
        | ready ap cv =>
          simp only [hcl] at hcls
          cases hafi : s.info.askFee with
          | none => simp [classMsgList, credit_append, expCredit_cons, Ask.reduce, hcl, hcls.2.2.1, hb0, hq0 hafi, hafi]; omega
          | some afi => simp [classMsgList, credit_append, expCredit_cons, Ask.reduce, hcl, hcls.2.2.1, hb0, hafi]; omega
      · cases hcl : a.cls with
        | pending => simp [Ask.reduce, hcl] at hnp
        | basic =>
          simp only [hcl] at hcls
          cases hafi : s.info.askFee with
          | none => simp [classMsgList, credit_append, expCredit_cons, Ask.reduce, hcl, hcls, hfi, hfd, hq0 hafi, hafi]; omega
          | some afi => simp [classMsgList, credit_append, expCredit_cons, Ask.reduce, hcl, hcls, hfi, hfd, hafi]; omega
        | ready ap cv =>
          simp only [hcl] at hcls
          cases hafi : s.info.askFee with
          | none => simp [classMsgList, credit_append, expCredit_cons, Ask.reduce, hcl, hcls.2.2.1, hfi, hfd, hq0 hafi, hafi]; omega
          | some afi => simp [classMsgList, credit_append, expCredit_cons, Ask.reduce, hcl, hcls.2.2.1, hfi, hfd, hafi]; omega
  · -- the ask
    simp only [putAsk_get_eq, askAfterMatch, askAfterReverse, beq_iff_eq]
  · -- the bid
    rw [hrp2]
    simp only [putBid_get_eq, bidAfterMatch, beq_iff_eq, Bid.accumulate, Bid.remBase, Nat.add_zero,
      Nat.sub_sub, Nat.add_assoc]

end Ats.Proofs
