/-
  AtsProofs.DecLemmas — laws of the 96-bit decimal model that the property proofs use.
-/
import AtsProofs.Basic
namespace Ats.Dec
open Ats Ats.Spec

theorem pow10_pos (k : Nat) : 0 < 10 ^ k := Nat.pow_pos (by decide)

theorem rhe_exact {n d : Nat} (hd : 0 < d) (h : d ∣ n) : rhe n d = n / d := by
  unfold rhe
  have hr : n % d = 0 := Nat.mod_eq_zero_of_dvd h
  simp only [hr, Nat.mul_zero]
  have h1 : ¬ (0 > d) := by omega
  have h2 : ((0 : Nat) == d) = false := by
    simp only [beq_eq_false_iff_ne, ne_eq]; omega
  simp [h1, h2]

theorem rhe_one (n : Nat) : rhe n 1 = n := by
  rw [rhe_exact (by decide) (Nat.one_dvd n), Nat.div_one]

/-- what the rescale loop returns: the first `j ≥ k` whose rounded quotient fits -/
theorem mulLoop_some {P s : Nat} : ∀ (fuel k : Nat) {m sc : Nat},
    mulLoop P s fuel k = some (m, sc) →
    ∃ j, k ≤ j ∧ j ≤ s ∧ m = rhe P (10 ^ j) ∧ sc = s - j ∧ m < LIM ∧
      ∀ i, k ≤ i → i < j → ¬ rhe P (10 ^ i) < LIM := by
  intro fuel
  induction fuel with
  | zero => intro k m sc h; simp [mulLoop] at h
  | succ f ih =>
    intro k m sc h
    unfold mulLoop at h
    by_cases hk : k > s
    · simp [hk] at h
    · simp only [hk, if_false] at h
      by_cases hm : rhe P (10 ^ k) < LIM
      · simp only [hm, if_true, Option.some.injEq, Prod.mk.injEq] at h
        obtain ⟨rfl, rfl⟩ := h
        exact ⟨k, Nat.le_refl _, by omega, rfl, rfl, hm, fun i h1 h2 => by omega⟩
      · simp only [hm, if_false] at h
        obtain ⟨j, h1, h2, h3, h4, h5, h6⟩ := ih (k + 1) h
        refine ⟨j, by omega, h2, h3, h4, h5, ?_⟩
        intro i hi1 hi2
        by_cases hik : i = k
        · subst hik; exact hm
        · exact h6 i (by omega) hi2

/-- with enough fuel the loop finds the first fitting `j` if there is one -/
theorem mulLoop_find {P s : Nat} : ∀ (fuel k j : Nat), k ≤ j → j ≤ s → j - k < fuel →
    rhe P (10 ^ j) < LIM → (∀ i, k ≤ i → i < j → ¬ rhe P (10 ^ i) < LIM) →
    mulLoop P s fuel k = some (rhe P (10 ^ j), s - j) := by
  intro fuel
  induction fuel with
  | zero => intro k j _ _ h; omega
  | succ f ih =>
    intro k j hkj hjs hf hfit hmin
    unfold mulLoop
    have hk : ¬ k > s := by omega
    simp only [hk, if_false]
    by_cases hjk : j = k
    · subst hjk; simp [hfit]
    · have hnk : ¬ rhe P (10 ^ k) < LIM := hmin k (Nat.le_refl _) (by omega)
      simp only [hnk, if_false]
      exact ih (k + 1) j (by omega) hjs (by omega) hfit (fun i h1 h2 => hmin i (by omega) h2)

/-- general value-exactness of `checked_mul`: if the exact product of the mantissas is a
    multiple of `10^z` for a `z` the rescale loop can reach (`s - 28 ≤ z ≤ s`) and either the
    quotient fits in 96 bits or `z = s`, then the result is the same rational number -/
theorem mul_exact_gen {a b t : Dec} (z : Nat) (hz1 : a.scale + b.scale - 28 ≤ z)
    (hz2 : z ≤ a.scale + b.scale) (hd : 10 ^ z ∣ a.mant * b.mant)
    (hfit : a.mant * b.mant / 10 ^ z < LIM ∨ z = a.scale + b.scale)
    (ht : mul a b = some t) :
    t.mant * 10 ^ (a.scale + b.scale) = a.mant * b.mant * 10 ^ t.scale := by
  unfold mul at ht
  by_cases h0 : a.mant = 0 ∨ b.mant = 0
  · simp only [h0, if_true, Option.some.injEq] at ht
    subst ht
    rcases h0 with h0 | h0 <;> simp [h0]
  · simp only [h0, if_false] at ht
    cases hl : mulLoop (a.mant * b.mant) (a.scale + b.scale) (a.scale + b.scale + 2)
        (a.scale + b.scale - 28) with
    | none => simp [hl] at ht
    | some r =>
      obtain ⟨m, sc⟩ := r
      simp only [hl, Option.some.injEq] at ht
      subst ht
      obtain ⟨j, hkj, hjs, hm, hsc, _, hmin⟩ := mulLoop_some _ _ hl
      simp only
      -- the loop stops at some j ≤ z, where the division is exact
      have hjz : j ≤ z := by
        rcases hfit with hfit | hzs
        · by_cases hjz : j ≤ z
          · exact hjz
          · exfalso
            have := hmin z hz1 (by omega)
            rw [rhe_exact (pow10_pos z) hd] at this
            exact this hfit
        · omega
      have hdj : 10 ^ j ∣ a.mant * b.mant := Nat.dvd_trans (Nat.pow_dvd_pow 10 hjz) hd
      rw [hm, hsc, rhe_exact (pow10_pos j) hdj]
      obtain ⟨q, hq⟩ := hdj
      rw [hq, Nat.mul_div_cancel_left _ (pow10_pos j)]
      have : 10 ^ (a.scale + b.scale) = 10 ^ j * 10 ^ (a.scale + b.scale - j) := by
        rw [← Nat.pow_add]; congr 1; omega
      rw [this]; ac_rfl

/-- value-exactness of `price × n` under the magnitude hypothesis: the product comes back
    as the same rational number -/
theorem mul_nat_exact {p t : Dec} {n : Nat} (hs : p.scale ≤ 28) (hex : exactMul p n = true)
    (ht : mul p (ofNat n) = some t) :
    t.mant * 10 ^ p.scale = p.mant * n * 10 ^ t.scale := by
  unfold exactMul at hex
  simp only [Bool.and_eq_true, Bool.or_eq_true, decide_eq_true_eq, beq_iff_eq] at hex
  rcases hex.2 with hlt | hdiv
  · have := mul_exact_gen (a := p) (b := ofNat n) 0 (by simp [ofNat]; omega) (by omega)
      (by simp) (Or.inl (by simpa [ofNat] using hlt)) ht
    simpa [ofNat] using this
  · have := mul_exact_gen (a := p) (b := ofNat n) p.scale (by simp [ofNat]) (by simp [ofNat])
      (by simpa [ofNat] using Nat.dvd_of_mod_eq_zero hdiv) (Or.inr (by simp [ofNat])) ht
    simpa [ofNat] using this

/-! ### parsed decimals have a scale of at most 28 -/

theorem maybeRound_scale {m s : Nat} {c : Char} {point neg : Bool} {d : Dec}
    (h : maybeRound m s c point neg = .ok d) : d.scale ≤ s := by
  unfold maybeRound at h
  cases hd : roundDigit c point with
  | none => simp [hd] at h
  | some dg =>
    simp only [hd] at h
    by_cases h1 : (if dg ≥ 5 then m + 1 else m) ≥ LIM
    · simp only [h1, if_true] at h
      by_cases hs : s = 0
      · simp [hs] at h
      · simp only [hs, if_false, Parsed.ok.injEq] at h
        subst h; simp
    · simp only [h1, if_false, Parsed.ok.injEq] at h
      subst h; simp

theorem maybeRound_mant {m s : Nat} {c : Char} {point neg : Bool} {d : Dec} (hm : m < LIM)
    (h : maybeRound m s c point neg = .ok d) : d.mant < LIM := by
  unfold maybeRound at h
  cases hd : roundDigit c point with
  | none => simp [hd] at h
  | some dg =>
    simp only [hd] at h
    by_cases h1 : (if dg ≥ 5 then m + 1 else m) ≥ LIM
    · simp only [h1, if_true] at h
      by_cases hs : s = 0
      · simp [hs] at h
      · simp only [hs, if_false, Parsed.ok.injEq] at h
        subst h
        simp only
        have : (if dg ≥ 5 then m + 1 else m) ≤ LIM := by split <;> omega
        unfold LIM at *
        omega
    · simp only [h1, if_false, Parsed.ok.injEq] at h
      subst h
      simp only
      omega

theorem parseGo_scale : ∀ (cs : List Char) (m s : Nat) (point has neg : Bool) (d : Dec),
    (cs ≠ [] → s ≤ 27) → s ≤ 28 → parseGo cs m s point has neg = .ok d → d.scale ≤ 28 := by
  intro cs
  induction cs with
  | nil =>
    intro m s point has neg d _ hs h
    unfold parseGo at h
    by_cases hh : has = true
    · simp [hh] at h; subst h; exact hs
    · simp [hh] at h
  | cons c rest ih =>
    intro m s point has neg d h27 _ h
    have hs27 : s ≤ 27 := h27 (by simp)
    unfold parseGo at h
    by_cases hd : c.isDigit = true
    · simp only [hd, if_true] at h
      by_cases hov : m * 10 + (c.toNat - 48) ≥ LIM
      · simp only [hov, if_true] at h
        by_cases hp : point = true
        · simp only [hp, if_true] at h
          have := maybeRound_scale h; omega
        · simp [hp] at h
      · simp only [hov, if_false] at h
        have hs' : (if point = true then s + 1 else 0) ≤ 28 := by split <;> omega
        cases rest with
        | nil =>
          simp only at h
          exact ih _ _ _ _ _ _ (fun hne => absurd rfl hne) hs' h
        | cons nxt tl =>
          simp only at h
          by_cases hu : (point && decide ((if point = true then s + 1 else 0) ≥ 28)) = true
          · simp only [hu, if_true] at h
            have := maybeRound_scale h; omega
          · simp only [hu] at h
            refine ih _ _ _ _ _ _ (fun _ => ?_) hs' h
            cases point with
            | false => simp
            | true =>
              simp only [Bool.true_and, decide_eq_true_eq, if_true] at hu ⊢
              omega
    · simp only [hd] at h
      by_cases hdot : c = '.'
      · simp only [hdot, if_true] at h
        by_cases hp : point = true
        · simp [hp] at h
        · simp only [hp] at h
          exact ih _ _ _ _ _ _ (fun _ => hs27) (by omega) h
      · simp only [hdot, if_false] at h
        by_cases hus : c = '_'
        · simp only [hus, if_true] at h
          by_cases hh : has = true
          · simp only [hh, if_true] at h
            exact ih _ _ _ _ _ _ (fun _ => hs27) (by omega) h
          · simp [hh] at h
        · simp [hus] at h

theorem parse_scale {str : String} {p : Dec} (h : parse str = some p) : p.scale ≤ 28 := by
  unfold parse at h
  cases hf : parseFull str with
  | bad => simp [hf] at h
  | unmodelled => simp [hf] at h
  | ok d =>
    simp only [hf, Option.some.injEq] at h
    subst h
    unfold parseFull at hf
    split at hf
    · cases hf
    · exact parseGo_scale _ _ _ _ _ _ _ (fun _ => by omega) (by omega) hf
    · exact parseGo_scale _ _ _ _ _ _ _ (fun _ => by omega) (by omega) hf
    · exact parseGo_scale _ _ _ _ _ _ _ (fun _ => by omega) (by omega) hf

/-! ### parsed decimals have a mantissa below 2^96 -/

theorem parseGo_mant : ∀ (cs : List Char) (m s : Nat) (point has neg : Bool) (d : Dec),
    m < LIM → parseGo cs m s point has neg = .ok d → d.mant < LIM := by
  intro cs
  induction cs with
  | nil =>
    intro m s point has neg d hm h
    unfold parseGo at h
    by_cases hh : has = true
    · simp [hh] at h; subst h; exact hm
    · simp [hh] at h
  | cons c rest ih =>
    intro m s point has neg d hm h
    unfold parseGo at h
    by_cases hd : c.isDigit = true
    · simp only [hd, if_true] at h
      by_cases hov : m * 10 + (c.toNat - 48) ≥ LIM
      · simp only [hov, if_true] at h
        by_cases hp : point = true
        · simp only [hp, if_true] at h
          exact maybeRound_mant hm h
        · simp [hp] at h
      · simp only [hov, if_false] at h
        cases rest with
        | nil =>
          simp only at h
          exact ih _ _ _ _ _ _ (by omega) h
        | cons nxt tl =>
          simp only at h
          by_cases hu : (point && decide ((if point = true then s + 1 else 0) ≥ 28)) = true
          · simp only [hu, if_true] at h
            exact maybeRound_mant (by omega) h
          · simp only [hu] at h
            exact ih _ _ _ _ _ _ (by omega) h
    · simp only [hd] at h
      by_cases hdot : c = '.'
      · simp only [hdot, if_true] at h
        by_cases hp : point = true
        · simp [hp] at h
        · simp only [hp] at h
          exact ih _ _ _ _ _ _ hm h
      · simp only [hdot, if_false] at h
        by_cases hus : c = '_'
        · simp only [hus, if_true] at h
          by_cases hh : has = true
          · simp only [hh, if_true] at h
            exact ih _ _ _ _ _ _ hm h
          · simp [hh] at h
        · simp [hus] at h

theorem parse_mant {str : String} {p : Dec} (h : parse str = some p) : p.mant < LIM := by
  unfold parse at h
  cases hf : parseFull str with
  | bad => simp [hf] at h
  | unmodelled => simp [hf] at h
  | ok d =>
    simp only [hf, Option.some.injEq] at h
    subst h
    unfold parseFull at hf
    have hl : 0 < LIM := by decide
    split at hf
    · cases hf
    · exact parseGo_mant _ _ _ _ _ _ _ hl hf
    · exact parseGo_mant _ _ _ _ _ _ _ hl hf
    · exact parseGo_mant _ _ _ _ _ _ _ hl hf

/-- the price-precision check is exact: an accepted price times `10^precision` is whole -/
theorem badPrecisionPow_exact {p : Dec} {prec : Nat} (hs : p.scale ≤ 28) (hm : p.mant < LIM)
    (h : badPrecisionPow p prec = some false) : (p.mant * 10 ^ prec) % 10 ^ p.scale = 0 := by
  unfold badPrecisionPow at h
  cases hmul : mul p (ofNat (10 ^ prec)) with
  | none => simp [hmul] at h
  | some t =>
    simp only [hmul, Option.some.injEq] at h
    have hv : t.mant * 10 ^ p.scale = p.mant * 10 ^ prec * 10 ^ t.scale := by
      by_cases hle : prec ≤ p.scale
      · have := mul_exact_gen (a := p) (b := ofNat (10 ^ prec)) prec (by simp [ofNat]; omega)
          (by simpa [ofNat] using hle) (by simp [ofNat]; exact Nat.dvd_mul_left _ _)
          (Or.inl (by simp only [ofNat]; rw [Nat.mul_div_cancel _ (pow10_pos _)]; exact hm)) hmul
        simpa [ofNat] using this
      · have := mul_exact_gen (a := p) (b := ofNat (10 ^ prec)) p.scale (by simp [ofNat])
          (by simp [ofNat])
          (by simp only [ofNat]
              exact Nat.dvd_trans (Nat.pow_dvd_pow 10 (by omega)) (Nat.dvd_mul_left _ _))
          (Or.inr (by simp [ofNat])) hmul
        simpa [ofNat] using this
    unfold hasFract at h
    simp only [bne_eq_false_iff_eq] at h
    obtain ⟨q, hq⟩ := Nat.dvd_of_mod_eq_zero h
    have hP : q * 10 ^ p.scale = p.mant * 10 ^ prec := by
      have : q * 10 ^ p.scale * 10 ^ t.scale = p.mant * 10 ^ prec * 10 ^ t.scale := by
        rw [← hv, hq]; ac_rfl
      exact Nat.eq_of_mul_eq_mul_right (pow10_pos _) this
    rw [← hP]; exact Nat.mul_mod_left _ _

theorem badPrecision_exact {p : Dec} {prec : Nat} (hs : p.scale ≤ 28) (hm : p.mant < LIM)
    (h : badPrecision p prec = some false) : (p.mant * 10 ^ prec) % 10 ^ p.scale = 0 := by
  unfold badPrecision at h
  split at h
  · have h1 := badPrecisionPow_exact hs hm h
    have hle : prec % 4294967296 ≤ prec := Nat.mod_le _ _
    obtain ⟨k, hk⟩ := Nat.dvd_of_mod_eq_zero h1
    have hp : (10 : Nat) ^ prec = 10 ^ (prec % 4294967296) * 10 ^ (prec - prec % 4294967296) := by
      rw [← Nat.pow_add]; congr 1; omega
    rw [hp, ← Nat.mul_assoc, hk, Nat.mul_assoc]
    exact Nat.mul_mod_right _ _
  · cases h

/-! ### `price × n` through `Dec.total` -/

theorem total_inv {p t : Dec} {n : Nat} (h : total p n = .ok t) :
    n < LIM ∧ mul p (ofNat n) = some t := by
  unfold total at h
  simp only [Res.bind_eq_ok, orErr_eq_ok] at h
  obtain ⟨sz, hsz, hm⟩ := h
  unfold fromU128 at hsz
  by_cases hl : n < LIM
  · simp only [hl, if_true, Res.ok.injEq] at hsz; subst hsz; exact ⟨hl, hm⟩
  · simp [hl] at hsz

theorem mul_nat_neg {p t : Dec} {n : Nat} (hneg : p.neg = false) (ht : mul p (ofNat n) = some t) :
    t.neg = false := by
  unfold mul at ht
  split at ht
  · simp at ht; subst ht; rfl
  · simp only at ht
    cases hl : mulLoop (p.mant * (ofNat n).mant) (p.scale + (ofNat n).scale)
        (p.scale + (ofNat n).scale + 2) (p.scale + (ofNat n).scale - 28) with
    | none => simp [hl] at ht
    | some r =>
      simp only [hl, Option.some.injEq] at ht
      subst ht; simp [hneg, ofNat]

/-- the decimal pipeline computes a whole `price × n` exactly (under the magnitude
    hypothesis): the product is whole and the integer it yields is `product p n` -/
theorem total_exact {p t : Dec} {n g : Nat} (hs : p.scale ≤ 28) (hneg : p.neg = false)
    (hex : exactMul p n = true) (ht : total p n = .ok t) (hfr : t.hasFract = false)
    (hu : t.toU128 = some g) : wholeProduct p n = true ∧ g = product p n := by
  obtain ⟨_, hm⟩ := total_inv ht
  have hv := mul_nat_exact hs hex hm
  have hn := mul_nat_neg hneg hm
  unfold hasFract at hfr
  simp only [bne_eq_false_iff_eq, beq_iff_eq] at hfr
  obtain ⟨q, hq⟩ := Nat.dvd_of_mod_eq_zero hfr
  have hP : q * 10 ^ p.scale = p.mant * n := by
    have : q * 10 ^ p.scale * 10 ^ t.scale = p.mant * n * 10 ^ t.scale := by
      rw [← hv, hq]; ac_rfl
    exact Nat.eq_of_mul_eq_mul_right (pow10_pos _) this
  unfold toU128 at hu
  simp only [hn, Bool.false_eq_true, if_false, Option.some.injEq] at hu
  constructor
  · unfold wholeProduct
    simp [← hP]
  · unfold product
    rw [← hu, hq, ← hP, Nat.mul_div_cancel_left _ (pow10_pos _), Nat.mul_div_cancel _ (pow10_pos _)]

/-! ### `rate × amount`, rounded half away from zero -/

theorem half_lt (d : Nat) (hd : 0 < d) : d / (2 * d) = 0 := by
  apply Nat.div_eq_of_lt; omega

theorem mul_neg_flag {a b t : Dec} (ht : mul a b = some t) :
    t.neg = (if a.mant = 0 ∨ b.mant = 0 then false else (a.neg != b.neg)) := by
  unfold mul at ht
  by_cases h0 : a.mant = 0 ∨ b.mant = 0
  · simp only [h0, if_true, Option.some.injEq] at ht; subst ht; simp only [h0, if_true]
  · simp only [h0, if_false] at ht ⊢
    cases hl : mulLoop (a.mant * b.mant) (a.scale + b.scale) (a.scale + b.scale + 2)
        (a.scale + b.scale - 28) with
    | none => simp [hl] at ht
    | some r => simp only [hl, Option.some.injEq] at ht; subst ht; rfl

/-- the decimal pipeline computes the fee `rate × amount` exactly (under the magnitude
    hypothesis on `rate × amount`): the result is the admissible fee of exact arithmetic.
    `g` is any representation of the whole number `gross` as the contract produces it. -/
theorem rateFee_exact {r g : Dec} {gross n : Nat} (hrs : r.scale ≤ 28)
    (hg : g.mant = gross * 10 ^ g.scale) (hgneg : g.neg = false)
    (hex : exactMul r gross = true) (h : rateFee r g = .ok n) :
    admissibleFee r gross = some n := by
  unfold rateFee at h
  simp only [Res.bind_eq_ok, orErr_eq_ok] at h
  obtain ⟨p, hp, hu⟩ := h
  have hneg := mul_neg_flag hp
  unfold exactMul at hex
  simp only [Bool.and_eq_true, Bool.or_eq_true, decide_eq_true_eq, beq_iff_eq] at hex
  -- value of the product
  have hv : p.mant * 10 ^ (r.scale + g.scale) = r.mant * g.mant * 10 ^ p.scale := by
    have hPd : r.mant * g.mant = r.mant * gross * 10 ^ g.scale := by rw [hg]; ac_rfl
    rcases hex.2 with hlt | hdiv
    · refine mul_exact_gen g.scale (by omega) (by omega) ?_ (Or.inl ?_) hp
      · rw [hPd]; exact Nat.dvd_mul_left _ _
      · rw [hPd, Nat.mul_div_cancel _ (pow10_pos _)]; exact hlt
    · refine mul_exact_gen (r.scale + g.scale) (by omega) (by omega) ?_ (Or.inr rfl) hp
      rw [hPd, Nat.pow_add]
      exact Nat.mul_dvd_mul (Nat.dvd_of_mod_eq_zero hdiv) (Nat.dvd_refl _)
  -- the rounded magnitude is the exact fee
  have hm : (2 * p.mant + 10 ^ p.scale) / (2 * 10 ^ p.scale) = exactFee r gross := by
    unfold exactFee
    have e1 : (2 * p.mant + 10 ^ p.scale) / (2 * 10 ^ p.scale) =
        (10 ^ (r.scale + g.scale) * (2 * p.mant + 10 ^ p.scale)) /
          (10 ^ (r.scale + g.scale) * (2 * 10 ^ p.scale)) :=
      (Nat.mul_div_mul_left _ _ (pow10_pos _)).symm
    have e2 : (2 * r.mant * gross + 10 ^ r.scale) / (2 * 10 ^ r.scale) =
        (10 ^ (g.scale + p.scale) * (2 * r.mant * gross + 10 ^ r.scale)) /
          (10 ^ (g.scale + p.scale) * (2 * 10 ^ r.scale)) :=
      (Nat.mul_div_mul_left _ _ (pow10_pos _)).symm
    rw [e1, e2]
    have n1 : 10 ^ (r.scale + g.scale) * (2 * p.mant + 10 ^ p.scale) =
        10 ^ (g.scale + p.scale) * (2 * r.mant * gross + 10 ^ r.scale) := by
      have : 10 ^ (r.scale + g.scale) * (2 * p.mant) = 2 * (p.mant * 10 ^ (r.scale + g.scale)) := by ac_rfl
      rw [Nat.mul_add, this, hv, hg, Nat.mul_add, Nat.pow_add, Nat.pow_add]; ac_rfl
    have n2 : 10 ^ (r.scale + g.scale) * (2 * 10 ^ p.scale) =
        10 ^ (g.scale + p.scale) * (2 * 10 ^ r.scale) := by
      rw [Nat.pow_add, Nat.pow_add]; ac_rfl
    rw [n1, n2]
  unfold toU128 rha0 at hu
  simp only [hm] at hu
  unfold admissibleFee
  simp only
  by_cases hz : r.mant = 0 ∨ g.mant = 0
  · -- a zero operand: the fee is zero
    have hf0 : exactFee r gross = 0 := by
      unfold exactFee
      rcases hz with hz | hz
      · simp [hz, half_lt _ (pow10_pos _)]
      · have : gross = 0 := by
          rw [hg] at hz
          rcases Nat.mul_eq_zero.mp hz with h | h
          · exact h
          · exact absurd h (Nat.ne_of_gt (pow10_pos _))
        simp [this, half_lt _ (pow10_pos _)]
    simp [hf0] at hu ⊢
    exact hu
  · simp only [hz, if_false, hgneg, Bool.bne_false] at hneg
    rw [hneg] at hu
    by_cases hn : (r.neg && exactFee r gross != 0) = true
    · simp [hn] at hu
    · simp only [hn] at hu ⊢
      simpa using hu

/-! ### order and equality by value, on unsigned decimals -/

theorem num_nonneg {a b : Dec} (h : a.neg = false) : num a b = ((a.mant * 10 ^ b.scale : Nat) : Int) := by
  simp [num, h]

theorem eqv_nat {a b : Dec} (ha : a.neg = false) (hb : b.neg = false) :
    eqv a b = true ↔ a.mant * 10 ^ b.scale = b.mant * 10 ^ a.scale := by
  unfold eqv
  rw [num_nonneg ha, num_nonneg hb]
  simp only [beq_iff_eq]
  exact Int.ofNat_inj

theorem lt_nat {a b : Dec} (ha : a.neg = false) (hb : b.neg = false) :
    lt a b = true ↔ a.mant * 10 ^ b.scale < b.mant * 10 ^ a.scale := by
  unfold lt
  rw [num_nonneg ha, num_nonneg hb]
  simp only [decide_eq_true_eq]
  exact Int.ofNat_lt

theorem eqv_trans {e a b : Dec} (he : e.neg = false) (ha : a.neg = false) (hb : b.neg = false)
    (h1 : eqv e a = true) (h2 : eqv a b = true) : eqv e b = true := by
  rw [eqv_nat he ha] at h1
  rw [eqv_nat ha hb] at h2
  rw [eqv_nat he hb]
  have : e.mant * 10 ^ b.scale * 10 ^ a.scale = b.mant * 10 ^ e.scale * 10 ^ a.scale := by
    calc e.mant * 10 ^ b.scale * 10 ^ a.scale
        = (e.mant * 10 ^ a.scale) * 10 ^ b.scale := by ac_rfl
      _ = (a.mant * 10 ^ e.scale) * 10 ^ b.scale := by rw [h1]
      _ = (a.mant * 10 ^ b.scale) * 10 ^ e.scale := by ac_rfl
      _ = (b.mant * 10 ^ a.scale) * 10 ^ e.scale := by rw [h2]
      _ = b.mant * 10 ^ e.scale * 10 ^ a.scale := by ac_rfl
  exact Nat.eq_of_mul_eq_mul_right (pow10_pos _) this

theorem lt_of_eqv_lt {e a b : Dec} (he : e.neg = false) (ha : a.neg = false) (hb : b.neg = false)
    (h1 : eqv e a = true) (h2 : lt a b = true) : lt e b = true := by
  rw [eqv_nat he ha] at h1
  rw [lt_nat ha hb] at h2
  rw [lt_nat he hb]
  have : e.mant * 10 ^ b.scale * 10 ^ a.scale < b.mant * 10 ^ e.scale * 10 ^ a.scale := by
    calc e.mant * 10 ^ b.scale * 10 ^ a.scale
        = (e.mant * 10 ^ a.scale) * 10 ^ b.scale := by ac_rfl
      _ = (a.mant * 10 ^ e.scale) * 10 ^ b.scale := by rw [h1]
      _ = (a.mant * 10 ^ b.scale) * 10 ^ e.scale := by ac_rfl
      _ < (b.mant * 10 ^ a.scale) * 10 ^ e.scale := Nat.mul_lt_mul_of_pos_right h2 (pow10_pos _)
      _ = b.mant * 10 ^ e.scale * 10 ^ a.scale := by ac_rfl
  exact Nat.lt_of_mul_lt_mul_right this

/-- equal prices give equal whole products -/
theorem product_eqv {p q : Dec} {n : Nat} (hp : p.neg = false) (hq : q.neg = false)
    (he : eqv p q = true) (hw : wholeProduct p n = true) :
    wholeProduct q n = true ∧ product q n = product p n := by
  rw [eqv_nat hp hq] at he
  unfold wholeProduct at hw
  simp only [beq_iff_eq] at hw
  obtain ⟨P, hP⟩ := Nat.dvd_of_mod_eq_zero hw
  have hq' : q.mant * n = P * 10 ^ q.scale := by
    have : q.mant * n * 10 ^ p.scale = P * 10 ^ q.scale * 10 ^ p.scale := by
      calc q.mant * n * 10 ^ p.scale = (q.mant * 10 ^ p.scale) * n := by ac_rfl
        _ = (p.mant * 10 ^ q.scale) * n := by rw [he]
        _ = (p.mant * n) * 10 ^ q.scale := by ac_rfl
        _ = (10 ^ p.scale * P) * 10 ^ q.scale := by rw [hP]
        _ = P * 10 ^ q.scale * 10 ^ p.scale := by ac_rfl
    exact Nat.eq_of_mul_eq_mul_right (pow10_pos _) this
  unfold wholeProduct product
  rw [hq', hP]
  simp [Nat.mul_mod_left, Nat.mul_div_cancel _ (pow10_pos _), Nat.mul_div_cancel_left _ (pow10_pos _)]

/-! ### progress: a whole product that fits is computed -/

theorem exists_least (Q : Nat → Prop) [DecidablePred Q] : ∀ (n k hi : Nat), hi - k = n → k ≤ hi → Q hi →
    ∃ j, k ≤ j ∧ j ≤ hi ∧ Q j ∧ ∀ i, k ≤ i → i < j → ¬ Q i := by
  intro n
  induction n with
  | zero =>
    intro k hi hd hk hq
    have : k = hi := by omega
    subst this
    exact ⟨k, Nat.le_refl _, Nat.le_refl _, hq, fun i h1 h2 => by omega⟩
  | succ m ih =>
    intro k hi hd hk hq
    by_cases hqk : Q k
    · exact ⟨k, Nat.le_refl _, hk, hqk, fun i h1 h2 => by omega⟩
    · obtain ⟨j, h1, h2, h3, h4⟩ := ih (k + 1) hi (by omega) (by omega) hq
      refine ⟨j, by omega, h2, h3, ?_⟩
      intro i hi1 hi2
      by_cases hik : i = k
      · subst hik; exact hqk
      · exact h4 i (by omega) hi2

/-- if `price × n` is whole and fits in 96 bits, `total` succeeds and yields exactly it -/
theorem total_of_whole {p : Dec} {n : Nat} (hs : p.scale ≤ 28) (hneg : p.neg = false) (hn : n < LIM)
    (hw : wholeProduct p n = true) (hfit : product p n < LIM) :
    ∃ t, total p n = .ok t ∧ t.hasFract = false ∧ t.toU128 = some (product p n) := by
  unfold wholeProduct at hw
  simp only [beq_iff_eq] at hw
  obtain ⟨V, hV⟩ := Nat.dvd_of_mod_eq_zero hw
  have hprod : product p n = V := by
    unfold product; rw [hV, Nat.mul_div_cancel_left _ (pow10_pos _)]
  rw [hprod] at hfit ⊢
  unfold total fromU128
  simp only [hn, if_true, Res.ok_bind]
  by_cases h0 : p.mant = 0 ∨ (ofNat n).mant = 0
  · have hV0 : V = 0 := by
      have : p.mant * n = 0 := by
        rcases h0 with h0 | h0
        · simp [h0]
        · simp [ofNat] at h0; simp [h0]
      rw [this] at hV
      rcases Nat.mul_eq_zero.mp hV.symm with h | h
      · exact absurd h (Nat.ne_of_gt (pow10_pos _))
      · exact h
    refine ⟨⟨false, 0, 0⟩, ?_, by simp [hasFract], by simp [toU128, hV0]⟩
    unfold mul; simp [h0, orErr]
  · have hk0 : p.scale + (ofNat n).scale - 28 = 0 := by simp [ofNat]; omega
    have hsc : p.scale + (ofNat n).scale = p.scale := by simp [ofNat]
    have hPm : p.mant * (ofNat n).mant = p.mant * n := by simp [ofNat]
    have hfits : rhe (p.mant * n) (10 ^ p.scale) < LIM := by
      rw [rhe_exact (pow10_pos _) ⟨V, hV⟩, hV, Nat.mul_div_cancel_left _ (pow10_pos _)]; exact hfit
    obtain ⟨j, _, hjs, hqj, hmin⟩ :=
      exists_least (fun j => rhe (p.mant * n) (10 ^ j) < LIM) p.scale 0 p.scale (by omega) (by omega) hfits
    have hloop := mulLoop_find (P := p.mant * n) (s := p.scale) (p.scale + 2) 0 j (by omega) hjs (by omega) hqj hmin
    have hdj : 10 ^ j ∣ p.mant * n := Nat.dvd_trans (Nat.pow_dvd_pow 10 hjs) ⟨V, hV⟩
    have hval : rhe (p.mant * n) (10 ^ j) = V * 10 ^ (p.scale - j) := by
      rw [rhe_exact (pow10_pos _) hdj, hV]
      have : 10 ^ p.scale = 10 ^ j * 10 ^ (p.scale - j) := by rw [← Nat.pow_add]; congr 1; omega
      rw [this, Nat.mul_assoc, Nat.mul_div_cancel_left _ (pow10_pos _)]; exact Nat.mul_comm _ _
    refine ⟨⟨p.neg != (ofNat n).neg, rhe (p.mant * n) (10 ^ j), p.scale - j⟩, ?_, ?_, ?_⟩
    · unfold mul
      simp only [h0, if_false, hPm, hk0]
      rw [hsc, hloop]
      simp [orErr]
    · simp [hasFract, hval, Nat.mul_mod_left]
    · simp [toU128, hneg, ofNat, hval, Nat.mul_div_cancel _ (pow10_pos _)]

/-! ### results stay below 2^96 -/

theorem mul_mant_lt {a b t : Dec} (ht : mul a b = some t) : t.mant < LIM := by
  unfold mul at ht
  by_cases h0 : a.mant = 0 ∨ b.mant = 0
  · simp only [h0, if_true, Option.some.injEq] at ht; subst ht; decide
  · simp only [h0, if_false] at ht
    cases hl : mulLoop (a.mant * b.mant) (a.scale + b.scale) (a.scale + b.scale + 2)
        (a.scale + b.scale - 28) with
    | none => simp [hl] at ht
    | some r =>
      obtain ⟨m, sc⟩ := r
      simp only [hl, Option.some.injEq] at ht
      subst ht
      obtain ⟨_, _, _, _, _, hlt, _⟩ := mulLoop_some _ _ hl
      exact hlt

theorem rha0_lt {p : Dec} (h : p.mant < LIM) : (rha0 p).mant < LIM := by
  unfold rha0
  simp only
  have hX : 0 < 10 ^ p.scale := pow10_pos _
  apply (Nat.div_lt_iff_lt_mul (by omega)).mpr
  have h1 : 2 * p.mant ≤ 2 * p.mant * 10 ^ p.scale := Nat.le_mul_of_pos_right _ hX
  have h2 : 2 * (p.mant + 1) * 10 ^ p.scale ≤ 2 * LIM * 10 ^ p.scale :=
    Nat.mul_le_mul_right _ (Nat.mul_le_mul_left _ (by omega))
  have h3 : 2 * (p.mant + 1) * 10 ^ p.scale = 2 * p.mant * 10 ^ p.scale + 2 * 10 ^ p.scale := by
    rw [Nat.mul_add, Nat.add_mul]
  have h4 : LIM * (2 * 10 ^ p.scale) = 2 * LIM * 10 ^ p.scale := by ac_rfl
  omega

theorem rateFee_lt {r g : Dec} {n : Nat} (h : rateFee r g = .ok n) : n < LIM := by
  unfold rateFee at h
  simp only [Res.bind_eq_ok, orErr_eq_ok] at h
  obtain ⟨p, hp, hu⟩ := h
  have := rha0_lt (mul_mant_lt hp)
  unfold toU128 at hu
  split at hu
  · cases hu
  · simp only [Option.some.injEq] at hu
    subst hu
    have h1 : (rha0 p).scale = 0 := rfl
    rw [h1]; simpa using this

/-! ### the pro-rata fee at the two ends -/

/-- nothing left unspent needs no fee -/
theorem feeFor_zero_val {F Q n : Nat} (h : feeFor F Q 0 = .ok n) : n = 0 := by
  unfold feeFor at h
  simp only [Res.bind_eq_ok, orErr_eq_ok] at h
  obtain ⟨r, hr, f, hf, p, hp, hu⟩ := h
  unfold ratio at hr
  split at hr
  · cases hr
  · simp only [if_true, Option.some.injEq] at hr
    subst hr
    unfold mul at hp
    simp only [true_or, if_true, Option.some.injEq] at hp
    subst hp
    simp [toU128, rha0] at hu
    omega

theorem strip_pow10 : ∀ k, strip (10 ^ k) k = (1, 0)
  | 0 => rfl
  | k + 1 => by
    unfold strip
    have h1 : 10 ^ (k + 1) % 10 = 0 := by rw [Nat.pow_succ]; exact Nat.mul_mod_left _ _
    have h2 : 10 ^ (k + 1) ≠ 0 := Nat.ne_of_gt (pow10_pos _)
    have h3 : 10 ^ (k + 1) / 10 = 10 ^ k := by rw [Nat.pow_succ]; exact Nat.mul_div_cancel _ (by decide)
    simp only [h1, h2, ne_eq, not_false_eq_true, and_self, if_true, h3]
    exact strip_pow10 k

theorem ratio_self {Q : Nat} (hQ : 0 < Q) (hQl : Q < LIM) : ratio Q Q = some ⟨false, 1, 0⟩ := by
  unfold ratio
  have h1 : ¬ (Q = 0 ∨ Q > Q ∨ Q ≥ LIM) := by omega
  have h2 : Q ≠ 0 := by omega
  have hr : rhe (Q * 10 ^ 28) Q = 10 ^ 28 := by
    rw [rhe_exact hQ (Nat.dvd_mul_right _ _), Nat.mul_div_cancel_left _ hQ]
  simp only [h2, hr, strip_pow10, false_or]
  have h3 : ¬ (Q > Q ∨ Q ≥ LIM) := by omega
  simp only [h3, if_false]

theorem mul_one_nat {F : Nat} (hF : F < LIM) : mul ⟨false, 1, 0⟩ (ofNat F) = some ⟨false, F, 0⟩ := by
  by_cases hF0 : F = 0
  · subst hF0; unfold mul; simp [ofNat]
  · unfold mul
    simp only [ofNat, Nat.one_mul, Nat.add_zero, Nat.zero_sub]
    have hne : ¬ ((1 : Nat) = 0 ∨ F = 0) := by omega
    simp only [hne, if_false]
    unfold mulLoop
    simp [rhe_one, hF]

/-- everything still unspent needs the whole fee -/
theorem feeFor_full {F Q : Nat} (hQ : 0 < Q) (hQl : Q < LIM) (hF : F < LIM) : feeFor F Q Q = .ok F := by
  unfold feeFor fromU128
  simp only [ratio_self hQ hQl, orErr, Res.ok_bind, hF, if_true, mul_one_nat hF]
  have : (2 * F + 10 ^ 0) / (2 * 10 ^ 0) = F := by simp; omega
  simp [rha0, toU128, this]

end Ats.Dec
