/-
  C08 — Convertible asks: one-time funded approval, approver escrow tracks the ask.
-/
import AtsProofs.C04
import AtsProofs.C07
namespace Ats.Proofs
open Ats Ats.Spec

/-- C08 approval: an accepted approve request comes from a configured approver, names an ask
    that is still pending (so: never a plain ask, never a second time), states the ask's
    current size and the contract's base denomination, escrows exactly that (attached funds, or
    one pull transfer for a restricted marker), and records the approver with an amount equal
    to the ask's size -/
theorem C08_approve (env : Env) (s s' : State) (c : Call) (r : Response) (id base : String) (size : Nat)
    (hm : c.msg = .approveAsk id base size)
    (h : execute env s c = .ok (s', r)) :
    C08_approveOK env s c id base size r s' = true := by
  unfold execute at h
  simp only [Res.bind_eq_ok, guardR_eq_ok, hm] at h
  obtain ⟨_, _, h⟩ := h
  obtain ⟨a, hap, hf, ha, hp, hsz, hb, _, rfl, hr⟩ := approveAsk_ok h
  subst hsz hb
  have hesc : escrowOK env c r ⟨s.info.baseDenom, a.size⟩ = true := escrowOK_of hf (by rw [hr])
  unfold C08_approveOK
  simp only [hap, ha, hp, hesc, Book.get?_set_eq, beq_self_eq_true, Bool.and_self]

/-- a plain ask can never be approved, an approved one never again -/
theorem C08_only_pending (env : Env) (s : State) (c : Call) (id base : String) (size : Nat) (a : Ask)
    (hm : c.msg = .approveAsk id base size) (ha : s.asks.get? id = some a)
    (hnp : a.cls ≠ .pending) : ∃ e, execute env s c = .err e := by
  cases hx : execute env s c with
  | err e => exact ⟨e, rfl⟩
  | ok p =>
    have := C08_approve env s p.1 c p.2 id base size hm (by rw [hx])
    unfold C08_approveOK at this
    simp only [ha, Bool.and_eq_true] at this
    cases hc : a.cls <;> simp_all

/-- a pending ask can be cancelled, expired or rejected but never matched -/
theorem C08_pending_never_matched (env : Env) (s : State) (c : Call) (askId bidId price : String)
    (size : Nat) (a : Ask) (hm : c.msg = .executeMatch askId bidId price size)
    (ha : s.asks.get? askId = some a) (hp : a.cls = .pending) :
    ∃ e, execute env s c = .err e := by
  cases hx : execute env s c with
  | err e => exact ⟨e, rfl⟩
  | ok p =>
    exfalso
    have h : execute env s c = .ok (p.1, p.2) := by rw [hx]
    unfold execute at h
    simp only [Res.bind_eq_ok, guardR_eq_ok, hm] at h
    obtain ⟨_, _, h⟩ := h
    obtain ⟨a', _, _, _, _, _, _, _, _, _, _, _, _, _, ha', _, _, _, _, _, _, _, _, _, _, _, _, _, _, _, _, hcls, _⟩ :=
      executeMatch_ok h
    rw [ha] at ha'; cases ha'
    have := (classMsgs_ok.mp hcls).1
    apply this
    unfold Ask.reduce; simp [hp]

/-- what `paysExactly` says about one payee that occurs in the expected list -/
theorem credit_of_paysExactly {c : String} {ms : List Msg} {exp : List (String × String × Nat)}
    (h : paysExactly c ms exp = true) {x d : String} {n : Nat} (hm : (x, d, n) ∈ exp) :
    credit c ms x d = expCredit exp x d := by
  unfold paysExactly creditsMatch at h
  simp only [Bool.and_eq_true, List.all_eq_true, beq_iff_eq] at h
  refine h.2 x ?_ d ?_
  · exact List.mem_append_right _ (List.mem_map.mpr ⟨_, hm, rfl⟩)
  · exact List.mem_append_right _ (List.mem_map.mpr ⟨_, hm, rfl⟩)

/-- C08 (release) from the C04 statement: what the approver of an approved ask gets back on a
    cancel / expire / reject is exactly the decrease of the recorded approver amount -/
theorem C08_release_of_C04 {contract : String} {s s' : State} {id : String} {requested : Option Nat}
    {r : Response} (hs : sane s = true) (hok : C04_askOK contract s id requested r s' = true) :
    C08_releaseOK contract s id r s' = true := by
  unfold C04_askOK at hok
  unfold C08_releaseOK
  cases ha : s.asks.get? id with
  | none => rfl
  | some a =>
    simp only [ha, Bool.and_eq_true, decide_eq_true_eq, beq_iff_eq] at hok ⊢
    obtain ⟨⟨⟨hle, _⟩, hpay⟩, hafter⟩ := hok
    have hf := sane_ask_facts hs ha
    have hc := hf.cls_ok
    cases hcl : a.cls with
    | basic => rfl
    | pending => rfl
    | ready ap conv =>
      simp only [hcl] at hc ⊢
      obtain ⟨hne, _, hden, hamt⟩ := hc
      have hmem : (ap, conv.denom, requested.getD a.size) ∈ askReversePays a (requested.getD a.size) := by
        unfold askReversePays; simp [hcl]
      rw [credit_of_paysExactly hpay hmem, expCredit_askReversePays]
      simp only [hcl, and_self, if_true]
      have hbase : ¬ (a.owner = ap ∧ a.base = conv.denom) := fun h => hne (h.2.trans hden)
      simp only [hbase, if_false, Nat.zero_add]
      unfold recordedApproverAmount
      rw [hafter, askAfterReverse_eq]
      have hsz : (a.reduce (requested.getD a.size)).size = a.size - requested.getD a.size := rfl
      have hcls : (a.reduce (requested.getD a.size)).cls =
          .ready ap ⟨conv.denom, a.size - requested.getD a.size⟩ := by
        unfold Ask.reduce; simp only [hcl]
      by_cases hz : (a.reduce (requested.getD a.size)).size = 0
      · simp only [hz, if_true]
        rw [hsz] at hz
        rw [beq_iff_eq]; omega
      · simp only [hz, if_false, hcls]
        rw [beq_iff_eq]; omega

/-- C08 (release), expire / reject -/
theorem C08_release_reverse (env : Env) (s s' : State) (c : Call) (r : Response) (id : String)
    (requested : Option Nat) (hs : sane s = true)
    (hm : c.msg = .expireAsk id ∧ requested = none ∨ c.msg = .rejectAsk id requested)
    (h : execute env s c = .ok (s', r)) : C08_releaseOK env.contract s id r s' = true :=
  C08_release_of_C04 hs (C04_reverse_ask env s s' c r id requested hs hm h)

/-- C08 (release), owner's cancel: the approver gets the whole recorded amount back -/
theorem C08_release_cancel (env : Env) (s s' : State) (c : Call) (r : Response) (id : String)
    (hs : sane s = true) (hm : c.msg = .cancelAsk id)
    (h : execute env s c = .ok (s', r)) : C08_releaseOK env.contract s id r s' = true :=
  C08_release_of_C04 hs (C04_cancel_ask env s s' c r id hs hm h)

end Ats.Proofs
