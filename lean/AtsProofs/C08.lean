/-
  C08 — Convertible asks: one-time funded approval, approver escrow tracks the ask.
-/
import AtsProofs.C04
import AtsProofs.C07
namespace Ats.Proofs
open Ats Ats.Spec

/-- C08 approval: an accepted approve request comes from a configured approver, names an ask
    that is still pending (so: never a plain ask, never a second time), states the ask's
    current size and the contract's base denomination, escrows exactly that (attached funds, or
    one pull transfer for a restricted marker), and records the approver with an amount equal
    to the ask's size -/
theorem C08_approve (env : Env) (s s' : State) (c : Call) (r : Response) (id base : String) (size : Nat)
    (hm : c.msg = .approveAsk id base size)
    (h : execute env s c = .ok (s', r)) :
    C08_approveOK env s c id base size r s' = true := by
  unfold execute at h
  simp only [Res.bind_eq_ok, guardR_eq_ok, hm] at h
  obtain ⟨_, _, h⟩ := h
  obtain ⟨a, hap, hf, ha, hp, hsz, hb, _, rfl, hr⟩ := approveAsk_ok h
  subst hsz hb
  have hesc : escrowOK env c r ⟨s.info.baseDenom, a.size⟩ = true := escrowOK_of hf (by rw [hr])
  unfold C08_approveOK
  simp only [hap, ha, hp, hesc, Book.get?_set_eq, beq_self_eq_true, Bool.and_self]

/-- a plain ask can never be approved, an approved one never again -/
theorem C08_only_pending (env : Env) (s : State) (c : Call) (id base : String) (size : Nat) (a : Ask)
    (hm : c.msg = .approveAsk id base size) (ha : s.asks.get? id = some a)
    (hnp : a.cls ≠ .pending) : ∃ e, execute env s c = .err e := by
  cases hx : execute env s c with
  | err e => exact ⟨e, rfl⟩
  | ok p =>
    have := C08_approve env s p.1 c p.2 id base size hm (by rw [hx])
    unfold C08_approveOK at this
    simp only [ha, Bool.and_eq_true] at this
    cases hc : a.cls <;> simp_all

/-- a pending ask can be cancelled, expired or rejected but never matched -/
theorem C08_pending_never_matched (env : Env) (s : State) (c : Call) (askId bidId price : String)
    (size : Nat) (a : Ask) (hm : c.msg = .executeMatch askId bidId price size)
    (ha : s.asks.get? askId = some a) (hp : a.cls = .pending) :
    ∃ e, execute env s c = .err e := by
  cases hx : execute env s c with
  | err e => exact ⟨e, rfl⟩
  | ok p =>
    exfalso
    have h : execute env s c = .ok (p.1, p.2) := by rw [hx]
    unfold execute at h
    simp only [Res.bind_eq_ok, guardR_eq_ok, hm] at h
    obtain ⟨_, _, h⟩ := h
    obtain ⟨a', _, _, _, _, _, _, _, _, _, _, _, _, _, ha', _, _, _, _, _, _, _, _, _, _, _, _, _, _, _, _, hcls, _⟩ :=
      executeMatch_ok h
    rw [ha] at ha'; cases ha'
    have := (classMsgs_ok.mp hcls).1
    apply this
    unfold Ask.reduce; simp [hp]

end Ats.Proofs
