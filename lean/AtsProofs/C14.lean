/-
  C14 — Migration: version-gated, preserves the book, idempotent.
  C15 — Bid format conversion preserves every bid's remaining amounts.
-/
import AtsProofs.Inv
namespace Ats.Proofs
open Ats Ats.Spec

/-- C14 gate: a stored version that is unreadable, carries a pre-release tag, or is older than
    0.16.2 is refused (and a refused call changes nothing) -/
theorem C14_gate (env : Env) (s : State) (m : MigMsg) (hng : migratable s = false) :
    ∃ e, migrate env s m = .err e := by
  cases hx : migrate env s m with
  | err e => exact ⟨e, rfl⟩
  | ok p =>
    obtain ⟨_, ⟨v, hp, hge, _⟩, _⟩ := migrate_ok (s' := p.1) (r := p.2) (by rw [hx])
    simp [migratable, hp, hge] at hng

/-- C14 effect: from a supported version every ask is left exactly as it was, exactly the
    requested overrides are applied to the configuration and nothing else, and the current
    package version is stamped -/
theorem C14_effect (env : Env) (s s' : State) (m : MigMsg) (r : Response)
    (h : migrate env s m = .ok (s', r)) : C14_migrateOK env s m s' = true := by
  obtain ⟨_, ⟨v, hp, hge, _⟩, _, _, _, hinfo, hver, hasks, _⟩ := migrate_ok h
  unfold C14_migrateOK
  simp [migratable, hp, hge, hasks, hver, hinfo, marketSame]

theorem convertEntry_idem (e : BidEntry) : convertEntry (convertEntry e) = convertEntry e := by
  cases e <;> rfl

theorem map_convert_idem (b : Book BidEntry) :
    (b.map (fun kv => (kv.1, convertEntry kv.2))).map (fun kv => (kv.1, convertEntry kv.2)) =
      b.map (fun kv => (kv.1, convertEntry kv.2)) := by
  induction b with
  | nil => rfl
  | cons h t ih => simp [List.map, convertEntry_idem]

theorem feeAfter_idem (old : Option FeeInfo) (rate acct : Option String) :
    feeAfter (feeAfter old rate acct) rate acct = feeAfter old rate acct := by
  unfold feeAfter
  cases rate <;> cases acct <;> simp

/-- C14 idempotence: applying the same migration a second time changes nothing further
    (the stamped package version must itself be ≥ 0.19.1 and readable, which the harness
    confirms for the real constant on every run) -/
theorem C14_idem (env : Env) (s s1 s2 : State) (m : MigMsg) (r1 r2 : Response)
    (hv : ∃ v, Version.parse env.pkgVersion = some v ∧ v.ltReq 0 19 1 = false)
    (h1 : migrate env s m = .ok (s1, r1)) (h2 : migrate env s1 m = .ok (s2, r2)) :
    s2.info = s1.info ∧ s2.version = s1.version ∧ s2.asks = s1.asks ∧ s2.bids = s1.bids := by
  obtain ⟨_, _, _, _, _, hi1, hv1, ha1, _⟩ := migrate_ok h1
  obtain ⟨_, ⟨v2, hp2, _, hb2⟩, _, _, _, hi2, hv2, ha2, _⟩ := migrate_ok h2
  obtain ⟨v, hpv, hlt⟩ := hv
  rw [hv1] at hp2
  simp only at hp2
  rw [hpv] at hp2; cases hp2
  refine ⟨?_, by rw [hv2, hv1], ha2, ?_⟩
  · rw [hi2, hi1]
    cases ha : m.approvers <;> cases hb : m.askAttrs <;> cases hc : m.bidAttrs <;>
      simp [feeAfter_idem]
  · rw [hb2]; simp [hlt]

/-! ### C15 -/

theorem foldl_sub (l : List Action) (a b c : Nat) :
    l.foldl (fun (acc : Nat × Nat × Nat) ev => (acc.1 - ev.base, acc.2.1 - ev.quote, acc.2.2 - ev.fee)) (a, b, c) =
      (a - (l.map Action.base).sum, b - (l.map Action.quote).sum, c - (l.map Action.fee).sum) := by
  induction l generalizing a b c with
  | nil => simp
  | cons h t ih =>
    simp only [List.foldl_cons, List.map_cons, List.sum_cons]
    rw [ih]
    simp [Nat.sub_sub]

/-- C15 conversion: the converted bid keeps every field and its remaining base, quote and fee
    are the original amounts minus the sums over the event log – specified independently as a
    fold of the per-event subtraction over the log -/
theorem C15_convert (b : BidV2) :
    let c := b.convert
    c.base = b.base ∧ c.quote = b.quote ∧ c.fee = b.fee ∧ c.id = b.id ∧ c.owner = b.owner ∧
    c.price = b.price ∧ (c.remBase, c.remQuote, c.remFee) = v2Remaining b := by
  simp only [BidV2.convert, v2Remaining, foldl_sub, Bid.remBase, Bid.remQuote, Bid.remFee, Bid.feeAmount,
    true_and]
  cases b.fee <;> simp

theorem get?_map_convert (b : Book BidEntry) (k : String) :
    Book.get? (b.map (fun kv => (kv.1, convertEntry kv.2))) k = (Book.get? b k).map convertEntry := by
  induction b with
  | nil => rfl
  | cons h t ih =>
    obtain ⟨k', v⟩ := h
    simp only [List.map_cons, Book.get?_cons]
    by_cases hk : k' = k
    · simp [hk]
    · simp [hk, ih]

theorem keys_map_convert (b : Book BidEntry) :
    Book.keys (b.map (fun kv => (kv.1, convertEntry kv.2))) = Book.keys b := by
  simp [Book.keys, List.map_map, Function.comp_def]

theorem entryOK_convert (e : BidEntry) : C15_entryOK true e (convertEntry e) = true := by
  cases e with
  | v3 b => simp [C15_entryOK, convertEntry]
  | v2 b =>
    have h := C15_convert b
    simp only at h
    obtain ⟨h1, h2, h3, h4, h5, h6, h7⟩ := h
    simp [C15_entryOK, convertEntry, h1, h2, h3, h4, h5, h6, h7]

theorem entryOK_same (e : BidEntry) : C15_entryOK false e e = true := by
  cases e <;> simp [C15_entryOK]

/-- C15 scope: inside the window every old-format entry becomes the converted bid, every
    current-format entry and the key set are unchanged; outside the window nothing under the
    bid prefix is rewritten; no bid is lost or invented -/
theorem C15_scope (env : Env) (s s' : State) (m : MigMsg) (r : Response)
    (h : migrate env s m = .ok (s', r)) : C15_bidsOK s s' = true := by
  obtain ⟨_, ⟨v, hp, hge, hb⟩, _⟩ := migrate_ok h
  unfold C15_bidsOK
  simp only [Bool.and_eq_true, beq_iff_eq, List.all_eq_true]
  by_cases hw : (v.geReq 0 16 2 && v.ltReq 0 19 1) = true
  · rw [hb]; simp only [hw, if_true]
    refine ⟨keys_map_convert _, ?_⟩
    intro k hk
    obtain ⟨e, he⟩ := Book.get?_isSome_of_mem_keys hk
    rw [get?_map_convert, he]
    simp only [Option.map_some]
    have : inWindow s = true := by simp [inWindow, hp, hw]
    rw [this]; exact entryOK_convert e
  · rw [hb]; simp only [hw]
    refine ⟨rfl, ?_⟩
    intro k hk
    obtain ⟨e, he⟩ := Book.get?_isSome_of_mem_keys hk
    have : inWindow s = false := by simp [inWindow, hp]; simpa using hw
    simp only [he, this, Bool.false_eq_true, if_false]; exact entryOK_same e

/-- C15 native: after a migration inside the window no old-format entry remains, so every
    theorem about `BidOrderV3` bids (C02, C04, C06 …) applies to the converted bids verbatim -/
theorem C15_native (env : Env) (s s' : State) (m : MigMsg) (r : Response)
    (h : migrate env s m = .ok (s', r)) (hw : inWindow s = true) :
    ∀ k e, s'.bids.get? k = some e → ∃ b, e = .v3 b := by
  obtain ⟨_, ⟨v, hp, hge, hb⟩, _⟩ := migrate_ok h
  have : (v.geReq 0 16 2 && v.ltReq 0 19 1) = true := by simpa [inWindow, hp] using hw
  intro k e he
  rw [hb] at he
  simp only [this, if_true] at he
  rw [get?_map_convert] at he
  cases hx : Book.get? s.bids k with
  | none => simp [hx] at he
  | some e0 =>
    simp [hx] at he
    subst he
    cases e0 <;> simp [convertEntry]

theorem sumBy_map_convert (f : BidEntry → Nat) (b : Book BidEntry)
    (h : ∀ e, f (convertEntry e) = f e) :
    Book.sumBy f (b.map (fun kv => (kv.1, convertEntry kv.2))) = Book.sumBy f b := by
  induction b with
  | nil => rfl
  | cons hd tl ih =>
    obtain ⟨k, e⟩ := hd
    simp only [List.map_cons, Book.sumBy, h, ih]

theorem bidOwesAny_convert (d : String) (e : BidEntry) : bidOwesAny d (convertEntry e) = bidOwesAny d e := by
  cases e with
  | v3 b => rfl
  | v2 b =>
    obtain ⟨_, hq, hf, _, _, _, hrem⟩ := C15_convert b
    simp only [convertEntry, bidOwesAny, bidOwes]
    have h1 : b.convert.remQuote = (v2Remaining b).2.1 := by
      have := congrArg (fun x => x.2.1) hrem; simpa using this
    have h2 : b.convert.remFee = (v2Remaining b).2.2 := by
      have := congrArg (fun x => x.2.2) hrem; simpa using this
    rw [hq, hf, h1, h2]

/-- C01 across a migration: a migration moves no funds, and what the book owes – old-format
    bids counted by the fold over their event log – is the same before and after, in every
    denomination: nothing the contract holds is orphaned or double-counted by the conversion -/
theorem C01_migrate (env : Env) (s s' : State) (m : MigMsg) (r : Response) (d : String)
    (h : migrate env s m = .ok (s', r)) : owedAny s' d = owedAny s d ∧ r.msgs = [] := by
  obtain ⟨_, ⟨v, _, _, hb⟩, _, _, _, _, _, ha, hr⟩ := migrate_ok h
  refine ⟨?_, by rw [hr]⟩
  unfold owedAny
  rw [ha, hb]
  split
  · rw [sumBy_map_convert _ _ (bidOwesAny_convert d)]
  · rfl

/-- C09 across a migration: every converted bid keeps exactly the fee its event log leaves -/
theorem C09_migrate_fee (env : Env) (s s' : State) (m : MigMsg) (r : Response)
    (hd : distinctKeys s.bids = true)
    (h : migrate env s m = .ok (s', r)) : C09_migrateFeeOK s s' = true := by
  obtain ⟨_, ⟨v, _, _, hb⟩, _⟩ := migrate_ok h
  unfold C09_migrateFeeOK
  rw [List.all_eq_true]
  intro kv hkv
  have hget : s.bids.get? kv.1 = some kv.2 := Book.mem_get? (Book.distinct_of_bool hd) (by cases kv; exact hkv)
  cases he : kv.2 with
  | v3 b => simp
  | v2 old =>
    by_cases hw : (v.geReq 0 16 2 && v.ltReq 0 19 1) = true
    · have hs' : s'.bids.get? kv.1 = some (.v3 old.convert) := by
        rw [hb, if_pos hw, get?_map_convert, hget, he]; rfl
      obtain ⟨_, _, hf, _, _, _, hrem⟩ := C15_convert old
      have h2 : old.convert.remFee = (v2Remaining old).2.2 := by
        have := congrArg (fun x => x.2.2) hrem; simpa using this
      simp [hs', hf, h2]
    · have hs' : s'.bids.get? kv.1 = some (.v2 old) := by
        rw [hb, if_neg hw, hget, he]
      simp [hs']

