/-
  AtsProofs.Run — histories: every finite sequence of requests from instantiation, refused
  requests skipped (= rolled back), and the lift of the step theorems to all reachable states.
-/
import AtsProofs.SaneStep
namespace Ats.Proofs
open Ats Ats.Spec

/-- cumulative ledger of the contract: everything received and everything paid out, per
    denomination -/
structure Ledger where
  recv : String → Nat
  paid : String → Nat

def Ledger.zero : Ledger := ⟨fun _ => 0, fun _ => 0⟩

def Ledger.add (L : Ledger) (contract : String) (c : Call) (r : Response) : Ledger :=
  ⟨fun d => L.recv d + fundsOf c.funds d + credit contract r.msgs contract d,
   fun d => L.paid d + debit contract r.msgs contract d⟩

/-- run a history: refused requests change nothing -/
def runHist (s : State) (L : Ledger) : List (Env × Call) → State × Ledger
  | [] => (s, L)
  | (env, c) :: t =>
    match execute env s c with
    | .ok (s', r) => runHist s' (L.add env.contract c r) t
    | .err _ => runHist s L t

/-- assumptions on one request of a history: the magnitude hypothesis (F6) for matches, and the
    contract's own address is neither the sender nor a payee -/
def GoodStep (env : Env) (s : State) (c : Call) : Prop :=
  ExactStep s c.msg ∧ c.sender ≠ env.contract ∧
  ∀ s' r, execute env s c = .ok (s', r) → NoSelfPay env.contract r.msgs

def GoodHist : State → List (Env × Call) → Prop
  | _, [] => True
  | s, (env, c) :: t =>
    match execute env s c with
    | .ok (s', _) => GoodStep env s c ∧ GoodHist s' t
    | .err _ => GoodHist s t

/-- holdings (received − paid) equal what the book owes -/
def Balanced (s : State) (L : Ledger) : Prop := ∀ d, L.recv d = owed s d + L.paid d

theorem sane_init (env : Env) (m : InstMsg) (s : State) (r : Response)
    (h : instantiate env m = .ok (s, r)) : sane s = true := by
  unfold instantiate at h
  simp only [Res.bind_eq_ok, guardR_eq_ok, validAddrs_ok, Res.pure_eq, Res.ok.injEq, Prod.mk.injEq] at h
  obtain ⟨_, hv, _, _, _, _, af, haf, bf, hbf, _, hinc, rfl, _⟩ := h
  unfold InstMsg.valid at hv
  simp only [Bool.and_eq_true, decide_eq_true_eq, Bool.not_eq_true'] at hv
  have ha := feePair_inv haf
  have hb := feePair_inv hbf
  have hrate : ∀ (x : Option (Option FeeInfo)) (a r : Option String), FeePairFine env a r →
      (∀ old, x.getD old = feeAfter old r a) → rateOK (x.getD none) = true := by
    intro x a r hfp hx
    rw [hx none]
    unfold feeAfter
    cases r with
    | none => rfl
    | some rr =>
      cases a with
      | none => rfl
      | some aa =>
        by_cases hc : aa = "" ∧ rr = ""
        · simp [hc, rateOK]
        · simp only [hc, if_false, rateOK]
          rcases hfp aa rr rfl rfl with h | h
          · exact absurd h hc
          · exact h.1
  rw [sane_iff]
  refine ⟨?_, trivial, trivial, (fun _ h => by cases h), (fun _ h => by cases h)⟩
  unfold infoSane
  simp only [Bool.and_eq_true, decide_eq_true_eq, Bool.not_eq_true']
  exact ⟨⟨⟨⟨⟨hv.1.2, hv.2⟩, hinc⟩, hv.1.1.1.1.2⟩, hrate af _ _ ha.1 ha.2⟩, hrate bf _ _ hb.1 hb.2⟩

theorem balanced_init (env : Env) (m : InstMsg) (s : State) (r : Response)
    (h : instantiate env m = .ok (s, r)) : Balanced s Ledger.zero := by
  unfold instantiate at h
  simp only [Res.bind_eq_ok, guardR_eq_ok, validAddrs_ok, Res.pure_eq, Res.ok.injEq, Prod.mk.injEq] at h
  obtain ⟨_, _, _, _, _, _, _, _, _, _, _, _, rfl, _⟩ := h
  intro d
  simp [Ledger.zero, owed, Book.sumBy]

/-- C01 over histories: along every finite history of accepted and refused requests from a
    sane balanced state – in particular from instantiation – the contract's holdings of every
    denomination equal exactly what its open orders are owed, and the state stays sane -/
theorem C01_history (s : State) (L : Ledger) (hist : List (Env × Call)) (ct : String)
    (hct : ∀ ec ∈ hist, ec.1.contract = ct)
    (hs : sane s = true) (hb : Balanced s L) (hg : GoodHist s hist) :
    sane (runHist s L hist).1 = true ∧ Balanced (runHist s L hist).1 (runHist s L hist).2 := by
  induction hist generalizing s L with
  | nil => exact ⟨hs, hb⟩
  | cons ec t ih =>
    obtain ⟨env, c⟩ := ec
    unfold runHist
    unfold GoodHist at hg
    cases hx : execute env s c with
    | err e =>
      simp only [hx] at hg ⊢
      exact ih s L (fun ec h => hct ec (List.mem_cons_of_mem _ h)) hs hb hg
    | ok p =>
      obtain ⟨s', r⟩ := p
      simp only [hx] at hg ⊢
      obtain ⟨⟨hex, hsender, hself⟩, hgt⟩ := hg
      have hs' := Sane_step env s s' c r hs hex hx
      refine ih s' _ (fun ec h => hct ec (List.mem_cons_of_mem _ h)) hs' ?_ hgt
      intro d
      have := denomOK_iff.mp (C01_step env s s' c r d hs hex hsender (hself s' r hx) hx)
      have hbd := hb d
      simp only [Ledger.add]
      omega

/-- every payout of an accepted request is covered by what the contract held before plus what
    the request itself brought in: no request is answered with payouts the contract cannot fund -/
theorem C01_fundable (env : Env) (s s' : State) (L : Ledger) (c : Call) (r : Response) (d : String)
    (hs : sane s = true) (hb : Balanced s L) (hx : ExactStep s c.msg)
    (hsender : c.sender ≠ env.contract) (hself : NoSelfPay env.contract r.msgs)
    (h : execute env s c = .ok (s', r)) :
    debit env.contract r.msgs env.contract d ≤
      (L.recv d - L.paid d) + fundsOf c.funds d + credit env.contract r.msgs env.contract d := by
  have := denomOK_iff.mp (C01_step env s s' c r d hs hx hsender hself h)
  have hbd := hb d
  omega

/-- the states reachable from instantiation -/
inductive Reach : State → Prop
  | init (env : Env) (m : InstMsg) (s : State) (r : Response) :
      instantiate env m = .ok (s, r) → Reach s
  | step (env : Env) (s s' : State) (c : Call) (r : Response) :
      Reach s → ExactStep s c.msg → execute env s c = .ok (s', r) → Reach s'

theorem reach_sane {s : State} (h : Reach s) : sane s = true := by
  induction h with
  | init env m s r hi => exact sane_init env m s r hi
  | step env s s' c r _ hx he ih => exact Sane_step env s s' c r ih hx he

end Ats.Proofs
