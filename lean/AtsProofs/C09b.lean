/-
  C09 — "to the nearest unit", and the pro-rata invariant in every reachable state.
-/
import AtsProofs.C09
import AtsProofs.DecNear
namespace Ats.Proofs
open Ats Ats.Spec Ats.Dec

/-- a bid that holds exactly the fee the decimal pipeline says its unspent quote needs holds,
    below the magnitude bound `4·F·Q ≤ 10^28`, an integer nearest to `F·q/Q` -/
theorem C09_near_of_exact (e : BidEntry) (hfe : feeExactBid e = true) (hsm : C09_small e = true) :
    C09_bidNear e = true := by
  cases e with
  | v2 b => rfl
  | v3 b =>
    simp only [feeExactBid] at hfe
    simp only [C09_bidNear]
    simp only [C09_small] at hsm
    cases hf : b.fee with
    | none => simp
    | some f =>
      simp only [hf] at hfe ⊢
      cases hff : Dec.feeFor f.amount b.quote.amount b.remQuote with
      | err e => simp [hff] at hfe
      | ok n =>
        simp only [hff, beq_iff_eq] at hfe
        have hb : 4 * (f.amount * b.quote.amount) ≤ 10 ^ 28 := by
          simp only [Bid.feeAmount, hf, decide_eq_true_eq] at hsm
          rw [← Nat.mul_assoc]; exact hsm
        obtain ⟨h1, h2⟩ := feeFor_near hb hff
        unfold nearestFee
        rw [hfe]
        simp only [Bool.and_eq_true, decide_eq_true_eq]
        exact ⟨by rw [Nat.mul_comm n] at h1; rw [Nat.mul_comm n]; exact h1,
               by rw [Nat.mul_comm n] at h2; rw [Nat.mul_comm n]; exact h2⟩

/-- the pro-rata invariant holds in every reachable state -/
theorem reach_feeExact {s : State} (h : Reach s) : feeExact s = true := by
  induction h with
  | init env m s r hi => exact C09_init env m s r hi
  | step env s s' c r hr hx he ih => exact C09_prorata env s s' c r (reach_sane hr) ih hx he

/-- C09 (nearest unit): in every reachable state every open bid below the magnitude bound holds
    a fee that is an integer nearest to original fee × unspent quote / original quote -/
theorem C09_near {s : State} (h : Reach s) (k : String) (e : BidEntry)
    (hk : s.bids.get? k = some e) (hsm : C09_small e = true) : C09_bidNear e = true := by
  have hfe := reach_feeExact h
  unfold feeExact at hfe
  rw [List.all_eq_true] at hfe
  have hmem : (k, e) ∈ s.bids := Book.get?_some_mem hk
  exact C09_near_of_exact e (hfe (k, e) hmem) hsm

end Ats.Proofs
