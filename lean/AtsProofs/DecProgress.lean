/-
  AtsProofs.DecProgress — progress lemmas for the decimal pipeline: when the exact result is
  representable the 96-bit operations succeed (used by the converse directions of C03 / C07).
-/
import AtsProofs.DecLemmas
namespace Ats.Dec
open Ats Ats.Spec

/-- `checked_mul` succeeds whenever the exact product of the mantissas is a multiple of `10^z`
    for a `z` the rescale loop can reach and the quotient fits in 96 bits -/
theorem mul_some_of {a b : Dec} (z : Nat) (hz1 : a.scale + b.scale - 28 ≤ z)
    (hz2 : z ≤ a.scale + b.scale) (hd : 10 ^ z ∣ a.mant * b.mant)
    (hfit : a.mant * b.mant / 10 ^ z < LIM) : ∃ t, mul a b = some t := by
  unfold mul
  by_cases h0 : a.mant = 0 ∨ b.mant = 0
  · exact ⟨⟨false, 0, 0⟩, by simp only [h0, if_true]⟩
  · simp only [h0, if_false]
    have hq : rhe (a.mant * b.mant) (10 ^ z) < LIM := by rw [rhe_exact (pow10_pos z) hd]; exact hfit
    obtain ⟨j, hj1, hj2, hqj, hmin⟩ :=
      exists_least (fun j => rhe (a.mant * b.mant) (10 ^ j) < LIM) (z - (a.scale + b.scale - 28))
        (a.scale + b.scale - 28) z rfl hz1 hq
    have hloop := mulLoop_find (P := a.mant * b.mant) (s := a.scale + b.scale)
      (a.scale + b.scale + 2) (a.scale + b.scale - 28) j hj1 (by omega) (by omega) hqj hmin
    rw [hloop]
    exact ⟨_, rfl⟩

/-- a whole number with no sign, as the contract's products represent it -/
theorem whole_repr {t : Dec} {g : Nat} (hfr : t.hasFract = false) (hu : t.toU128 = some g) :
    t.neg = false ∧ t.mant = g * 10 ^ t.scale ∧ t.trunc = g := by
  unfold toU128 at hu
  by_cases hn : t.neg = true
  · simp [hn] at hu
  · have hn' : t.neg = false := by simpa using hn
    simp only [hn', Bool.false_eq_true, if_false, Option.some.injEq] at hu
    unfold hasFract at hfr
    simp only [bne_eq_false_iff_eq, beq_iff_eq] at hfr
    refine ⟨hn', ?_, hu⟩
    rw [← hu]
    exact (Nat.div_mul_cancel (Nat.dvd_of_mod_eq_zero hfr)).symm

theorem eqv_ofNat_of {t : Dec} {g : Nat} (hn : t.neg = false) (hm : t.mant = g * 10 ^ t.scale) :
    eqv t (ofNat g) = true := by
  unfold eqv num ofNat
  simp [hn, hm]

/-- the rounded magnitude of `rate × g` is the exact fee (no sign considerations) -/
theorem rha0_mul_mant {r g p : Dec} {gross : Nat} (hrs : r.scale ≤ 28)
    (hg : g.mant = gross * 10 ^ g.scale) (hex : exactMul r gross = true) (hp : mul r g = some p) :
    (rha0 p).mant = exactFee r gross := by
  unfold exactMul at hex
  simp only [Bool.and_eq_true, Bool.or_eq_true, decide_eq_true_eq, beq_iff_eq] at hex
  have hv : p.mant * 10 ^ (r.scale + g.scale) = r.mant * g.mant * 10 ^ p.scale := by
    have hPd : r.mant * g.mant = r.mant * gross * 10 ^ g.scale := by rw [hg]; ac_rfl
    rcases hex.2 with hlt | hdiv
    · refine mul_exact_gen g.scale (by omega) (by omega) ?_ (Or.inl ?_) hp
      · rw [hPd]; exact Nat.dvd_mul_left _ _
      · rw [hPd, Nat.mul_div_cancel _ (pow10_pos _)]; exact hlt
    · refine mul_exact_gen (r.scale + g.scale) (by omega) (by omega) ?_ (Or.inr rfl) hp
      rw [hPd, Nat.pow_add]
      exact Nat.mul_dvd_mul (Nat.dvd_of_mod_eq_zero hdiv) (Nat.dvd_refl _)
  show (2 * p.mant + 10 ^ p.scale) / (2 * 10 ^ p.scale) = exactFee r gross
  unfold exactFee
  have e1 : (2 * p.mant + 10 ^ p.scale) / (2 * 10 ^ p.scale) =
      (10 ^ (r.scale + g.scale) * (2 * p.mant + 10 ^ p.scale)) /
        (10 ^ (r.scale + g.scale) * (2 * 10 ^ p.scale)) :=
    (Nat.mul_div_mul_left _ _ (pow10_pos _)).symm
  have e2 : (2 * r.mant * gross + 10 ^ r.scale) / (2 * 10 ^ r.scale) =
      (10 ^ (g.scale + p.scale) * (2 * r.mant * gross + 10 ^ r.scale)) /
        (10 ^ (g.scale + p.scale) * (2 * 10 ^ r.scale)) :=
    (Nat.mul_div_mul_left _ _ (pow10_pos _)).symm
  rw [e1, e2]
  have n1 : 10 ^ (r.scale + g.scale) * (2 * p.mant + 10 ^ p.scale) =
      10 ^ (g.scale + p.scale) * (2 * r.mant * gross + 10 ^ r.scale) := by
    have : 10 ^ (r.scale + g.scale) * (2 * p.mant) = 2 * (p.mant * 10 ^ (r.scale + g.scale)) := by ac_rfl
    rw [Nat.mul_add, this, hv, hg, Nat.mul_add, Nat.pow_add, Nat.pow_add]; ac_rfl
  have n2 : 10 ^ (r.scale + g.scale) * (2 * 10 ^ p.scale) =
      10 ^ (g.scale + p.scale) * (2 * 10 ^ r.scale) := by
    rw [Nat.pow_add, Nat.pow_add]; ac_rfl
  rw [n1, n2]

/-- exact fee ≤ … : if `rate × gross` is whole its value is below the rounded fee + 1 -/
theorem whole_le_exactFee {r : Dec} {gross : Nat} (hdiv : (r.mant * gross) % 10 ^ r.scale = 0) :
    r.mant * gross / 10 ^ r.scale ≤ exactFee r gross := by
  obtain ⟨q, hq⟩ := Nat.dvd_of_mod_eq_zero hdiv
  unfold exactFee
  rw [hq, Nat.mul_div_cancel_left _ (pow10_pos _)]
  have : 2 * r.mant * gross = 2 * (10 ^ r.scale * q) := by rw [← hq]; ac_rfl
  rw [this]
  apply (Nat.le_div_iff_mul_le (by have := pow10_pos r.scale; omega)).mpr
  have : q * (2 * 10 ^ r.scale) = 2 * (10 ^ r.scale * q) := by ac_rfl
  omega

/-- progress of the fee pipeline: under the magnitude hypothesis, if the exact fee is
    admissible and fits in 96 bits, `rate × g` rounded half away from zero is computed and
    equals it -/
theorem rateFee_progress {r g : Dec} {gross due : Nat} (hrs : r.scale ≤ 28)
    (hg : g.mant = gross * 10 ^ g.scale) (hgneg : g.neg = false)
    (hex : exactMul r gross = true) (hfit : exactFee r gross < LIM)
    (hadm : admissibleFee r gross = some due) : rateFee r g = .ok due := by
  have hex' := hex
  unfold exactMul at hex'
  simp only [Bool.and_eq_true, Bool.or_eq_true, decide_eq_true_eq, beq_iff_eq] at hex'
  have hPd : r.mant * g.mant = r.mant * gross * 10 ^ g.scale := by rw [hg]; ac_rfl
  obtain ⟨p, hp⟩ : ∃ p, mul r g = some p := by
    rcases hex'.2 with hlt | hdiv
    · refine mul_some_of g.scale (by omega) (by omega) ?_ ?_
      · rw [hPd]; exact Nat.dvd_mul_left _ _
      · rw [hPd, Nat.mul_div_cancel _ (pow10_pos _)]; exact hlt
    · refine mul_some_of (r.scale + g.scale) (by omega) (by omega) ?_ ?_
      · rw [hPd, Nat.pow_add]
        exact Nat.mul_dvd_mul (Nat.dvd_of_mod_eq_zero hdiv) (Nat.dvd_refl _)
      · rw [hPd, Nat.pow_add, Nat.mul_div_mul_right _ _ (pow10_pos _)]
        exact Nat.lt_of_le_of_lt (whole_le_exactFee hdiv) hfit
  have hm := rha0_mul_mant hrs hg hex hp
  have hneg := mul_neg_flag hp
  -- the rounded result carries no sign
  have hsign : (rha0 p).neg = false := by
    unfold admissibleFee at hadm
    simp only at hadm
    by_cases hn : (r.neg && exactFee r gross != 0) = true
    · simp [hn] at hadm
    · have hm' : (2 * p.mant + 10 ^ p.scale) / (2 * 10 ^ p.scale) = exactFee r gross := hm
      unfold rha0
      simp only [hm']
      by_cases hz : r.mant = 0 ∨ g.mant = 0
      · simp only [hz, if_true] at hneg; simp [hneg]
      · simp only [hz, if_false, hgneg, Bool.bne_false] at hneg
        rw [hneg]; simpa using hn
  have hok : rateFee r g = .ok (exactFee r gross) := by
    unfold rateFee
    simp only [hp, orErr, Res.ok_bind]
    unfold toU128
    simp only [hsign, Bool.false_eq_true, if_false]
    have : (rha0 p).scale = 0 := rfl
    rw [this, hm]; simp
  have := rateFee_exact hrs hg hgneg hex hok
  rw [hadm] at this
  simp only [Option.some.injEq] at this
  rw [this]; exact hok

theorem maybeRound_sign {m s : Nat} {c : Char} {point neg : Bool} {d : Dec}
    (h : maybeRound m s c point neg = .ok d) (hn : d.neg = true) : d.mant ≠ 0 := by
  unfold maybeRound at h
  cases hd : roundDigit c point with
  | none => simp [hd] at h
  | some dg =>
    simp only [hd] at h
    by_cases h1 : (if dg ≥ 5 then m + 1 else m) ≥ LIM
    · simp only [h1, if_true] at h
      by_cases hs : s = 0
      · simp [hs] at h
      · simp only [hs, if_false, Parsed.ok.injEq] at h
        subst h
        simp only
        unfold LIM at h1
        omega
    · simp only [h1, if_false, Parsed.ok.injEq] at h
      subst h
      simp only [Bool.and_eq_true, bne_iff_ne, ne_eq] at hn
      exact hn.2

theorem parseGo_sign : ∀ (cs : List Char) (m s : Nat) (point has neg : Bool) (d : Dec),
    parseGo cs m s point has neg = .ok d → d.neg = true → d.mant ≠ 0 := by
  intro cs
  induction cs with
  | nil =>
    intro m s point has neg d h hn
    unfold parseGo at h
    by_cases hh : has = true
    · simp only [hh, if_true, Parsed.ok.injEq] at h
      subst h
      simp only [Bool.and_eq_true, bne_iff_ne, ne_eq] at hn
      exact hn.2
    · simp [hh] at h
  | cons c rest ih =>
    intro m s point has neg d h hn
    unfold parseGo at h
    by_cases hd : c.isDigit = true
    · simp only [hd, if_true] at h
      by_cases hov : m * 10 + (c.toNat - 48) ≥ LIM
      · simp only [hov, if_true] at h
        by_cases hp : point = true
        · simp only [hp, if_true] at h
          exact maybeRound_sign h hn
        · simp [hp] at h
      · simp only [hov, if_false] at h
        cases rest with
        | nil =>
          simp only at h
          exact ih _ _ _ _ _ _ h hn
        | cons nxt tl =>
          simp only at h
          by_cases hu : (point && decide ((if point = true then s + 1 else 0) ≥ 28)) = true
          · simp only [hu, if_true] at h
            exact maybeRound_sign h hn
          · simp only [hu] at h
            exact ih _ _ _ _ _ _ h hn
    · simp only [hd] at h
      by_cases hdot : c = '.'
      · simp only [hdot, if_true] at h
        by_cases hp : point = true
        · simp [hp] at h
        · simp only [hp] at h
          exact ih _ _ _ _ _ _ h hn
      · simp only [hdot, if_false] at h
        by_cases hus : c = '_'
        · simp only [hus, if_true] at h
          by_cases hh : has = true
          · simp only [hh, if_true] at h
            exact ih _ _ _ _ _ _ h hn
          · simp [hh] at h
        · simp [hus] at h

theorem parse_sign {str : String} {p : Dec} (h : parse str = some p) (hn : p.neg = true) : p.mant ≠ 0 := by
  unfold parse at h
  cases hf : parseFull str with
  | bad => simp [hf] at h
  | unmodelled => simp [hf] at h
  | ok d =>
    simp only [hf, Option.some.injEq] at h
    subst h
    unfold parseFull at hf
    split at hf
    · cases hf
    · exact parseGo_sign _ _ _ _ _ _ _ hf hn
    · exact parseGo_sign _ _ _ _ _ _ _ hf hn
    · exact parseGo_sign _ _ _ _ _ _ _ hf hn

/-- a parsed decimal equal in value to a non-negative one carries no sign -/
theorem parse_nonneg_of_eqv {str : String} {p q : Dec} (h : parse str = some p) (hq : q.neg = false)
    (he : eqv p q = true) : p.neg = false := by
  by_cases hn : p.neg = true
  · exfalso
    have hm := parse_sign h hn
    unfold eqv num at he
    simp only [hn, hq, if_true, Bool.false_eq_true, if_false, beq_iff_eq] at he
    have h1 : (0:Int) < ((p.mant * 10 ^ q.scale : Nat) : Int) := by
      have : 0 < p.mant * 10 ^ q.scale := Nat.mul_pos (Nat.pos_of_ne_zero hm) (pow10_pos _)
      exact_mod_cast this
    have h2 : (0:Int) ≤ ((q.mant * 10 ^ p.scale : Nat) : Int) := Int.natCast_nonneg _
    omega
  · simpa using hn

/-- a lower price gives a lower (whole) product -/
theorem product_le_of_lt {p q : Dec} {n : Nat} (hp : p.neg = false) (hq : q.neg = false)
    (hlt : lt p q = true) (hwp : wholeProduct p n = true) (hwq : wholeProduct q n = true) :
    product p n ≤ product q n := by
  have hl := (lt_nat hp hq).mp hlt
  unfold wholeProduct at hwp hwq
  simp only [beq_iff_eq] at hwp hwq
  obtain ⟨G, hG⟩ := Nat.dvd_of_mod_eq_zero hwp
  obtain ⟨O, hO⟩ := Nat.dvd_of_mod_eq_zero hwq
  unfold product
  rw [hG, hO, Nat.mul_div_cancel_left _ (pow10_pos _), Nat.mul_div_cancel_left _ (pow10_pos _)]
  have h1 : G * (10 ^ p.scale * 10 ^ q.scale) = p.mant * 10 ^ q.scale * n := by
    have : G * (10 ^ p.scale * 10 ^ q.scale) = (10 ^ p.scale * G) * 10 ^ q.scale := by ac_rfl
    rw [this, ← hG]; ac_rfl
  have h2 : O * (10 ^ p.scale * 10 ^ q.scale) = q.mant * 10 ^ p.scale * n := by
    have : O * (10 ^ p.scale * 10 ^ q.scale) = (10 ^ q.scale * O) * 10 ^ p.scale := by ac_rfl
    rw [this, ← hO]; ac_rfl
  have h3 : p.mant * 10 ^ q.scale * n ≤ q.mant * 10 ^ p.scale * n :=
    Nat.mul_le_mul_right _ (Nat.le_of_lt hl)
  rw [← h1, ← h2] at h3
  exact Nat.le_of_mul_le_mul_right h3 (Nat.mul_pos (pow10_pos _) (pow10_pos _))


end Ats.Dec
