/-
  AtsProofs.InvDec — on a sane book the products the reversal paths form are exact.
-/
import AtsProofs.Inv
import AtsProofs.DecLemmas
namespace Ats
open Ats Ats.Spec

theorem priceOK_parse {info : Info} {price : String} (h : priceOK info price = true) :
    ∃ p, Dec.parse price = some p ∧ p.isZero = false ∧ p.neg = false ∧
      Dec.badPrecision p info.precision = some false := by
  unfold priceOK at h
  cases hq : Dec.parse price with
  | none => simp [hq] at h
  | some p =>
    simp only [hq, Bool.and_eq_true, Bool.not_eq_true', beq_iff_eq] at h
    exact ⟨p, rfl, h.1.1, h.1.2, h.2⟩

theorem infoSane_inc {info : Info} (h : infoSane info = true) :
    info.precision ≤ 18 ∧ 1 ≤ info.increment ∧ info.increment % 10 ^ info.precision = 0 := by
  unfold infoSane at h
  simp only [Bool.and_eq_true, decide_eq_true_eq, beq_iff_eq] at h
  exact ⟨h.1.1.1.1.1, h.1.1.1.1.2, h.1.1.1.2⟩

/-- `price × (a lot multiple)` is whole on a sane configuration -/
theorem whole_lot {info : Info} {price : String} {p : Dec} {n : Nat}
    (hi : infoSane info = true) (hp : priceOK info price = true) (hpp : Dec.parse price = some p)
    (hn : n % info.increment = 0) : wholeProduct p n = true := by
  obtain ⟨p', hp', _, _, hb⟩ := priceOK_parse hp
  rw [hpp] at hp'; cases hp'
  obtain ⟨_, _, hinc⟩ := infoSane_inc hi
  have hprice := Dec.badPrecision_exact (Dec.parse_scale hpp) (Dec.parse_mant hpp) hb
  unfold wholeProduct
  have h1 : 10 ^ info.precision ∣ info.increment := Nat.dvd_of_mod_eq_zero hinc
  have h2 : info.increment ∣ n := Nat.dvd_of_mod_eq_zero hn
  have h3 : 10 ^ p.scale ∣ p.mant * 10 ^ info.precision := Nat.dvd_of_mod_eq_zero hprice
  obtain ⟨k, hk⟩ := Nat.dvd_trans h1 h2
  have : 10 ^ p.scale ∣ p.mant * n := by
    rw [hk, ← Nat.mul_assoc]
    exact Nat.dvd_trans h3 (Nat.dvd_mul_right _ _)
  simp [Nat.mod_eq_zero_of_dvd this]

theorem exactMul_of_whole {p : Dec} {n : Nat} (hn : n < LIM) (hw : wholeProduct p n = true) :
    exactMul p n = true := by
  unfold exactMul
  unfold wholeProduct at hw
  simp [hn, hw]

/-- `price × (unfilled size)` is whole by the quote invariant -/
theorem whole_rem {b : Bid} {p : Dec} (hq : quoteInv b = true) (hpp : Dec.parse b.price = some p) :
    wholeProduct p b.remBase = true ∧ product p b.remBase = b.remQuote := by
  unfold quoteInv at hq
  simp only [hpp, beq_iff_eq] at hq
  unfold wholeProduct product
  rw [← hq]
  simp [Nat.mul_mod_left, Nat.mul_div_cancel _ (Dec.pow10_pos _)]

end Ats
