/-
  AtsProofs.Attrs — reading numbers back from response attributes.
-/
import AtsProofs.Basic
namespace Ats
open Ats Ats.Spec

theorem digitsVal_eq : ∀ (cs : List Char) (acc : Nat), (∀ c ∈ cs, c.isDigit = true) →
    digitsVal cs acc = some (Nat.ofDigitChars 10 cs acc) := by
  intro cs
  induction cs with
  | nil => intro acc _; simp [digitsVal]
  | cons c rest ih =>
    intro acc h
    have hc : c.isDigit = true := h c (by simp)
    unfold digitsVal
    simp only [hc, if_true]
    rw [ih _ (fun x hx => h x (by simp [hx])), Nat.ofDigitChars_cons]
    have : '0'.toNat = 48 := by decide
    rw [this, Nat.mul_comm]

@[simp] theorem digitsVal_toDigits (n : Nat) : digitsVal (Nat.toDigits 10 n) 0 = some n := by
  rw [digitsVal_eq _ _ (fun c hc => Nat.isDigit_of_mem_toDigits (by decide) (by decide) hc),
    Nat.ofDigitChars_ten_toDigits]

theorem digitsVal_toString (n : Nat) : digitsVal (toString n).toList 0 = some n := by
  rw [Nat.toString_eq_repr, Nat.toList_repr,
    digitsVal_eq _ _ (fun c hc => Nat.isDigit_of_mem_toDigits (by decide) (by decide) hc),
    Nat.ofDigitChars_ten_toDigits]

theorem toString_toList_ne_nil (n : Nat) : (toString n).toList ≠ [] := by
  rw [Nat.toString_eq_repr, Nat.toList_repr]; exact Nat.toDigits_ne_nil

/-- a number written with `toString` is read back by `numAttr` -/
theorem numVal_toString (n : Nat) :
    (match (toString n).toList with | [] => none | cs => digitsVal cs 0) = some n := by
  have h1 := toString_toList_ne_nil n
  have h2 := digitsVal_toString n
  cases hx : (toString n).toList with
  | nil => exact absurd hx h1
  | cons c cs => simp only []; rw [← hx]; exact h2

end Ats
