/-
  AtsProofs.Pay — credits and debits of the message lists the handlers build.
-/
import AtsProofs.Steps2
namespace Ats
open Ats Ats.Spec

@[simp] theorem flowOf_payMsgR (r : Bool) (c d : String) (n : Nat) (to : String) :
    flowOf c (payMsgR r c d n to) = some ⟨c, to, d, n⟩ := by
  unfold payMsgR flowOf; cases r <;> rfl

@[simp] theorem flowOf_payMsg (env : Env) (d : String) (n : Nat) (to : String) :
    flowOf env.contract (payMsg env d n to) = some ⟨env.contract, to, d, n⟩ := by
  rw [payMsg_eq]; exact flowOf_payMsgR _ _ _ _ _

@[simp] theorem credit_nil (c a d : String) : credit c [] a d = 0 := rfl
@[simp] theorem debit_nil (c a d : String) : debit c [] a d = 0 := rfl
@[simp] theorem expCredit_nil (a d : String) : expCredit [] a d = 0 := rfl

theorem credit_cons (c : String) (m : Msg) (ms : List Msg) (a d : String) :
    credit c (m :: ms) a d = msgCredit c a d m + credit c ms a d := by
  simp [credit, sumNat]

theorem debit_cons (c : String) (m : Msg) (ms : List Msg) (a d : String) :
    debit c (m :: ms) a d = msgDebit c a d m + debit c ms a d := by
  simp [debit, sumNat]

theorem expCredit_cons (e : String × String × Nat) (es : List (String × String × Nat)) (a d : String) :
    expCredit (e :: es) a d = (if e.1 = a ∧ e.2.1 = d then e.2.2 else 0) + expCredit es a d := by
  simp [expCredit, sumNat]

theorem credit_append (c : String) (l1 l2 : List Msg) (a d : String) :
    credit c (l1 ++ l2) a d = credit c l1 a d + credit c l2 a d := by
  induction l1 with
  | nil => simp
  | cons m ms ih => simp only [List.cons_append, credit_cons, ih]; omega

theorem debit_append (c : String) (l1 l2 : List Msg) (a d : String) :
    debit c (l1 ++ l2) a d = debit c l1 a d + debit c l2 a d := by
  induction l1 with
  | nil => simp
  | cons m ms ih => simp only [List.cons_append, debit_cons, ih]; omega

theorem expCredit_append (l1 l2 : List (String × String × Nat)) (a d : String) :
    expCredit (l1 ++ l2) a d = expCredit l1 a d + expCredit l2 a d := by
  induction l1 with
  | nil => simp
  | cons m ms ih => simp only [List.cons_append, expCredit_cons, ih]; omega

@[simp] theorem credit_payMsgR (r : Bool) (c d : String) (n : Nat) (to : String) (ms : List Msg) (a d' : String) :
    credit c (payMsgR r c d n to :: ms) a d' = (if to = a ∧ d = d' then n else 0) + credit c ms a d' := by
  rw [credit_cons, msgCredit, flowOf_payMsgR]

@[simp] theorem credit_payMsg (env : Env) (d : String) (n : Nat) (to : String) (ms : List Msg) (a d' : String) :
    credit env.contract (payMsg env d n to :: ms) a d' = (if to = a ∧ d = d' then n else 0) + credit env.contract ms a d' := by
  rw [credit_cons, msgCredit, flowOf_payMsg]

@[simp] theorem debit_payMsgR (r : Bool) (c d : String) (n : Nat) (to : String) (ms : List Msg) (a d' : String) :
    debit c (payMsgR r c d n to :: ms) a d' = (if c = a ∧ d = d' then n else 0) + debit c ms a d' := by
  rw [debit_cons, msgDebit, flowOf_payMsgR]

@[simp] theorem debit_payMsg (env : Env) (d : String) (n : Nat) (to : String) (ms : List Msg) (a d' : String) :
    debit env.contract (payMsg env d n to :: ms) a d' = (if env.contract = a ∧ d = d' then n else 0) + debit env.contract ms a d' := by
  rw [debit_cons, msgDebit, flowOf_payMsg]

@[simp] theorem credit_payIfPosR (r : Bool) (c d : String) (n : Nat) (to : String) (a d' : String) :
    credit c (payIfPosMsgsR r c d n to) a d' = (if to = a ∧ d = d' then n else 0) := by
  unfold payIfPosMsgsR
  by_cases hn : n = 0
  · simp [hn]
  · simp [hn]

@[simp] theorem credit_payIfPos (env : Env) (d : String) (n : Nat) (to : String) (a d' : String) :
    credit env.contract (payIfPosMsgs env d n to) a d' = (if to = a ∧ d = d' then n else 0) := by
  unfold payIfPosMsgs
  by_cases hn : n = 0
  · simp [hn]
  · simp [hn]

@[simp] theorem debit_payIfPosR (r : Bool) (c d : String) (n : Nat) (to : String) (a d' : String) :
    debit c (payIfPosMsgsR r c d n to) a d' = (if c = a ∧ d = d' then n else 0) := by
  unfold payIfPosMsgsR
  by_cases hn : n = 0
  · simp [hn]
  · simp [hn]

@[simp] theorem debit_payIfPos (env : Env) (d : String) (n : Nat) (to : String) (a d' : String) :
    debit env.contract (payIfPosMsgs env d n to) a d' = (if env.contract = a ∧ d = d' then n else 0) := by
  unfold payIfPosMsgs
  by_cases hn : n = 0
  · simp [hn]
  · simp [hn]

/-- every message of the list is a payout from the contract -/
def FromContract (c : String) (ms : List Msg) : Prop := ∀ m ∈ ms, ∃ f, flowOf c m = some f ∧ f.frm = c

theorem allFromContract_iff {c : String} {ms : List Msg} : allFromContract c ms = true ↔ FromContract c ms := by
  unfold allFromContract FromContract
  simp only [List.all_eq_true]
  constructor
  · intro h m hm
    have := h m hm
    cases hf : flowOf c m with
    | none => simp [hf] at this
    | some f => simp [hf] at this; exact ⟨f, rfl, this⟩
  · intro h m hm
    obtain ⟨f, hf, hfr⟩ := h m hm
    simp [hf, hfr]

theorem fromContract_nil (c : String) : FromContract c [] := by intro m hm; cases hm
theorem fromContract_cons {c : String} {m : Msg} {ms : List Msg} {f : Flow}
    (h1 : flowOf c m = some f) (h2 : f.frm = c) (h3 : FromContract c ms) : FromContract c (m :: ms) := by
  intro x hx
  rcases List.mem_cons.mp hx with rfl | hx
  · exact ⟨f, h1, h2⟩
  · exact h3 x hx
theorem fromContract_append {c : String} {l1 l2 : List Msg}
    (h1 : FromContract c l1) (h2 : FromContract c l2) : FromContract c (l1 ++ l2) := by
  intro x hx
  rcases List.mem_append.mp hx with hx | hx
  · exact h1 x hx
  · exact h2 x hx
theorem fromContract_payMsgR (r : Bool) (c d : String) (n : Nat) (to : String) {ms : List Msg}
    (h : FromContract c ms) : FromContract c (payMsgR r c d n to :: ms) :=
  fromContract_cons (flowOf_payMsgR _ _ _ _ _) rfl h
theorem fromContract_payMsg (env : Env) (d : String) (n : Nat) (to : String) {ms : List Msg}
    (h : FromContract env.contract ms) : FromContract env.contract (payMsg env d n to :: ms) :=
  fromContract_cons (flowOf_payMsg _ _ _ _) rfl h
theorem fromContract_payIfPosR (r : Bool) (c d : String) (n : Nat) (to : String) :
    FromContract c (payIfPosMsgsR r c d n to) := by
  unfold payIfPosMsgsR
  by_cases hn : n = 0
  · simp [hn]; exact fromContract_nil c
  · simp [hn]; exact fromContract_payMsgR _ _ _ _ _ (fromContract_nil c)
theorem fromContract_payIfPos (env : Env) (d : String) (n : Nat) (to : String) :
    FromContract env.contract (payIfPosMsgs env d n to) := by
  unfold payIfPosMsgs
  by_cases hn : n = 0
  · simp [hn]; exact fromContract_nil _
  · simp [hn]; exact fromContract_payMsg _ _ _ _ (fromContract_nil _)

/-- the decidable `paysExactly` from its specification -/
theorem paysExactly_of {c : String} {ms : List Msg} {exp : List (String × String × Nat)}
    (h1 : FromContract c ms) (h2 : ∀ a d, credit c ms a d = expCredit exp a d) :
    paysExactly c ms exp = true := by
  unfold paysExactly creditsMatch
  simp only [Bool.and_eq_true, allFromContract_iff.mpr h1, true_and, List.all_eq_true, beq_iff_eq]
  intro a _ d _
  exact h2 a d

end Ats
