/-
  C12 — Configuration changes cannot move the terms under open orders.
-/
import AtsProofs.C11
namespace Ats.Proofs
open Ats Ats.Spec

/-- a fee pair that passed `FeeRateKept` while the side is open leaves the rate the same number -/
theorem sameRate_of_kept {cur : Option FeeInfo} {rate acct : Option String}
    (hk : FeeRateKept true cur rate) (hp : pairOk rate acct = true)
    (hcur : rateOK cur = true) :
    sameRate cur (feeAfter cur rate acct) = true := by
  unfold feeAfter
  cases rate with
  | none =>
    cases acct with
    | none =>
      cases cur with
      | none => rfl
      | some c =>
        simp only [rateOK, Option.isSome_iff_exists] at hcur
        obtain ⟨p, hp⟩ := hcur
        simp [sameRate, hp, Dec.eqv]
    | some a => simp [pairOk] at hp
  | some r =>
    cases acct with
    | none => simp [pairOk] at hp
    | some a =>
      obtain ⟨c, x, y, rfl, hx, hy, he⟩ := hk rfl r rfl
      by_cases hc : a = "" ∧ r = ""
      · obtain ⟨_, rfl⟩ := hc
        simp [Dec.parse, Dec.parseFull] at hy
      · simp [hc, sameRate, hx, hy, he]

/-- C12: an accepted configuration change, judged field by field: market parameters untouched;
    while asks (bids) are open the ask (bid) fee rate is the same number and the ask (bid)
    attribute list is unchanged; while any order is open no current approver is dropped;
    omitted fields keep their value and supplied ones are installed verbatim (the empty pair
    clears a fee); role lists cannot be set empty; both books and the version are untouched -/
theorem C12_modify (env : Env) (s s' : State) (c : Call) (r : Response)
    (hs : infoSane s.info = true) (hm : isModify c.msg = true)
    (h : execute env s c = .ok (s', r)) : C12_modifyOK s c.msg s' = true := by
  unfold execute at h
  simp only [Res.bind_eq_ok, guardR_eq_ok] at h
  obtain ⟨_, hv, h⟩ := h
  cases hc : c.msg <;> simp only [hc, isModify] at hm h hv <;> try (cases hm)
  rename_i ap ex ar aa br ba at_ bt
  obtain ⟨_, _, h1, h2, h3, h4, h5, _, _, _, _, _, rfl, _⟩ := modifyContract_ok h
  simp only [ExecMsg.valid, Bool.and_eq_true] at hv
  obtain ⟨⟨⟨hv1, hv2⟩, hv3⟩, hv4⟩ := hv
  unfold infoSane at hs
  simp only [Bool.and_eq_true] at hs
  obtain ⟨⟨_, hra⟩, hrb⟩ := hs
  unfold C12_modifyOK
  simp only [marketSame, beq_self_eq_true, Bool.and_true, Bool.true_and, Bool.and_eq_true,
    Bool.or_eq_true, beq_iff_eq]
  refine ⟨⟨⟨⟨?_, ?_⟩, ?_⟩, hv1⟩, hv2⟩
  · by_cases he : s.asks.isEmpty = true
    · exact Or.inl he
    · right
      have he' : s.asks.isEmpty = false := by simpa using he
      refine ⟨sameRate_of_kept (by simpa [he'] using h2) hv3 hra, ?_⟩
      rw [h1 he']; rfl
  · by_cases he : s.bids.isEmpty = true
    · exact Or.inl he
    · right
      have he' : s.bids.isEmpty = false := by simpa using he
      refine ⟨sameRate_of_kept (by simpa [he'] using h4) hv4 hrb, ?_⟩
      rw [h3 he']; rfl
  · by_cases he : s.asks.isEmpty = true ∧ s.bids.isEmpty = true
    · exact Or.inl he
    · right
      have : s.asks.isEmpty = false ∨ s.bids.isEmpty = false := by
        by_cases ha : s.asks.isEmpty = true
        · right; by_cases hb : s.bids.isEmpty = true
          · exact absurd ⟨ha, hb⟩ he
          · simpa using hb
        · left; simpa using ha
      cases hap : ap with
      | none =>
        simp only [Option.getD_none, subsetS, List.all_eq_true]
        intro x hx
        simp only [memS, List.any_eq_true]
        exact ⟨x, hx, by simp⟩
      | some l => exact h5 this l hap

/-- no execute request of any kind changes the market parameters: name, base, convertible and
    quote denominations, price precision, size increment -/
theorem C12_market (env : Env) (s s' : State) (c : Call) (r : Response) (hs : sane s = true)
    (h : execute env s c = .ok (s', r)) : marketSame s.info s'.info = true := by
  by_cases hm : isModify c.msg = true
  · have := C12_modify env s s' c r (sane_info hs) hm h
    unfold C12_modifyOK at this
    cases hc : c.msg <;> simp only [hc, isModify] at hm this <;> try (cases hm)
    simp only [Bool.and_eq_true] at this
    exact this.1.1.1.1.1.1.1.1.1.1.1.1.1.1
  · have hf := (C11_frame env s s' c r hs h).info (by simpa using hm)
    rw [hf]; simp [marketSame]

end Ats.Proofs
