/-
  AtsProofs.DecMono — rounding half-to-even is monotone, and with it `checked_mul` by a whole
  number, the 28-place quotient and the whole pro-rata fee pipeline (`feeFor`): the former
  assumption `FeeMono` of C09 is a theorem.
-/
import AtsProofs.DecProgress
namespace Ats.Dec
open Ats

theorem rhe_eq (n d : Nat) :
    rhe n d = if 2 * (n % d) > d ∨ (2 * (n % d) = d ∧ (n / d) % 2 = 1) then n / d + 1 else n / d := by
  unfold rhe
  simp only [Bool.or_eq_true, decide_eq_true_eq, Bool.and_eq_true, beq_iff_eq]

theorem rhe_scale (n d c : Nat) (hc : 0 < c) : rhe (n * c) (d * c) = rhe n d := by
  rw [rhe_eq, rhe_eq, Nat.mul_div_mul_right _ _ hc, Nat.mul_mod_mul_right]
  have e1 : (2 * (n % d * c) > d * c) ↔ (2 * (n % d) > d) := by
    constructor
    · intro h
      have : d * c < 2 * (n % d) * c := by rw [Nat.mul_assoc]; exact h
      exact Nat.lt_of_mul_lt_mul_right this
    · intro h
      have := Nat.mul_lt_mul_of_pos_right h hc
      rw [Nat.mul_assoc] at this; exact this
  have e2 : (2 * (n % d * c) = d * c) ↔ (2 * (n % d) = d) := by
    constructor
    · intro h
      have : 2 * (n % d) * c = d * c := by rw [Nat.mul_assoc]; exact h
      exact Nat.eq_of_mul_eq_mul_right hc this
    · intro h; rw [← Nat.mul_assoc, h]
  simp only [e1, e2]

theorem rhe_mono_num {n n' d : Nat} (hd : 0 < d) (h : n ≤ n') : rhe n d ≤ rhe n' d := by
  rw [rhe_eq, rhe_eq]
  have hq : n / d ≤ n' / d := Nat.div_le_div_right h
  by_cases hqq : n / d = n' / d
  · have hr : n % d ≤ n' % d := by
      have h1 := Nat.div_add_mod n d
      have h2 := Nat.div_add_mod n' d
      rw [hqq] at h1
      omega
    rw [hqq]
    split
    · rename_i hc
      have : 2 * (n' % d) > d ∨ (2 * (n' % d) = d ∧ (n' / d) % 2 = 1) := by
        rcases hc with hc | hc
        · left; omega
        · by_cases h2 : 2 * (n' % d) = d
          · right; exact ⟨h2, hc.2⟩
          · left; omega
      simp only [this, if_true]; omega
    · split <;> omega
  · have : n / d + 1 ≤ n' / d := by omega
    split <;> split <;> omega

theorem rhe_mono_cross {n1 d1 n2 d2 : Nat} (hd1 : 0 < d1) (hd2 : 0 < d2) (h : n1 * d2 ≤ n2 * d1) :
    rhe n1 d1 ≤ rhe n2 d2 := by
  rw [← rhe_scale n1 d1 d2 hd2, ← rhe_scale n2 d2 d1 hd1, Nat.mul_comm d2 d1]
  exact rhe_mono_num (Nat.mul_pos hd1 hd2) h

theorem rhe_lower {n d : Nat} (hd : 0 < d) : 2 * (d * rhe n d) ≤ 2 * n + d := by
  rw [rhe_eq]
  have h1 := Nat.div_add_mod n d
  have hr := Nat.mod_lt n hd
  split
  · rename_i hc
    rw [Nat.mul_add]
    rcases hc with hc | hc <;> omega
  · omega

theorem rhe_upper {n d : Nat} (hd : 0 < d) : 2 * n ≤ 2 * (d * rhe n d) + d := by
  rw [rhe_eq]
  have h1 := Nat.div_add_mod n d
  have hr := Nat.mod_lt n hd
  split
  · rw [Nat.mul_add]; omega
  · rename_i hc
    have : ¬ 2 * (n % d) > d := fun h => hc (Or.inl h)
    omega

/-- a rounded quotient of at least 2^96 means the exact quotient is at least 2^96 − 1/2 -/
theorem rhe_ge_LIM {n d : Nat} (hd : 0 < d) (h : LIM ≤ rhe n d) : 2 * (d * LIM) ≤ 2 * n + d := by
  have h1 := rhe_lower (n := n) hd
  have h2 : d * LIM ≤ d * rhe n d := Nat.mul_le_mul_left d h
  omega

theorem LIM_even : LIM % 2 = 0 := by decide

/-- a rounded quotient below 2^96 means the exact quotient is strictly below 2^96 − 1/2
    (the tie at 2^96 − 1/2 goes to the even neighbour, which is 2^96) -/
theorem rhe_lt_LIM {n d : Nat} (hd : 0 < d) (h : rhe n d < LIM) : 2 * n + d < 2 * (d * LIM) := by
  rw [rhe_eq] at h
  have h1 := Nat.div_add_mod n d
  have hr := Nat.mod_lt n hd
  have hev := LIM_even
  by_cases hq : n / d + 2 ≤ LIM
  · have : d * (n / d + 2) ≤ d * LIM := Nat.mul_le_mul_left d hq
    rw [Nat.mul_add] at this
    omega
  · have hq' : LIM ≤ n / d + 1 := by omega
    by_cases hc : 2 * (n % d) > d ∨ (2 * (n % d) = d ∧ (n / d) % 2 = 1)
    · simp only [hc, if_true] at h
      omega
    · simp only [hc, if_false] at h
      have hq1 : n / d + 1 = LIM := by omega
      have hodd : (n / d) % 2 = 1 := by omega
      have h2 : ¬ 2 * (n % d) > d := fun h => hc (Or.inl h)
      have h3 : ¬ 2 * (n % d) = d := fun h => hc (Or.inr ⟨h, hodd⟩)
      have h5 : 2 * (n % d) < d := by omega
      have h4 : d * (n / d) + d = d * LIM := by rw [← hq1, Nat.mul_add, Nat.mul_one]
      omega


theorem pow_split {a b : Nat} (h : a ≤ b) : 10 ^ b = 10 ^ a * 10 ^ (b - a) := by
  rw [← Nat.pow_add]; congr 1; omega

theorem LIM_mod10 : LIM % 10 = 6 := by decide

/-- if the quotient at spacing `A` needs 2^96 or more, the quotient at spacing `10·A` is at
    least (2^96 − 1)/10 -/
theorem coarse_ge {P A : Nat} (hA : 0 < A) (h : LIM ≤ rhe P A) : LIM ≤ 10 * rhe P (A * 10) + 1 := by
  have h1 := rhe_ge_LIM hA h
  have h2 := rhe_upper (n := P) (d := A * 10) (by omega)
  have e1 : A * 10 * rhe P (A * 10) = 10 * (A * rhe P (A * 10)) := by ac_rfl
  rw [e1] at h2
  -- 2·A·LIM ≤ 20·A·R + 11·A
  have h3 : 2 * (A * LIM) ≤ 20 * (A * rhe P (A * 10)) + 11 * A := by omega
  have h4 : A * (2 * LIM) ≤ A * (20 * rhe P (A * 10) + 11) := by
    have e2 : A * (2 * LIM) = 2 * (A * LIM) := by ac_rfl
    have e3 : A * (20 * rhe P (A * 10) + 11) = 20 * (A * rhe P (A * 10)) + 11 * A := by
      rw [Nat.mul_add]; congr 1 <;> ac_rfl
    rw [e2, e3]; exact h3
  have h5 := Nat.le_of_mul_le_mul_left h4 hA
  have := LIM_mod10
  omega


theorem mul_lim_mono {U T : Nat} (h : U ≤ T) : 2 * (U * LIM) + T ≤ 2 * (T * LIM) + U := by
  obtain ⟨δ, rfl⟩ := Nat.exists_eq_add_of_le h
  rw [Nat.add_mul]
  have : δ ≤ δ * LIM := Nat.le_mul_of_pos_right δ (by decide)
  omega

/-- rounding to 96 bits with the least possible power of ten (the rescale loop of
    `checked_mul`) is monotone in the exact value -/
theorem round_mono (P1 P2 s1 s2 j1 j2 : Nat) (hj1 : j1 ≤ s1) (hj2 : j2 ≤ s2)
    (hP : P1 * 10 ^ s2 ≤ P2 * 10 ^ s1)
    (h1 : rhe P1 (10 ^ j1) < LIM) (h2 : rhe P2 (10 ^ j2) < LIM)
    (hm1 : ∀ i, i < j1 → ¬ rhe P1 (10 ^ i) < LIM) (hm2 : ∀ i, i < j2 → ¬ rhe P2 (10 ^ i) < LIM) :
    rhe P1 (10 ^ j1) * 10 ^ (s2 - j2) ≤ rhe P2 (10 ^ j2) * 10 ^ (s1 - j1) := by
  have hs1 := pow_split hj1
  have hs2 := pow_split hj2
  rcases Nat.lt_trichotomy (s1 - j1) (s2 - j2) with hlt | heq | hgt
  · -- the smaller value on the coarser grid
    by_cases hj10 : j1 = 0
    · -- no rounding of the first: it is a grid point of the second's grid
      subst hj10
      simp only [Nat.pow_zero, rhe_one, Nat.sub_zero] at *
      have hsplit : 10 ^ (s2 - j2) = 10 ^ s1 * 10 ^ (s2 - j2 - s1) := pow_split (Nat.le_of_lt hlt)
      have hle : rhe (P1 * 10 ^ (s2 - j2 - s1)) 1 ≤ rhe P2 (10 ^ j2) := by
        apply rhe_mono_cross (by decide) (pow10_pos _)
        -- P1 · 10^(e2−s1) · 10^j2 ≤ P2
        have : P1 * 10 ^ (s2 - j2 - s1) * 10 ^ j2 * 10 ^ s1 ≤ P2 * 1 * 10 ^ s1 := by
          calc P1 * 10 ^ (s2 - j2 - s1) * 10 ^ j2 * 10 ^ s1
              = P1 * (10 ^ j2 * (10 ^ s1 * 10 ^ (s2 - j2 - s1))) := by ac_rfl
            _ = P1 * 10 ^ s2 := by rw [← hsplit, ← hs2]
            _ ≤ P2 * 10 ^ s1 := hP
            _ = P2 * 1 * 10 ^ s1 := by rw [Nat.mul_one]
        exact Nat.le_of_mul_le_mul_right this (pow10_pos _)
      rw [rhe_one] at hle
      calc P1 * 10 ^ (s2 - j2) = P1 * 10 ^ (s2 - j2 - s1) * 10 ^ s1 := by rw [hsplit]; ac_rfl
        _ ≤ rhe P2 (10 ^ j2) * 10 ^ s1 := Nat.mul_le_mul_right _ hle
    · -- impossible: the first needed a coarser grid although it is the smaller value
      exfalso
      have hj1p : j1 - 1 < j1 := by omega
      have hge : LIM ≤ rhe P1 (10 ^ (j1 - 1)) := Nat.le_of_not_lt (hm1 _ hj1p)
      have hA := rhe_ge_LIM (pow10_pos _) hge
      have hB := rhe_lt_LIM (pow10_pos j2) h2
      -- T = 10^(j1−1)·10^s2, U = 10^j2·10^s1, U ≤ T
      have hUT : 10 ^ j2 * 10 ^ s1 ≤ 10 ^ (j1 - 1) * 10 ^ s2 := by
        rw [← Nat.pow_add, ← Nat.pow_add]
        exact Nat.pow_le_pow_right (by decide) (by omega)
      have hmono := mul_lim_mono hUT
      -- scale the two rounding facts
      have hA' : 2 * (10 ^ (j1 - 1) * 10 ^ s2 * LIM) ≤ 2 * (P1 * 10 ^ s2) + 10 ^ (j1 - 1) * 10 ^ s2 := by
        have := Nat.mul_le_mul_right (10 ^ s2) hA
        have e1 : 2 * (10 ^ (j1 - 1) * LIM) * 10 ^ s2 = 2 * (10 ^ (j1 - 1) * 10 ^ s2 * LIM) := by ac_rfl
        have e2 : (2 * P1 + 10 ^ (j1 - 1)) * 10 ^ s2 = 2 * (P1 * 10 ^ s2) + 10 ^ (j1 - 1) * 10 ^ s2 := by
          rw [Nat.add_mul]; congr 1; ac_rfl
        rw [e1, e2] at this; exact this
      have hB' : 2 * (P2 * 10 ^ s1) + 10 ^ j2 * 10 ^ s1 < 2 * (10 ^ j2 * 10 ^ s1 * LIM) := by
        have := Nat.mul_lt_mul_of_pos_right hB (pow10_pos s1)
        have e1 : (2 * P2 + 10 ^ j2) * 10 ^ s1 = 2 * (P2 * 10 ^ s1) + 10 ^ j2 * 10 ^ s1 := by
          rw [Nat.add_mul]; congr 1; ac_rfl
        have e2 : 2 * (10 ^ j2 * LIM) * 10 ^ s1 = 2 * (10 ^ j2 * 10 ^ s1 * LIM) := by ac_rfl
        rw [e1, e2] at this; exact this
      omega
  · -- same grid
    have hle : rhe P1 (10 ^ j1) ≤ rhe P2 (10 ^ j2) := by
      apply rhe_mono_cross (pow10_pos _) (pow10_pos _)
      have : P1 * 10 ^ j2 * 10 ^ (s2 - j2) ≤ P2 * 10 ^ j1 * 10 ^ (s2 - j2) := by
        calc P1 * 10 ^ j2 * 10 ^ (s2 - j2) = P1 * (10 ^ j2 * 10 ^ (s2 - j2)) := by ac_rfl
          _ = P1 * 10 ^ s2 := by rw [← hs2]
          _ ≤ P2 * 10 ^ s1 := hP
          _ = P2 * (10 ^ j1 * 10 ^ (s1 - j1)) := by rw [← hs1]
          _ = P2 * 10 ^ j1 * 10 ^ (s2 - j2) := by rw [heq]; ac_rfl
      exact Nat.le_of_mul_le_mul_right this (pow10_pos _)
    rw [heq]
    exact Nat.mul_le_mul_right _ hle
  · -- the larger value on the coarser grid
    by_cases hj20 : j2 = 0
    · subst hj20
      simp only [Nat.pow_zero, rhe_one, Nat.sub_zero] at *
      have hsplit : 10 ^ (s1 - j1) = 10 ^ s2 * 10 ^ (s1 - j1 - s2) := pow_split (Nat.le_of_lt hgt)
      have hle : rhe P1 (10 ^ j1) ≤ rhe (P2 * 10 ^ (s1 - j1 - s2)) 1 := by
        apply rhe_mono_cross (pow10_pos _) (by decide)
        have : P1 * 1 * 10 ^ s2 ≤ P2 * 10 ^ (s1 - j1 - s2) * 10 ^ j1 * 10 ^ s2 := by
          calc P1 * 1 * 10 ^ s2 = P1 * 10 ^ s2 := by rw [Nat.mul_one]
            _ ≤ P2 * 10 ^ s1 := hP
            _ = P2 * (10 ^ j1 * (10 ^ s2 * 10 ^ (s1 - j1 - s2))) := by rw [← hsplit, ← hs1]
            _ = P2 * 10 ^ (s1 - j1 - s2) * 10 ^ j1 * 10 ^ s2 := by ac_rfl
        exact Nat.le_of_mul_le_mul_right this (pow10_pos _)
      rw [rhe_one] at hle
      calc rhe P1 (10 ^ j1) * 10 ^ s2 ≤ P2 * 10 ^ (s1 - j1 - s2) * 10 ^ s2 := Nat.mul_le_mul_right _ hle
        _ = P2 * 10 ^ (s1 - j1) := by rw [hsplit]; ac_rfl
    · have hj2p : j2 - 1 < j2 := by omega
      have hge : LIM ≤ rhe P2 (10 ^ (j2 - 1)) := Nat.le_of_not_lt (hm2 _ hj2p)
      have hc := coarse_ge (pow10_pos _) hge
      have e : 10 ^ (j2 - 1) * 10 = 10 ^ j2 := by
        rw [← Nat.pow_succ]; congr 1; omega
      rw [e] at hc
      have hR : rhe P1 (10 ^ j1) ≤ 10 * rhe P2 (10 ^ j2) := by omega
      have hpow : 10 ^ (s2 - j2) * 10 ≤ 10 ^ (s1 - j1) := by
        rw [← Nat.pow_succ]; exact Nat.pow_le_pow_right (by decide) (by omega)
      calc rhe P1 (10 ^ j1) * 10 ^ (s2 - j2) ≤ 10 * rhe P2 (10 ^ j2) * 10 ^ (s2 - j2) :=
            Nat.mul_le_mul_right _ hR
        _ = rhe P2 (10 ^ j2) * (10 ^ (s2 - j2) * 10) := by ac_rfl
        _ ≤ rhe P2 (10 ^ j2) * 10 ^ (s1 - j1) := Nat.mul_le_mul_left _ hpow


/-- `checked_mul` by a whole number is monotone in the (unsigned) value of the other factor -/
theorem mul_nat_mono {r1 r2 p1 p2 : Dec} {F : Nat} (hs1 : r1.scale ≤ 28) (hs2 : r2.scale ≤ 28)
    (hv : r1.mant * 10 ^ r2.scale ≤ r2.mant * 10 ^ r1.scale)
    (h1 : mul r1 (ofNat F) = some p1) (h2 : mul r2 (ofNat F) = some p2) :
    p1.mant * 10 ^ p2.scale ≤ p2.mant * 10 ^ p1.scale := by
  unfold mul at h1 h2
  by_cases z1 : r1.mant = 0 ∨ (ofNat F).mant = 0
  · simp only [z1, if_true, Option.some.injEq] at h1
    subst h1; simp
  · simp only [z1, if_false] at h1
    by_cases z2 : r2.mant = 0 ∨ (ofNat F).mant = 0
    · exfalso
      rcases z2 with z2 | z2
      · rw [z2, Nat.zero_mul] at hv
        have : r1.mant = 0 := by
          rcases Nat.mul_eq_zero.mp (Nat.le_zero.mp hv) with h | h
          · exact h
          · exact absurd h (Nat.ne_of_gt (pow10_pos _))
        exact z1 (Or.inl this)
      · exact z1 (Or.inr z2)
    · simp only [z2, if_false] at h2
      have hk1 : r1.scale + (ofNat F).scale - 28 = 0 := by simp [ofNat]; omega
      have hk2 : r2.scale + (ofNat F).scale - 28 = 0 := by simp [ofNat]; omega
      have hsc1 : r1.scale + (ofNat F).scale = r1.scale := by simp [ofNat]
      have hsc2 : r2.scale + (ofNat F).scale = r2.scale := by simp [ofNat]
      have hF : (ofNat F).mant = F := rfl
      rw [hk1, hsc1, hF] at h1
      rw [hk2, hsc2, hF] at h2
      cases hl1 : mulLoop (r1.mant * F) r1.scale (r1.scale + 2) 0 with
      | none => simp [hl1] at h1
      | some x1 =>
      cases hl2 : mulLoop (r2.mant * F) r2.scale (r2.scale + 2) 0 with
      | none => simp [hl2] at h2
      | some x2 =>
      obtain ⟨m1, c1⟩ := x1
      obtain ⟨m2, c2⟩ := x2
      simp only [hl1, Option.some.injEq] at h1
      simp only [hl2, Option.some.injEq] at h2
      subst h1 h2
      obtain ⟨j1, _, hj1, rfl, rfl, hlt1, hmin1⟩ := mulLoop_some _ _ hl1
      obtain ⟨j2, _, hj2, rfl, rfl, hlt2, hmin2⟩ := mulLoop_some _ _ hl2
      simp only
      apply round_mono _ _ _ _ _ _ hj1 hj2 ?_ hlt1 hlt2 (fun i hi => hmin1 i (Nat.zero_le _) hi)
        (fun i hi => hmin2 i (Nat.zero_le _) hi)
      calc r1.mant * F * 10 ^ r2.scale = r1.mant * 10 ^ r2.scale * F := by ac_rfl
        _ ≤ r2.mant * 10 ^ r1.scale * F := Nat.mul_le_mul_right _ hv
        _ = r2.mant * F * 10 ^ r1.scale := by ac_rfl

/-- stripping trailing zeros keeps the value and does not raise the scale -/
theorem strip_val : ∀ (s m : Nat), (strip m s).1 * 10 ^ s = m * 10 ^ (strip m s).2 ∧ (strip m s).2 ≤ s := by
  intro s
  induction s with
  | zero => intro m; simp [strip]
  | succ k ih =>
    intro m
    unfold strip
    by_cases h : m % 10 = 0 ∧ m ≠ 0
    · simp only [h, ne_eq, not_false_eq_true, and_self, if_true]
      obtain ⟨h1, h2⟩ := ih (m / 10)
      refine ⟨?_, by omega⟩
      have hm : m = 10 * (m / 10) := by have := Nat.div_add_mod m 10; omega
      calc (strip (m / 10) k).1 * 10 ^ (k + 1) = (strip (m / 10) k).1 * 10 ^ k * 10 := by
              rw [Nat.pow_succ]; ac_rfl
        _ = (m / 10) * 10 ^ (strip (m / 10) k).2 * 10 := by rw [h1]
        _ = (10 * (m / 10)) * 10 ^ (strip (m / 10) k).2 := by ac_rfl
        _ = m * 10 ^ (strip (m / 10) k).2 := by rw [← hm]
    · simp [h]

theorem pair_eta {α β : Type} (p : α × β) : p = (p.1, p.2) := by cases p; rfl

/-- what `ratio` returns, with the stripped quotient named (so that nothing forces the kernel
    to evaluate it) -/
theorem ratio_eq {q Q : Nat} {r : Dec} (h : ratio q Q = some r) :
    0 < Q ∧ q ≤ Q ∧ Q < LIM ∧
    ((q = 0 ∧ r = ⟨false, 0, 0⟩) ∨
     (q ≠ 0 ∧ ∃ m c, strip (rhe (q * 10 ^ 28) Q) 28 = (m, c) ∧ r = ⟨false, m, c⟩)) := by
  unfold ratio at h
  by_cases g : Q = 0 ∨ q > Q ∨ Q ≥ LIM
  · simp [g] at h
  · simp only [g, if_false] at h
    refine ⟨Nat.pos_of_ne_zero (fun h => g (Or.inl h)), Nat.le_of_not_lt (fun h => g (Or.inr (Or.inl h))),
      Nat.lt_of_not_le (fun h => g (Or.inr (Or.inr h))), ?_⟩
    by_cases z : q = 0
    · simp only [z, if_true, Option.some.injEq] at h
      exact Or.inl ⟨z, h.symm⟩
    · simp only [z, if_false, Option.some.injEq] at h
      exact Or.inr ⟨z, _, _, pair_eta (strip (rhe (q * 10 ^ 28) Q) 28), h.symm⟩

/-- the 28-place quotient is monotone in the numerator -/
theorem ratio_mono {q1 q2 Q : Nat} {r1 r2 : Dec} (hq : q1 ≤ q2)
    (h1 : ratio q1 Q = some r1) (h2 : ratio q2 Q = some r2) :
    r1.scale ≤ 28 ∧ r2.scale ≤ 28 ∧ r1.mant * 10 ^ r2.scale ≤ r2.mant * 10 ^ r1.scale := by
  obtain ⟨hQ, _, _, c1⟩ := ratio_eq h1
  obtain ⟨_, _, _, c2⟩ := ratio_eq h2
  rcases c1 with ⟨z1, rfl⟩ | ⟨z1, m1, s1, hX1, rfl⟩
  · rcases c2 with ⟨z2, rfl⟩ | ⟨z2, m2, s2, hX2, rfl⟩
    · simp
    · have sv2 := strip_val 28 (rhe (q2 * 10 ^ 28) Q)
      rw [hX2] at sv2
      exact ⟨by simp, sv2.2, by simp⟩
  · rcases c2 with ⟨z2, rfl⟩ | ⟨z2, m2, s2, hX2, rfl⟩
    · exact absurd (by omega : q1 = 0) z1
    · have hR : rhe (q1 * 10 ^ 28) Q ≤ rhe (q2 * 10 ^ 28) Q :=
        rhe_mono_num hQ (Nat.mul_le_mul_right _ hq)
      have sv1 := strip_val 28 (rhe (q1 * 10 ^ 28) Q)
      have sv2 := strip_val 28 (rhe (q2 * 10 ^ 28) Q)
      rw [hX1] at sv1
      rw [hX2] at sv2
      obtain ⟨v1, l1⟩ := sv1
      obtain ⟨v2, l2⟩ := sv2
      simp only at v1 v2 l1 l2
      refine ⟨l1, l2, ?_⟩
      show m1 * 10 ^ s2 ≤ m2 * 10 ^ s1
      have : m1 * 10 ^ s2 * 10 ^ 28 ≤ m2 * 10 ^ s1 * 10 ^ 28 := by
        calc m1 * 10 ^ s2 * 10 ^ 28 = m1 * 10 ^ 28 * 10 ^ s2 := by ac_rfl
          _ = rhe (q1 * 10 ^ 28) Q * 10 ^ s1 * 10 ^ s2 := by rw [v1]
          _ ≤ rhe (q2 * 10 ^ 28) Q * 10 ^ s1 * 10 ^ s2 :=
              Nat.mul_le_mul_right _ (Nat.mul_le_mul_right _ hR)
          _ = rhe (q2 * 10 ^ 28) Q * 10 ^ s2 * 10 ^ s1 := by ac_rfl
          _ = m2 * 10 ^ 28 * 10 ^ s1 := by rw [v2]
          _ = m2 * 10 ^ s1 * 10 ^ 28 := by ac_rfl
      exact Nat.le_of_mul_le_mul_right this (pow10_pos _)

/-- rounding half away from zero to an integer is monotone in the (unsigned) value -/
theorem rha0_mono {p1 p2 : Dec} (h : p1.mant * 10 ^ p2.scale ≤ p2.mant * 10 ^ p1.scale) :
    (rha0 p1).mant ≤ (rha0 p2).mant := by
  show (2 * p1.mant + 10 ^ p1.scale) / (2 * 10 ^ p1.scale) ≤ (2 * p2.mant + 10 ^ p2.scale) / (2 * 10 ^ p2.scale)
  have e1 : (2 * p1.mant + 10 ^ p1.scale) / (2 * 10 ^ p1.scale) =
      ((2 * p1.mant + 10 ^ p1.scale) * 10 ^ p2.scale) / (2 * 10 ^ p1.scale * 10 ^ p2.scale) :=
    (Nat.mul_div_mul_right _ _ (pow10_pos _)).symm
  have e2 : (2 * p2.mant + 10 ^ p2.scale) / (2 * 10 ^ p2.scale) =
      ((2 * p2.mant + 10 ^ p2.scale) * 10 ^ p1.scale) / (2 * 10 ^ p2.scale * 10 ^ p1.scale) :=
    (Nat.mul_div_mul_right _ _ (pow10_pos _)).symm
  rw [e1, e2]
  have ed : 2 * 10 ^ p2.scale * 10 ^ p1.scale = 2 * 10 ^ p1.scale * 10 ^ p2.scale := by ac_rfl
  rw [ed]
  apply Nat.div_le_div_right
  rw [Nat.add_mul, Nat.add_mul]
  have : 2 * p1.mant * 10 ^ p2.scale ≤ 2 * p2.mant * 10 ^ p1.scale := by
    rw [Nat.mul_assoc, Nat.mul_assoc]; exact Nat.mul_le_mul_left _ h
  have e3 : 10 ^ p1.scale * 10 ^ p2.scale = 10 ^ p2.scale * 10 ^ p1.scale := Nat.mul_comm _ _
  omega

/-- **the pro-rata fee function is monotone in the unspent quote** (formerly the assumption
    `FeeMono` of C09) -/
theorem feeFor_mono (F Q q1 q2 n1 n2 : Nat) (hq : q1 ≤ q2)
    (h1 : feeFor F Q q1 = .ok n1) (h2 : feeFor F Q q2 = .ok n2) : n1 ≤ n2 := by
  unfold feeFor at h1 h2
  simp only [Res.bind_eq_ok, orErr_eq_ok] at h1 h2
  obtain ⟨r1, hr1, f1, hf1, p1, hp1, hu1⟩ := h1
  obtain ⟨r2, hr2, f2, hf2, p2, hp2, hu2⟩ := h2
  unfold fromU128 at hf1 hf2
  by_cases hF : F < LIM
  · simp only [hF, if_true, Res.ok.injEq] at hf1 hf2
    subst hf1 hf2
    obtain ⟨s1, s2, hv⟩ := ratio_mono hq hr1 hr2
    have hm := rha0_mono (mul_nat_mono s1 s2 hv hp1 hp2)
    unfold toU128 at hu1 hu2
    have sc1 : (rha0 p1).scale = 0 := rfl
    have sc2 : (rha0 p2).scale = 0 := rfl
    split at hu1
    · cases hu1
    · split at hu2
      · cases hu2
      · simp only [sc1, sc2, Nat.pow_zero, Nat.div_one, Option.some.injEq] at hu1 hu2
        omega
  · simp [hF] at hf1

end Ats.Dec
