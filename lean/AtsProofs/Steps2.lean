/-
  AtsProofs.Steps2 — inversion lemmas for instantiate, modify_contract, migrate and query.
-/
import AtsProofs.Steps
namespace Ats
open Ats

theorem validAddrs_ok {env : Env} {l : List String} {u : Unit} :
    validAddrs env l = .ok u ↔ l.all env.validAddr = true := by
  unfold validAddrs; simp

theorem addrListR_ok {env : Env} {l : Option (List String)} {u : Unit} :
    addrListR env l = .ok u ↔ (∀ x, l = some x → x.all env.validAddr = true) := by
  unfold addrListR
  cases l with
  | none => simp
  | some x => simp [validAddrs_ok]

/-- a fee pair is acceptable to `feePair`: a full pair is the clearing pair or has a parseable
    rate and a valid account (half pairs are let through here; message validation refuses them) -/
def FeePairFine (env : Env) (acct rate : Option String) : Prop :=
  ∀ a r, acct = some a → rate = some r → (a = "" ∧ r = "") ∨ ((Dec.parse r).isSome = true ∧ env.validAddr a = true)

theorem feePair_inv {env : Env} {acct rate : Option String} {x : Option (Option FeeInfo)}
    (h : feePair env acct rate = .ok x) :
    FeePairFine env acct rate ∧ ∀ old, x.getD old = Spec.feeAfter old rate acct := by
  unfold feePair at h
  unfold FeePairFine Spec.feeAfter
  cases acct with
  | none =>
    simp only [Res.ok.injEq] at h; subst h
    cases rate <;> simp
  | some a =>
    cases rate with
    | none => simp only [Res.ok.injEq] at h; subst h; simp
    | some r =>
      by_cases hc : a = "" ∧ r = ""
      · simp only [hc, and_self, if_true, Res.ok.injEq] at h; subst h
        simp [hc]
      · simp only [hc, if_false, Res.bind_eq_ok, guardR_eq_ok, Res.pure_eq, Res.ok.injEq] at h
        obtain ⟨_, hp, _, hv, rfl⟩ := h
        refine ⟨?_, by intro old; simp [hc]⟩
        intro a' r' ha hr
        simp only [Option.some.injEq] at ha hr
        subst ha hr
        exact Or.inr ⟨hp, hv⟩

theorem feePair_prog {env : Env} {acct rate : Option String} (h : FeePairFine env acct rate) :
    ∃ x, feePair env acct rate = .ok x ∧ ∀ old, x.getD old = Spec.feeAfter old rate acct := by
  unfold feePair Spec.feeAfter
  cases acct with
  | none => cases rate <;> exact ⟨none, rfl, fun _ => rfl⟩
  | some a =>
    cases rate with
    | none => exact ⟨none, rfl, fun _ => rfl⟩
    | some r =>
      by_cases hc : a = "" ∧ r = ""
      · exact ⟨some none, by simp [hc], fun _ => by simp [hc]⟩
      · rcases h a r rfl rfl with h1 | ⟨hp, hv⟩
        · exact absurd h1 hc
        · refine ⟨some (some ⟨a, r⟩), ?_, fun _ => by simp [hc]⟩
          simp [hc, Res.bind_eq_ok, hp, hv]

theorem applyOverrides_ok {env : Env} {info info' : Info} {ap ex : Option (List String)}
    {ar aa br ba : Option String} {at_ bt : Option (List String)} :
    applyOverrides env info ap ex ar aa br ba at_ bt = .ok info' ↔
      (∀ x, ap = some x → x.all env.validAddr = true) ∧
      (∀ x, ex = some x → x.all env.validAddr = true) ∧
      FeePairFine env aa ar ∧ FeePairFine env ba br ∧
      info' = { info with approvers := ap.getD info.approvers, executors := ex.getD info.executors,
                          askFee := Spec.feeAfter info.askFee ar aa,
                          bidFee := Spec.feeAfter info.bidFee br ba,
                          askAttrs := at_.getD info.askAttrs, bidAttrs := bt.getD info.bidAttrs } := by
  unfold applyOverrides
  simp only [Res.bind_eq_ok, addrListR_ok, Res.pure_eq, Res.ok.injEq]
  constructor
  · rintro ⟨_, h1, _, h2, af, h3, bf, h4, rfl⟩
    obtain ⟨h3, ha⟩ := feePair_inv h3
    obtain ⟨h4, hb⟩ := feePair_inv h4
    exact ⟨h1, h2, h3, h4, by rw [ha, hb]⟩
  · rintro ⟨h1, h2, h3, h4, rfl⟩
    obtain ⟨af, haf, ha⟩ := feePair_prog h3
    obtain ⟨bf, hbf, hb⟩ := feePair_prog h4
    exact ⟨(), h1, (), h2, af, haf, bf, hbf, by rw [ha, hb]⟩

/-! ### modify_contract -/

/-- `check_fee_rate` accepted: while the side is open a supplied rate equals the current one -/
def FeeRateKept (contains : Bool) (cur : Option FeeInfo) (newRate : Option String) : Prop :=
  contains = true → ∀ r, newRate = some r →
    ∃ c a b, cur = some c ∧ Dec.parse c.rate = some a ∧ Dec.parse r = some b ∧ Dec.eqv a b = true

theorem checkFeeRate_ok {contains : Bool} {cur : Option FeeInfo} {nr na : Option String} {u : Unit} :
    checkFeeRate contains cur nr na = .ok u ↔ FeeRateKept contains cur nr := by
  unfold checkFeeRate FeeRateKept
  cases contains with
  | false => simp
  | true =>
    cases nr with
    | none => simp
    | some r =>
      cases cur with
      | none => simp
      | some c =>
        simp only [if_true, ratesEqual, Res.bind_eq_ok, orErr_eq_ok, guardR_eq_ok, forall_const,
          Option.some.injEq, forall_eq']
        constructor
        · rintro ⟨a, ha, b, hb, he⟩; exact ⟨c, a, b, rfl, ha, hb, he⟩
        · rintro ⟨c', a, b, rfl, ha, hb, he⟩; exact ⟨a, ha, b, hb, he⟩

theorem approversKept_ok {info : Info} {anyOpen : Bool} {ap : Option (List String)} {u : Unit} :
    approversKept info anyOpen ap = .ok u ↔
      (anyOpen = true → ∀ l, ap = some l → subsetS info.approvers l = true) := by
  unfold approversKept
  cases ap with
  | none => simp
  | some l => cases anyOpen <;> simp

theorem modifyContract_ok {env : Env} {s s' : State} {sender : String} {funds : List Coin}
    {ap ex : Option (List String)} {ar aa br ba : Option String} {at_ bt : Option (List String)}
    {r : Response}
    (h : modifyContract env s sender funds ap ex ar aa br ba at_ bt = .ok (s', r)) :
    memS sender s.info.executors = true ∧ funds = [] ∧
    (s.asks.isEmpty = false → at_ = none) ∧ FeeRateKept (!s.asks.isEmpty) s.info.askFee ar ∧
    (s.bids.isEmpty = false → bt = none) ∧ FeeRateKept (!s.bids.isEmpty) s.info.bidFee br ∧
    ((s.asks.isEmpty = false ∨ s.bids.isEmpty = false) → ∀ l, ap = some l → subsetS s.info.approvers l = true) ∧
    (∃ v, Version.parse s.version.version = some v ∧ v.ltReq 0 16 2 = false) ∧
    (∀ x, ap = some x → x.all env.validAddr = true) ∧
    (∀ x, ex = some x → x.all env.validAddr = true) ∧
    FeePairFine env aa ar ∧ FeePairFine env ba br ∧
    s' = { s with info :=
            { s.info with approvers := ap.getD s.info.approvers, executors := ex.getD s.info.executors,
                          askFee := Spec.feeAfter s.info.askFee ar aa,
                          bidFee := Spec.feeAfter s.info.bidFee br ba,
                          askAttrs := at_.getD s.info.askAttrs, bidAttrs := bt.getD s.info.bidAttrs } } ∧
    r = { msgs := [], attrs := [("action", "modify_contract")] } := by
  unfold modifyContract at h
  simp only [Res.bind_eq_ok, guardR_eq_ok, orErr_eq_ok, checkFeeRate_ok, approversKept_ok,
    applyOverrides_ok, Res.pure_eq, Res.ok.injEq, Prod.mk.injEq] at h
  obtain ⟨_, hex, _, hf, _, h1, _, h2, _, h3, _, h4, _, h5, v, hv, _, hv2, info', ⟨h6, h7, h8, h9, rfl⟩,
    rfl, rfl⟩ := h
  refine ⟨hex, by simpa using hf, ?_, h2, ?_, h4, ?_, ⟨v, hv, by simpa using hv2⟩, h6, h7, h8, h9, rfl, rfl⟩
  · intro he; cases at_ <;> simp_all
  · intro he; cases bt <;> simp_all
  · intro he; apply h5; rcases he with he | he <;> simp [he]

/-! ### migrate -/

theorem migrate_ok {env : Env} {s s' : State} {m : MigMsg} {r : Response}
    (h : migrate env s m = .ok (s', r)) :
    m.valid = true ∧
    (∃ v, Version.parse s.version.version = some v ∧ v.geReq 0 16 2 = true ∧
      s'.bids = (if v.geReq 0 16 2 && v.ltReq 0 19 1
                 then s.bids.map (fun kv => (kv.1, convertEntry kv.2)) else s.bids)) ∧
    (∀ x, m.approvers = some x → x.all env.validAddr = true) ∧
    FeePairFine env m.askAcct m.askRate ∧ FeePairFine env m.bidAcct m.bidRate ∧
    s'.info = { s.info with approvers := m.approvers.getD s.info.approvers,
                            askFee := Spec.feeAfter s.info.askFee m.askRate m.askAcct,
                            bidFee := Spec.feeAfter s.info.bidFee m.bidRate m.bidAcct,
                            askAttrs := m.askAttrs.getD s.info.askAttrs,
                            bidAttrs := m.bidAttrs.getD s.info.bidAttrs } ∧
    s'.version = ⟨env.crateName, env.pkgVersion⟩ ∧ s'.asks = s.asks ∧
    r = { msgs := [], attrs := [] } := by
  unfold migrate at h
  simp only [Res.bind_eq_ok, guardR_eq_ok, orErr_eq_ok, applyOverrides_ok, Res.pure_eq,
    Res.ok.injEq, Prod.mk.injEq] at h
  obtain ⟨_, hv, v, hp, _, hge, info', ⟨h1, _, h3, h4, rfl⟩, _, _, rfl, rfl⟩ := h
  exact ⟨hv, ⟨v, hp, hge, rfl⟩, h1, h3, h4, by simp, rfl, rfl, rfl⟩

/-! ### query -/

theorem query_ok {s : State} {q : QueryMsg} {out : QueryOut} :
    query s q = .ok out ↔
      (match q with
       | .getAsk id => isUuidAnyForm id = true ∧ ∃ a, s.asks.get? id = some a ∧ out = .ask a
       | .getBid id => isUuidAnyForm id = true ∧ ∃ b, loadBid s id = some b ∧ out = .bid b
       | .getInfo => out = .info s.info
       | .getVersion => out = .version s.version) := by
  unfold query
  cases q <;> simp only [QueryMsg.valid, Res.bind_eq_ok, guardR_eq_ok, orErr_eq_ok, Res.pure_eq,
    Res.ok.injEq, exists_const, true_and]
  · constructor <;> rintro ⟨hv, a, ha, rfl⟩ <;> exact ⟨hv, a, ha, rfl⟩
  · constructor <;> rintro ⟨hv, a, ha, rfl⟩ <;> exact ⟨hv, a, ha, rfl⟩
  · exact eq_comm
  · exact eq_comm

end Ats
