/-
  C01 — Escrow solvency: funds held always equal what open orders are owed.
-/
import AtsProofs.C02
import AtsProofs.C08
namespace Ats.Proofs
open Ats Ats.Spec

theorem sane_distinct {s : State} (h : sane s = true) :
    Book.Distinct s.asks ∧ Book.Distinct s.bids := by
  unfold sane at h
  simp only [Bool.and_eq_true] at h
  exact ⟨Book.distinct_of_bool h.1.1.1.2, Book.distinct_of_bool h.1.1.2⟩

theorem fundsOf_nil (d : String) : fundsOf [] d = 0 := rfl
theorem fundsOf_single (c : Coin) (d : String) : fundsOf [c] d = if c.denom = d then c.amount else 0 := by
  simp [fundsOf, sumNat]

/-- what the escrow of one coin adds to the contract's holdings of `d` -/
theorem escrow_balance {env : Env} {c : Call} {coin : Coin} {msgs : List Msg} {d : String}
    (hsender : c.sender ≠ env.contract)
    (hf : fundsOk (env.restricted coin.denom) c.funds coin = true)
    (hm : msgs = pullMsgs env coin.denom coin.amount c.sender) :
    fundsOf c.funds d + credit env.contract msgs env.contract d =
      (if coin.denom = d then coin.amount else 0) + debit env.contract msgs env.contract d := by
  subst hm
  unfold fundsOk pullMsgs at *
  cases hr : env.restricted coin.denom
  · simp only [hr, Bool.false_eq_true, if_false, decide_eq_true_eq] at hf ⊢
    rw [hf, fundsOf_single]; simp
  · simp only [hr, if_true, List.isEmpty_iff] at hf ⊢
    rw [hf, fundsOf_nil, credit_cons, debit_cons]
    simp [msgCredit, msgDebit, flowOf, hsender]

/-- owed after an ask is added under a fresh key -/
theorem owed_add_ask (s : State) (k : String) (a : Ask) (d : String) (h : s.asks.get? k = none) :
    owed { s with asks := s.asks.set k a } d = owed s d + askOwes d a := by
  unfold owed
  simp only [Book.sumBy_set_new _ _ _ _ h]; omega

theorem owed_add_bid (s : State) (k : String) (e : BidEntry) (d : String) (h : s.bids.get? k = none) :
    owed { s with bids := s.bids.set k e } d = owed s d + bidOwes d e := by
  unfold owed
  simp only [Book.sumBy_set_new _ _ _ _ h]; omega

theorem owed_set_ask (s : State) (k : String) (old a : Ask) (d : String) (hd : Book.Distinct s.asks)
    (h : s.asks.get? k = some old) :
    owed { s with asks := s.asks.set k a } d + askOwes d old = owed s d + askOwes d a := by
  unfold owed
  have := Book.sumBy_set_old (askOwes d) s.asks k old a hd h
  simp only; omega

theorem owed_del_ask (s : State) (k : String) (old : Ask) (d : String) (hd : Book.Distinct s.asks)
    (h : s.asks.get? k = some old) :
    owed { s with asks := s.asks.del k } d + askOwes d old = owed s d := by
  unfold owed
  have := Book.sumBy_del (askOwes d) s.asks k old hd h
  simp only; omega

theorem owed_put_ask (s : State) (k : String) (old a : Ask) (d : String) (hd : Book.Distinct s.asks)
    (h : s.asks.get? k = some old) (hz : a.size = 0 → askOwes d a = 0) :
    owed { s with asks := putAsk s.asks k a } d + askOwes d old = owed s d + askOwes d a := by
  unfold putAsk
  by_cases h0 : a.size = 0
  · simp only [h0, beq_self_eq_true, if_true]
    rw [hz h0]; exact owed_del_ask s k old d hd h
  · simp only [h0, beq_iff_eq, if_false]
    exact owed_set_ask s k old a d hd h

theorem owed_set_bid (s : State) (k : String) (old e : BidEntry) (d : String) (hd : Book.Distinct s.bids)
    (h : s.bids.get? k = some old) :
    owed { s with bids := s.bids.set k e } d + bidOwes d old = owed s d + bidOwes d e := by
  unfold owed
  have := Book.sumBy_set_old (bidOwes d) s.bids k old e hd h
  simp only; omega

theorem owed_del_bid (s : State) (k : String) (old : BidEntry) (d : String) (hd : Book.Distinct s.bids)
    (h : s.bids.get? k = some old) :
    owed { s with bids := s.bids.del k } d + bidOwes d old = owed s d := by
  unfold owed
  have := Book.sumBy_del (bidOwes d) s.bids k old hd h
  simp only; omega

theorem owed_put_bid (s : State) (k : String) (old : BidEntry) (b : Bid) (d : String)
    (hd : Book.Distinct s.bids) (h : s.bids.get? k = some old)
    (hz : b.base.amount - b.accBase = 0 → bidOwes d (.v3 b) = 0) :
    owed { s with bids := putBid s.bids k b } d + bidOwes d old = owed s d + bidOwes d (.v3 b) := by
  unfold putBid
  by_cases h0 : b.base.amount - b.accBase = 0
  · simp only [h0, beq_self_eq_true, if_true]
    rw [hz h0]; exact owed_del_bid s k old d hd h
  · simp only [h0, beq_iff_eq, if_false]
    exact owed_set_bid s k old (.v3 b) d hd h

theorem denomOK_iff {contract : String} {s : State} {c : Call} {r : Response} {s' : State} {d : String} :
    C01_denomOK contract s c r s' d = true ↔
      owed s d + fundsOf c.funds d + credit contract r.msgs contract d =
        owed s' d + debit contract r.msgs contract d := by
  simp [C01_denomOK]

theorem C01_createAsk (env : Env) (s s' : State) (c : Call) (r : Response)
    (id base quote price : String) (size : Nat) (d : String)
    (hsender : c.sender ≠ env.contract)
    (h : createAsk env s c.sender c.funds id base quote price size = .ok (s', r)) :
    C01_denomOK env.contract s c r s' d = true := by
  obtain ⟨_, hf, _, _, _, _, _, hex, _, rfl, hmsgs, _⟩ := createAsk_ok h
  rw [denomOK_iff, owed_add_ask s id _ d hex]
  have := escrow_balance (coin := ⟨base, size⟩) (d := d) hsender hf hmsgs
  simp only at this
  have hao : askOwes d ⟨id, c.sender, if (base != s.info.baseDenom) = true then AskClass.pending else AskClass.basic,
      base, quote, price, size⟩ = if base = d then size else 0 := by
    unfold askOwes
    by_cases hb : (base != s.info.baseDenom) = true <;> simp [hb]
  rw [hao]; omega

theorem C01_createBid (env : Env) (s s' : State) (c : Call) (r : Response)
    (id base : String) (fee : Option Coin) (price quote : String) (qs size : Nat) (d : String)
    (hsender : c.sender ≠ env.contract)
    (h : createBid env s c.sender c.funds id base fee price quote qs size = .ok (s', r)) :
    C01_denomOK env.contract s c r s' d = true := by
  obtain ⟨p, total, rate, feeSize, hp, _, _, ht, hfr, hlim, heq, _, _, hfm, _, _, _, hfu, hex, _, rfl, hr⟩ :=
    createBid_ok h
  obtain ⟨hpp, _, hpn, _⟩ := checkPrice_ok.mp hp
  have htn : total.neg = false := Dec.mul_nat_neg hpn (Dec.total_inv ht).2
  have hmant := eqv_ofNat htn heq
  have htrunc : total.trunc = qs := by
    unfold Dec.trunc; rw [hmant, Nat.mul_div_cancel _ (Dec.pow10_pos _)]
  rw [htrunc] at hfu
  rw [denomOK_iff, owed_add_bid s id _ d hex]
  have := escrow_balance (coin := ⟨quote, qs + feeAmt fee⟩) (d := d) (msgs := r.msgs) hsender hfu (by rw [hr])
  simp only at this
  have hbo : bidOwes d (.v3 ⟨⟨base, size⟩, 0, 0, 0, fee, id, c.sender, price, ⟨quote, qs⟩⟩) =
      if quote = d then qs + feeAmt fee else 0 := by
    unfold bidOwes Bid.remQuote Bid.remFee Bid.feeAmount feeAmt feeMatches at *
    cases fee with
    | none => simp
    | some f =>
      simp only at hfm ⊢
      rw [hfm.2]
      by_cases hq : quote = d <;> simp [hq]
  rw [hbo]; omega

theorem C01_approve (env : Env) (s s' : State) (c : Call) (r : Response)
    (id base : String) (size : Nat) (d : String) (hs : sane s = true)
    (hsender : c.sender ≠ env.contract)
    (h : approveAsk env s c.sender c.funds id base size = .ok (s', r)) :
    C01_denomOK env.contract s c r s' d = true := by
  obtain ⟨a, _, hf, ha, hp, rfl, rfl, _, rfl, hr⟩ := approveAsk_ok h
  rw [denomOK_iff]
  have h1 := owed_set_ask s id a { a with cls := .ready c.sender ⟨s.info.baseDenom, a.size⟩ } d
    (sane_distinct hs).1 ha
  have := escrow_balance (coin := ⟨s.info.baseDenom, a.size⟩) (d := d) (msgs := r.msgs) hsender hf (by rw [hr])
  simp only at this
  have h2 : askOwes d { a with cls := .ready c.sender ⟨s.info.baseDenom, a.size⟩ } =
      askOwes d a + if s.info.baseDenom = d then a.size else 0 := by
    unfold askOwes; simp [hp]
  rw [h2] at h1
  omega

theorem askOwes_cancel (env : Env) (a : Ask) (d : String) :
    askOwes d a =
      debit env.contract (payMsg env a.base a.size a.owner :: approverMsgs env a.cls (fun c => c.amount))
        env.contract d := by
  unfold askOwes approverMsgs
  cases a.cls <;> simp

/-- environment assumption of C01: the contract's own address is not a participant – it is
    never the payee of one of its own payouts (order owners, approvers and fee accounts are
    other accounts) -/
def NoSelfPay (contract : String) (msgs : List Msg) : Prop :=
  ∀ m ∈ msgs, ∀ f, flowOf contract m = some f → f.frm = contract → f.to ≠ contract

theorem credit_zero_of_payouts {c : String} {ms : List Msg} (d : String)
    (h1 : FromContract c ms) (h2 : NoSelfPay c ms) : credit c ms c d = 0 := by
  induction ms with
  | nil => rfl
  | cons m t ih =>
    rw [credit_cons]
    have ht1 : FromContract c t := fun x hx => h1 x (List.mem_cons_of_mem _ hx)
    have ht2 : NoSelfPay c t := fun x hx => h2 x (List.mem_cons_of_mem _ hx)
    rw [ih ht1 ht2]
    obtain ⟨f, hf, hfr⟩ := h1 m List.mem_cons_self
    have := h2 m List.mem_cons_self f hf hfr
    simp [msgCredit, hf, this]

theorem C01_cancelAsk (env : Env) (s s' : State) (c : Call) (r : Response) (id : String) (d : String)
    (hs : sane s = true) (hself : NoSelfPay env.contract r.msgs)
    (h : cancelAsk env s c.sender c.funds id = .ok (s', r)) :
    C01_denomOK env.contract s c r s' d = true := by
  obtain ⟨a, hf, ha, _, _, _, rfl, rfl⟩ := cancelAsk_ok h
  have hid := (sane_ask_facts hs ha).id_eq
  rw [denomOK_iff, hf, fundsOf_nil]
  have hfc : FromContract env.contract
      (payMsg env a.base a.size a.owner :: approverMsgs env a.cls (fun c => c.amount)) :=
    fromContract_payMsg _ _ _ _ (fromContract_approverMsgs _ _ _)
  rw [credit_zero_of_payouts d hfc hself, ← askOwes_cancel]
  have := owed_del_ask s id a d (sane_distinct hs).1 ha
  rw [hid]; omega

theorem askOwes_reduce (a : Ask) (eff : Nat) (d : String) (hle : eff ≤ a.size)
    (htr : ∀ ap c, a.cls = .ready ap c → c.amount = a.size) :
    askOwes d a = askOwes d (a.reduce eff) + (if a.base = d then eff else 0) +
      (match a.cls with | .ready _ c => if c.denom = d then eff else 0 | _ => 0) := by
  unfold askOwes Ask.reduce
  cases hc : a.cls with
  | basic => simp; split <;> omega
  | pending => simp; split <;> omega
  | ready ap cv =>
    have := htr ap cv hc
    simp only [this]
    split <;> split <;> omega

theorem debit_reverse_ask (env : Env) (a : Ask) (eff : Nat) (d : String) :
    debit env.contract (payMsg env a.base eff a.owner ::
        approverMsgs env (a.reduce eff).cls (fun _ => eff)) env.contract d =
      (if a.base = d then eff else 0) +
      (match a.cls with | .ready _ c => if c.denom = d then eff else 0 | _ => 0) := by
  unfold approverMsgs Ask.reduce
  cases a.cls <;> simp

theorem C01_reverseAsk (env : Env) (s s' : State) (c : Call) (r : Response) (id action : String)
    (cancel : Option Nat) (d : String) (hs : sane s = true) (hself : NoSelfPay env.contract r.msgs)
    (h : reverseAsk env s c.sender c.funds id action cancel = .ok (s', r)) :
    C01_denomOK env.contract s c r s' d = true := by
  obtain ⟨a, hf, _, ha, _, hle, _, _, rfl, rfl⟩ := reverseAsk_ok h
  have hfa := sane_ask_facts hs ha
  rw [denomOK_iff, hf, fundsOf_nil]
  have hfc : FromContract env.contract (payMsg env a.base (cancel.getD a.size) a.owner ::
      approverMsgs env (a.reduce (cancel.getD a.size)).cls (fun _ => cancel.getD a.size)) :=
    fromContract_payMsg _ _ _ _ (fromContract_approverMsgs _ _ _)
  rw [credit_zero_of_payouts d hfc hself, debit_reverse_ask]
  have htr : ∀ ap cv, a.cls = .ready ap cv → cv.amount = a.size := by
    intro ap cv hc
    have := hfa.cls_ok
    simp only [hc] at this
    exact this.2.2.2
  have h1 := askOwes_reduce a (cancel.getD a.size) d hle htr
  have hz : (a.reduce (cancel.getD a.size)).size = 0 → askOwes d (a.reduce (cancel.getD a.size)) = 0 := by
    intro h0
    unfold askOwes
    unfold Ask.reduce at h0 ⊢
    simp only at h0
    cases a.cls <;> simp [h0]
  have h2 := owed_put_ask s id a (a.reduce (cancel.getD a.size)) d (sane_distinct hs).1 ha hz
  rw [hfa.id_eq]
  omega

theorem product_mono (p : Dec) {a b : Nat} (h : a ≤ b) : product p a ≤ product p b := by
  unfold product
  exact Nat.div_le_div_right (Nat.mul_le_mul_left _ h)

/-- what an accepted bid reversal establishes on a sane book (shared by C01 and C04) -/
theorem reverseBid_amounts {s : State} {b : Bid} {p tq : Dec} {eff effQuote : Nat}
    {requested : Option Nat} (hs : sane s = true) {id : String} (hb : loadBid s id = some b)
    (heff : eff = requested.getD b.remBase)
    (hinc : requested.isNone = true ∨ eff % s.info.increment = 0) (hle : eff ≤ b.remBase)
    (hpp : Dec.parse b.price = some p) (htq : Dec.total p eff = .ok tq) (hfr : tq.hasFract = false)
    (hu : tq.toU128 = some effQuote) :
    effQuote = product p eff ∧ effQuote ≤ b.remQuote ∧ (eff = b.remBase → effQuote = b.remQuote) := by
  have hf := sane_bid_v3 hs hb
  have hi := sane_info hs
  have hrem_lim : b.remBase < LIM := by
    have := hf.base_lim; unfold Bid.remBase; omega
  have hw : wholeProduct p eff = true := by
    cases hr : requested with
    | none => rw [heff, hr]; exact (whole_rem hf.qinv hpp).1
    | some n =>
      rw [hr] at hinc
      simp at hinc
      exact whole_lot hi hf.price_ok hpp hinc
  have hex : exactMul p eff = true := exactMul_of_whole (Nat.lt_of_le_of_lt hle hrem_lim) hw
  obtain ⟨p', hp', _, hn, _⟩ := priceOK_parse hf.price_ok
  rw [hpp] at hp'; cases hp'
  obtain ⟨_, hg⟩ := Dec.total_exact (Dec.parse_scale hpp) hn hex htq hfr hu
  have hrq := (whole_rem hf.qinv hpp).2
  refine ⟨hg, ?_, ?_⟩
  · rw [hg, ← hrq]; exact product_mono p hle
  · intro he; rw [hg, he, hrq]

/-- consuming `q` quote and `f` fee of a bid lowers what it is owed by exactly that -/
theorem bidOwes_accumulate (b : Bid) (e q f : Nat) (d : String)
    (hq : b.accQuote + q ≤ b.quote.amount) (hf : b.accFee + f ≤ b.feeAmount)
    (hfd : ∀ fe, b.fee = some fe → fe.denom = b.quote.denom) (hnone : b.fee = none → f = 0) :
    bidOwes d (.v3 b) = bidOwes d (.v3 (b.accumulate e q f)) +
      (if b.quote.denom = d then q else 0) + (if b.quote.denom = d then f else 0) := by
  obtain ⟨base, accB, accQ, accF, fee, id, owner, price, quote⟩ := b
  simp only [Bid.feeAmount] at hf hfd hnone hq
  simp only [bidOwes, Bid.accumulate, Bid.remQuote, Bid.remFee, Bid.feeAmount]
  cases fee with
  | none =>
    have := hnone rfl
    simp only [this]
    by_cases hd : quote.denom = d <;> simp [hd] <;> omega
  | some fe =>
    have h1 := hfd fe rfl
    simp only at hf
    simp only [h1]
    by_cases hd : quote.denom = d <;> simp [hd] <;> omega

theorem bidOwes_zero (b : Bid) (d : String) (hq : b.remQuote = 0) (hf : b.remFee = 0) :
    bidOwes d (.v3 b) = 0 := by
  simp only [bidOwes, hq, hf]
  cases b.fee <;> simp

theorem C01_reverseBid (env : Env) (s s' : State) (c : Call) (r : Response) (id action : String)
    (cancel : Option Nat) (d : String) (hs : sane s = true) (hself : NoSelfPay env.contract r.msgs)
    (h : reverseBid env s c.sender c.funds id action cancel = .ok (s', r)) :
    C01_denomOK env.contract s c r s' d = true := by
  obtain ⟨b, p, tq, effQuote, effFee, hf, hb, _, hab, hinc, hle, hpp, htq, hfr, hu, hcf, _, rfl, rfl⟩ :=
    reverseBid_ok h
  have hfb := sane_bid_v3 hs hb
  obtain ⟨_, hqle, hfull⟩ := reverseBid_amounts hs hb rfl hinc hle hpp htq hfr hu
  rw [denomOK_iff, hf, fundsOf_nil]
  have hfc : FromContract env.contract (payMsg env b.quote.denom effQuote b.owner ::
      payIfPosMsgs env b.quote.denom (effFee.getD 0) b.owner) :=
    fromContract_payMsg _ _ _ _ (fromContract_payIfPos _ _ _ _)
  rw [credit_zero_of_payouts d hfc hself, debit_payMsg, debit_payIfPos]
  -- the fee handed back: at most the unspent fee; all of it when everything is reversed
  have hfee : b.accFee + effFee.getD 0 ≤ b.feeAmount ∧ (b.fee = none → effFee.getD 0 = 0) ∧
      (cancel.getD b.remBase = b.remBase → effFee.getD 0 = b.remFee) := by
    have hfl := hfb.fee_le
    rcases cancelFee_ok.mp hcf with ⟨hn, rfl⟩ | ⟨f, need, hff, hsp, rfl⟩
    · refine ⟨by simpa using hfl, fun _ => rfl, fun _ => ?_⟩
      simp [Bid.remFee, Bid.feeAmount, hn]
    · have hnl := hsp.hle
      refine ⟨?_, (fun hn => by rw [hn] at hff; cases hff), fun he => ?_⟩
      · simp only [Option.getD_some]; unfold Bid.remFee at hnl ⊢; omega
      · have hq := hfull he
        have hn0 := hsp.hneed
        rw [hq, Nat.sub_self] at hn0
        rw [Dec.feeFor_zero_val hn0]; simp
  have hqa : b.accQuote + effQuote ≤ b.quote.amount := by
    have := hfb.quote_le; unfold Bid.remQuote at hqle; omega
  have hbo := bidOwes_accumulate b (cancel.getD b.remBase) effQuote (effFee.getD 0) d hqa hfee.1
    hfb.fee_denom hfee.2.1
  have hz : (b.accumulate (cancel.getD b.remBase) effQuote (effFee.getD 0)).base.amount -
        (b.accumulate (cancel.getD b.remBase) effQuote (effFee.getD 0)).accBase = 0 →
      bidOwes d (.v3 (b.accumulate (cancel.getD b.remBase) effQuote (effFee.getD 0))) = 0 := by
    intro h0
    have he : cancel.getD b.remBase = b.remBase := by
      have hle' := hle
      simp only [Bid.accumulate, Bid.remBase] at h0 hle' ⊢; omega
    apply bidOwes_zero
    · have h1 := hfull he
      simp only [Bid.remQuote, Bid.accumulate] at h1 ⊢; omega
    · have h1 := hfee.2.2 he
      simp only [Bid.remFee, Bid.accumulate, Bid.feeAmount] at h1 ⊢; omega
  have h2 := owed_put_bid s id (.v3 b) (b.accumulate (cancel.getD b.remBase) effQuote (effFee.getD 0)) d
    (sane_distinct hs).2 (loadBid_some.mp hb) hz
  rw [hfb.id_eq]
  simp only [true_and]
  omega

/-- the effect of an accepted match on the bid, on a sane book under the magnitude hypothesis:
    `q` quote and `f` fee are consumed, within what the bid still holds, all of it on a
    final fill, and the unspent quote stays price × unfilled size -/
structure BidEffect (b : Bid) (size q f : Nat) : Prop where
  hq : b.accQuote + q ≤ b.quote.amount
  hf : b.accFee + f ≤ b.feeAmount
  hnone : b.fee = none → f = 0
  hfinal : size = b.remBase → q = b.remQuote ∧ f = b.remFee
  hinv : ∀ bp, Dec.parse b.price = some bp → q * 10 ^ bp.scale = bp.mant * size

theorem match_bid_effect {env : Env} {s : State} {a : Ask} {b : Bid} {price : String} {size : Nat}
    {askP execP bidP grossD : Dec} {gross bidFee refund feeRefund : Nat} {rp : List Msg × Bid}
    (hfb : BidFacts s.info b.id b) (hx : ExactMatch s b price size)
    (hap : askP.neg = false) (hbpn : bidP.neg = false) (hepn : execP.neg = false)
    (hep : Dec.parse price = some execP) (hbp : Dec.parse b.price = some bidP)
    (hpr : priceRule askP bidP execP = .ok ())
    (hsb : size ≤ b.remBase)
    (hg : Dec.total execP size = .ok grossD) (hfr : grossD.hasFract = false)
    (hgu : grossD.toU128 = some gross)
    (hbf : calcFee b gross = .ok bidFee)
    (hrp : refundPart env b (Dec.lt execP bidP) bidP size gross bidFee (env.restricted b.quote.denom) = .ok rp)
    (hrpe : rp.2 = (b.accumulate size gross bidFee).accumulate 0 refund feeRefund) :
    BidEffect b size (gross + refund) (bidFee + feeRefund) := by
  obtain ⟨hwx, hgross⟩ := Dec.total_exact (Dec.parse_scale hep) hepn (hx.exec execP hep) hg hfr hgu
  obtain ⟨hwr, hrq⟩ := whole_rem hfb.qinv hbp
  have hfl := hfb.fee_le
  by_cases himp : Dec.lt execP bidP = true
  · -- improved price
    rcases refundPart_ok.mp hrp with ⟨hf, _⟩ | ⟨_, origD, orig, origFee, fr, ht, hfr2, hu2, hle, hcf, hfri, hrp'⟩
    · rw [himp] at hf; cases hf
    · obtain ⟨hwo, horig⟩ := Dec.total_exact (Dec.parse_scale hbp) hbpn (hx.bid execP bidP hep hbp himp) ht hfr2 hu2
      have hacc : (b.accumulate size gross bidFee).accumulate 0 refund feeRefund =
          (b.accumulate size gross bidFee).accumulate 0 (orig - gross) fr := by
        rw [← hrpe, hrp']
      have hrf : refund = orig - gross ∧ feeRefund = fr := by
        simp only [Bid.accumulate, Bid.mk.injEq] at hacc
        omega
      obtain ⟨rfl, rfl⟩ := hrf
      have hsum : gross + (orig - gross) = orig := by omega
      have horq : orig ≤ b.remQuote := by rw [horig, ← hrq]; exact product_mono bidP hsb
      have hq := hfb.quote_le
      -- fee
      have hfeesum : bidFee + feeRefund ≤ b.remFee ∧ (b.fee = none → bidFee + feeRefund = 0) ∧
          (orig = b.remQuote → bidFee + feeRefund = b.remFee) := by
        rcases calcFee_ok.mp hbf with ⟨hn, rfl⟩ | ⟨f, need, hff, hsp, rfl⟩
        · rcases calcFee_ok.mp hcf with ⟨_, rfl⟩ | ⟨f, _, hff, _⟩
          · rcases hfri with ⟨h0, _⟩ | ⟨_, rfl⟩
            · exact absurd rfl h0
            · refine ⟨by omega, fun _ => rfl, fun _ => ?_⟩
              simp [Bid.remFee, Bid.feeAmount, hn]
          · rw [hn] at hff; cases hff
        · rcases calcFee_ok.mp hcf with ⟨hn, _⟩ | ⟨f', need', hff', hsp', rfl⟩
          · rw [hn] at hff; cases hff
          · have h1 := hsp.hle
            have h2 := hsp'.hle
            refine ⟨?_, (fun hn => by rw [hn] at hff; cases hff), fun he => ?_⟩
            · generalize b.remFee = R at *
              rcases hfri with ⟨_, hle2, rfl⟩ | ⟨h0, rfl⟩ <;> omega
            · have hn0 := hsp'.hneed
              rw [he, Nat.sub_self] at hn0
              have := Dec.feeFor_zero_val hn0
              subst this
              generalize b.remFee = R at *
              rcases hfri with ⟨_, hle2, rfl⟩ | ⟨h0, rfl⟩ <;> omega
      refine ⟨by rw [hsum]; unfold Bid.remQuote at horq; omega,
        by have := hfeesum.1; unfold Bid.remFee at this; omega, fun hn => hfeesum.2.1 hn, ?_, ?_⟩
      · intro hsz
        have : orig = b.remQuote := by rw [horig, hsz, hrq]
        exact ⟨by rw [hsum]; exact this, hfeesum.2.2 this⟩
      · intro bp hbp'
        rw [hbp] at hbp'; cases hbp'
        rw [hsum, horig]
        unfold wholeProduct at hwo
        simp only [beq_iff_eq] at hwo
        unfold product
        exact Nat.div_mul_cancel (Nat.dvd_of_mod_eq_zero hwo)
  · -- execution at the bid's own price
    have himp' : Dec.lt execP bidP = false := by simpa using himp
    have hrp' : rp = ([], b.accumulate size gross bidFee) := by
      rcases refundPart_ok.mp hrp with ⟨_, h⟩ | ⟨hf, _⟩
      · exact h
      · rw [himp'] at hf; cases hf
    have hacc : (b.accumulate size gross bidFee).accumulate 0 refund feeRefund = b.accumulate size gross bidFee := by
      rw [← hrpe, hrp']
    have hrf : refund = 0 ∧ feeRefund = 0 := by
      simp only [Bid.accumulate, Bid.mk.injEq] at hacc
      omega
    obtain ⟨rfl, rfl⟩ := hrf
    -- the execution price equals the bid price as a number
    have heqv : Dec.eqv execP bidP = true := by
      rcases priceRule_ok.mp hpr with ⟨hlt, he | he⟩ | ⟨_, hab, he⟩
      · have := Dec.lt_of_eqv_lt hepn hap hbpn he hlt
        rw [himp'] at this; cases this
      · exact he
      · exact Dec.eqv_trans hepn hap hbpn he hab
    obtain ⟨hwb, hpb⟩ := Dec.product_eqv hepn hbpn heqv hwx
    have hgb : gross = product bidP size := by rw [hgross, hpb]
    have hgq : gross ≤ b.remQuote := by rw [hgb, ← hrq]; exact product_mono bidP hsb
    have hq := hfb.quote_le
    have hfeesum : bidFee ≤ b.remFee ∧ (b.fee = none → bidFee = 0) ∧ (gross = b.remQuote → bidFee = b.remFee) := by
      rcases calcFee_ok.mp hbf with ⟨hn, rfl⟩ | ⟨f, need, hff, hsp, rfl⟩
      · exact ⟨by omega, fun _ => rfl, fun _ => by simp [Bid.remFee, Bid.feeAmount, hn]⟩
      · refine ⟨by omega, (fun hn => by rw [hn] at hff; cases hff), fun he => ?_⟩
        have hn0 := hsp.hneed
        rw [he, Nat.sub_self] at hn0
        rw [Dec.feeFor_zero_val hn0]; simp
    refine ⟨by unfold Bid.remQuote at hgq; omega, by have := hfeesum.1; unfold Bid.remFee at this; omega,
      fun hn => by simp [hfeesum.2.1 hn], ?_, ?_⟩
    · intro hsz
      have : gross = b.remQuote := by rw [hgb, hsz, hrq]
      exact ⟨by simpa using this, by simpa using hfeesum.2.2 this⟩
    · intro bp hbp'
      rw [hbp] at hbp'; cases hbp'
      simp only [Nat.add_zero]
      rw [hgb]
      unfold wholeProduct at hwb
      simp only [beq_iff_eq] at hwb
      unfold product
      exact Nat.div_mul_cancel (Nat.dvd_of_mod_eq_zero hwb)

theorem debit_askFeeMsgList (env : Env) (info : Info) (n : Nat) (qd d : String) :
    debit env.contract (askFeeMsgList env info (env.restricted qd) n qd) env.contract d =
      (if qd = d then (if info.askFee.isSome then n else 0) else 0) := by
  unfold askFeeMsgList
  cases info.askFee <;> simp

theorem debit_classMsgList (env : Env) (a : Ask) (b : Bid) (net size : Nat) (d : String) :
    debit env.contract (classMsgList env a b (env.restricted a.base) (env.restricted b.quote.denom) net size)
        env.contract d =
      (match a.cls with
       | .basic => (if b.quote.denom = d then net else 0) + (if a.base = d then size else 0)
       | .ready _ c => (if c.denom = d then size else 0) + (if a.base = d then size else 0) +
                       (if b.quote.denom = d then net else 0)
       | .pending => 0) := by
  unfold classMsgList
  cases a.cls <;> simp [debit_append] <;> omega

theorem debit_classMsgList_reduce (env : Env) (a : Ask) (b : Bid) (net size : Nat) (d : String) :
    debit env.contract (classMsgList env (a.reduce size) b (env.restricted a.base)
        (env.restricted b.quote.denom) net size) env.contract d =
      (match a.cls with
       | .basic => (if b.quote.denom = d then net else 0) + (if a.base = d then size else 0)
       | .ready _ c => (if c.denom = d then size else 0) + (if a.base = d then size else 0) +
                       (if b.quote.denom = d then net else 0)
       | .pending => 0) := by
  have := debit_classMsgList env (a.reduce size) b net size d
  have hbase : (a.reduce size).base = a.base := rfl
  rw [hbase] at this
  rw [this]
  unfold Ask.reduce
  cases a.cls <;> rfl

theorem C01_match (env : Env) (s s' : State) (c : Call) (r : Response)
    (askId bidId price : String) (size : Nat) (d : String) (hs : sane s = true)
    (hself : NoSelfPay env.contract r.msgs)
    (hx : ∀ b, loadBid s bidId = some b → ExactMatch s b price size)
    (h : executeMatch env s c.sender c.funds askId bidId price size = .ok (s', r)) :
    C01_denomOK env.contract s c r s' d = true := by
  obtain ⟨a, b, askP, bidP, execP, grossD, gross, askFee, bidFee, m2, m3, rp, _, hf, ha, hb, hq,
    hap, hbp, hep, hpr, _, hsa, hsb, hg, hfr, hgu, haf, hle, hbf, hm2, hm3, hrp, rfl, rfl⟩ :=
    executeMatch_ok h
  have hfa := sane_ask_facts hs ha
  have hfb := sane_bid_v3 hs hb
  obtain ⟨bp', hbp', hbpz, hbpn, _⟩ := priceOK_parse hfb.price_ok
  rw [hbp] at hbp'; cases hbp'
  obtain ⟨ap', hap', hapz, hapn, _⟩ := priceOK_parse hfa.price_ok
  rw [hap] at hap'; cases hap'
  have hepn : execP.neg = false := by
    rcases priceRule_ok.mp hpr with ⟨_, he | he⟩ | ⟨_, _, he⟩
    · exact eqv_pos_neg hapn hapz he
    · exact eqv_pos_neg hbpn hbpz he
    · exact eqv_pos_neg hapn hapz he
  obtain ⟨refund, feeRefund, hma, hrpe, hzero⟩ :=
    matchAmounts_model (a := a) (by rw [hfb.id_eq]; exact hfb) (hx b hb) hep hbp hepn hbpn hg hfr hgu haf hbf hrp
  have hrp1 : rp.1 = (if Dec.lt execP bidP then refundMsgList env b (env.restricted b.quote.denom) refund feeRefund else []) := by
    rw [hrpe]
  have hrp2 : rp.2 = (b.accumulate size gross bidFee).accumulate 0 refund feeRefund := by rw [hrpe]
  have heff := match_bid_effect (a := a) (by rw [hfb.id_eq]; exact hfb) (hx b hb) hapn hbpn hepn hep hbp hpr hsb hg hfr hgu
    hbf hrp hrp2
  obtain ⟨hnp, _, _, rfl⟩ := classMsgs_ok.mp hm3
  have hfd : (b.fee.map (·.denom)).getD b.quote.denom = b.quote.denom := by
    cases hfe : b.fee with
    | none => rfl
    | some f => simp [hfb.fee_denom f hfe]
  -- everything paid out, per denomination
  have hq0 : s.info.askFee = none → askFee = 0 := by
    intro h0; unfold AskFeeIs at haf; simpa [h0] using haf
  have hdeb_refund : debit env.contract rp.1 env.contract d =
      (if b.quote.denom = d then refund else 0) + (if b.quote.denom = d then feeRefund else 0) := by
    rw [hrp1]
    by_cases himp : Dec.lt execP bidP = true
    · simp only [himp, if_true]
      unfold refundMsgList
      rw [debit_append, debit_payIfPosR, hfd]
      by_cases hr0 : refund = 0
      · simp [hr0, hzero hr0]
      · simp [hr0]
    · have himp' : Dec.lt execP bidP = false := by simpa using himp
      have hb0 := heff.hfinal
      have : refund = 0 ∧ feeRefund = 0 := by
        rcases refundPart_ok.mp hrp with ⟨_, hrp'⟩ | ⟨hf', _⟩
        · have hacc : (b.accumulate size gross bidFee).accumulate 0 refund feeRefund = b.accumulate size gross bidFee := by
            rw [← hrp2, hrp']
          simp only [Bid.accumulate, Bid.mk.injEq] at hacc
          omega
        · rw [himp'] at hf'; cases hf'
      simp [himp', this.1, this.2]
  have hdeb_m2 : debit env.contract m2 env.contract d = if b.quote.denom = d then bidFee else 0 := by
    rcases bidFeeMsgs_ok.mp hm2 with ⟨hb0, rfl⟩ | ⟨_, fi, _, rfl⟩
    · simp [hb0]
    · simp [hfd]
  rw [denomOK_iff, hf, fundsOf_nil]
  have hfc : FromContract env.contract
      (askFeeMsgList env s.info (env.restricted b.quote.denom) askFee b.quote.denom ++ m2 ++
        classMsgList env (a.reduce size) b (env.restricted a.base) (env.restricted b.quote.denom) (gross - askFee) size ++
        rp.1) := by
    apply fromContract_append (fromContract_append (fromContract_append
      (fromContract_askFeeMsgList _ _ _ _ _) ?_) (fromContract_classMsgList _ _ _ _ _ _ _)) ?_
    · rcases bidFeeMsgs_ok.mp hm2 with ⟨_, rfl⟩ | ⟨_, fi, _, rfl⟩
      · exact fromContract_nil _
      · exact fromContract_payMsgR _ _ _ _ _ (fromContract_nil _)
    · rw [hrp1]; split
      · exact fromContract_refundMsgList _ _ _ _ _
      · exact fromContract_nil _
  rw [credit_zero_of_payouts d hfc hself, debit_append, debit_append, debit_append, debit_askFeeMsgList,
    hdeb_m2, hdeb_refund]
  rw [debit_classMsgList_reduce]
  -- the ask side
  have htr : ∀ ap cv, a.cls = .ready ap cv → cv.amount = a.size := by
    intro ap cv hc
    have := hfa.cls_ok
    simp only [hc] at this
    exact this.2.2.2
  have h1 := askOwes_reduce a size d hsa htr
  have hz : (a.reduce size).size = 0 → askOwes d (a.reduce size) = 0 := by
    intro h0
    unfold askOwes
    unfold Ask.reduce at h0 ⊢
    simp only at h0
    cases a.cls <;> simp [h0]
  -- the bid side
  have hbo := bidOwes_accumulate b size (gross + refund) (bidFee + feeRefund) d heff.hq heff.hf
    hfb.fee_denom heff.hnone
  have hacc2 : (b.accumulate size gross bidFee).accumulate 0 refund feeRefund =
      b.accumulate size (gross + refund) (bidFee + feeRefund) := by
    simp [Bid.accumulate, Nat.add_assoc]
  have hzb : rp.2.base.amount - rp.2.accBase = 0 → bidOwes d (.v3 rp.2) = 0 := by
    intro h0
    rw [hrp2, hacc2] at h0 ⊢
    have hsz : size = b.remBase := by
      simp only [Bid.accumulate, Bid.remBase] at h0 hsb ⊢; omega
    obtain ⟨hq1, hf1⟩ := heff.hfinal hsz
    apply bidOwes_zero
    · simp only [Bid.remQuote, Bid.accumulate] at hq1 ⊢; omega
    · simp only [Bid.remFee, Bid.accumulate, Bid.feeAmount] at hf1 ⊢; omega
  have hd := sane_distinct hs
  have s1 := owed_put_ask s askId a (a.reduce size) d hd.1 ha hz
  have s2 := owed_put_bid { s with asks := putAsk s.asks askId (a.reduce size) } bidId (.v3 b) rp.2 d
    hd.2 (loadBid_some.mp hb) hzb
  rw [hrp2, hacc2] at s2
  rw [hrp2, hacc2]
  simp only at s1 s2 ⊢
  generalize askOwes d (a.reduce size) = AO' at *
  generalize bidOwes d (.v3 (b.accumulate size (gross + refund) (bidFee + feeRefund))) = BO' at *
  generalize askOwes d a = AO at *
  generalize bidOwes d (.v3 b) = BO at *
  cases hcl : a.cls with
  | pending => simp [Ask.reduce, hcl] at hnp
  | basic =>
    simp only [hcl] at h1 ⊢
    cases hafi : s.info.askFee with
    | none =>
      have := hq0 hafi
      by_cases hqd : b.quote.denom = d <;> by_cases hbd : a.base = d <;>
        simp [hqd, hbd, this] at hbo h1 ⊢ <;> omega
    | some afi =>
      by_cases hqd : b.quote.denom = d <;> by_cases hbd : a.base = d <;>
        simp [hqd, hbd] at hbo h1 ⊢ <;> omega
  | ready ap cv =>
    simp only [hcl] at h1 ⊢
    cases hafi : s.info.askFee with
    | none =>
      have := hq0 hafi
      by_cases hqd : b.quote.denom = d <;> by_cases hbd : a.base = d <;> by_cases hcd : cv.denom = d <;>
        simp [hqd, hbd, hcd, this] at hbo h1 ⊢ <;> omega
    | some afi =>
      by_cases hqd : b.quote.denom = d <;> by_cases hbd : a.base = d <;> by_cases hcd : cv.denom = d <;>
        simp [hqd, hbd, hcd] at hbo h1 ⊢ <;> omega

theorem C01_modify (env : Env) (s s' : State) (c : Call) (r : Response)
    (ap ex : Option (List String)) (ar aa br ba : Option String) (at_ bt : Option (List String))
    (d : String)
    (h : modifyContract env s c.sender c.funds ap ex ar aa br ba at_ bt = .ok (s', r)) :
    C01_denomOK env.contract s c r s' d = true := by
  obtain ⟨_, hf, _, _, _, _, _, _, _, _, _, _, rfl, rfl⟩ := modifyContract_ok h
  rw [denomOK_iff, hf]
  simp [fundsOf_nil, owed]

/-- the magnitude hypothesis of one request: only matches carry one -/
def ExactStep (s : State) (m : ExecMsg) : Prop :=
  match m with
  | .executeMatch _ bidId price size => ∀ b, loadBid s bidId = some b → ExactMatch s b price size
  | _ => True

/-- C01, one step: for every accepted request from a sane state and every denomination, the
    contract's holdings before plus everything received (attached funds, pull-ins) equal its
    holdings after plus everything paid out, where holdings are exactly what the open orders are
    owed.  Environment assumptions: the contract's own address is not a participant. -/
theorem C01_step (env : Env) (s s' : State) (c : Call) (r : Response) (d : String)
    (hs : sane s = true) (hx : ExactStep s c.msg)
    (hsender : c.sender ≠ env.contract) (hself : NoSelfPay env.contract r.msgs)
    (h : execute env s c = .ok (s', r)) :
    C01_denomOK env.contract s c r s' d = true := by
  unfold execute at h
  simp only [Res.bind_eq_ok, guardR_eq_ok] at h
  obtain ⟨_, _, h⟩ := h
  cases hm : c.msg <;> simp only [hm] at h hx
  case approveAsk id base size => exact C01_approve env s s' c r id base size d hs hsender h
  case cancelAsk id => exact C01_cancelAsk env s s' c r id d hs hself h
  case cancelBid id => exact C01_reverseBid env s s' c r id _ none d hs hself h
  case createAsk id base quote price size => exact C01_createAsk env s s' c r id base quote price size d hsender h
  case createBid id base fee price quote qs size =>
    exact C01_createBid env s s' c r id base fee price quote qs size d hsender h
  case executeMatch a b p sz => exact C01_match env s s' c r a b p sz d hs hself hx h
  case expireAsk id => exact C01_reverseAsk env s s' c r id _ none d hs hself h
  case expireBid id => exact C01_reverseBid env s s' c r id _ none d hs hself h
  case rejectAsk id sz => exact C01_reverseAsk env s s' c r id _ sz d hs hself h
  case rejectBid id sz => exact C01_reverseBid env s s' c r id _ sz d hs hself h
  case modify => exact C01_modify env s s' c r _ _ _ _ _ _ _ _ d h

end Ats.Proofs
