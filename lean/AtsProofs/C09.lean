/-
  C09 — Fee exactness: configured rate at entry, half-up rounding, pro-rata thereafter.
-/
import AtsProofs.C17
import AtsProofs.DecMono
namespace Ats.Proofs
open Ats Ats.Spec

/-- C09 entry: the fee escrowed with an admitted bid is the configured bid rate times
    price × size, rounded half away from zero, in the quote denomination (under the magnitude
    hypothesis on the two products, finding F6) -/
theorem C09_entry (env : Env) (s s' : State) (c : Call) (r : Response)
    (id base : String) (fee : Option Coin) (price quote : String) (qs size : Nat)
    (hm : c.msg = .createBid id base fee price quote qs size)
    (hexact : ∀ p rate, Dec.parse price = some p → bidRate s.info = some rate →
        exactMul p size = true ∧ exactMul rate qs = true)
    (h : execute env s c = .ok (s', r)) :
    ∃ p rate, Dec.parse price = some p ∧ bidRate s.info = some rate ∧ product p size = qs ∧
      admissibleFee rate qs = some (feeAmt fee) ∧ (∀ f, fee = some f → f.denom = quote) := by
  unfold execute at h
  simp only [Res.bind_eq_ok, guardR_eq_ok, hm] at h
  obtain ⟨_, _, h⟩ := h
  obtain ⟨p, total, rate, feeSize, hp, _, _, ht, hfr, _, heq, hrate, hfee, hfm, _, _, _, _, _, _, _, _⟩ :=
    createBid_ok h
  obtain ⟨hpp, _, hpn, _⟩ := checkPrice_ok.mp hp
  obtain ⟨hx1, hx2⟩ := hexact p rate hpp hrate
  have htn : total.neg = false := Dec.mul_nat_neg hpn (Dec.total_inv ht).2
  have htu : total.toU128 = some total.trunc := by simp [Dec.toU128, Dec.trunc, htn]
  obtain ⟨_, hg⟩ := Dec.total_exact (Dec.parse_scale hpp) hpn hx1 ht hfr htu
  have hmant := eqv_ofNat htn heq
  have htrunc : total.trunc = qs := by
    unfold Dec.trunc; rw [hmant, Nat.mul_div_cancel _ (Dec.pow10_pos _)]
  have hrs : rate.scale ≤ 28 := by
    unfold bidRate at hrate
    cases hbf : s.info.bidFee with
    | none => simp [hbf] at hrate; subst hrate; simp [Dec.ofNat]
    | some fi => simp [hbf] at hrate; exact Dec.parse_scale hrate
  have hadm := Dec.rateFee_exact hrs hmant htn hx2 hfee
  refine ⟨p, rate, hpp, hrate, by rw [← hg, htrunc], ?_, ?_⟩
  · unfold feeMatches at hfm
    unfold feeAmt
    cases fee with
    | none => simp only at hfm ⊢; rw [hadm, hfm]
    | some f => simp only at hfm ⊢; rw [hadm, hfm.1]
  · intro f hf
    unfold feeMatches at hfm
    rw [hf] at hfm
    exact hfm.2

/-- C09 entry, as the decidable predicate the driver evaluates on the implementation -/
theorem C09_entry_ok (env : Env) (s s' : State) (c : Call) (r : Response)
    (id base : String) (fee : Option Coin) (price quote : String) (qs size : Nat)
    (hm : c.msg = .createBid id base fee price quote qs size)
    (hexact : ∀ p rate, Dec.parse price = some p → bidRate s.info = some rate →
        exactMul p size = true ∧ exactMul rate qs = true)
    (h : execute env s c = .ok (s', r)) : C09_entryOK s fee price quote qs size = true := by
  obtain ⟨p, rate, hp, hr, h1, h2, h3⟩ := C09_entry env s s' c r id base fee price quote qs size hm hexact h
  unfold C09_entryOK
  simp only [hp, hr, h1, h2, beq_self_eq_true, Bool.true_and]
  cases fee with
  | none => rfl
  | some f => simp [h3 f rfl]

/-- C09 ask fee: the ask fee of an accepted match is the configured ask rate times the executed
    price × size, rounded half away from zero; C02 shows it is deducted from the seller's
    proceeds and paid to the ask-fee account -/
theorem C09_ask_fee (s : State) (a : Ask) (b : Bid) (price : String) (size : Nat) (m : MatchAmounts)
    (h : matchAmounts s a b price size = some m) :
    ∃ p, Dec.parse price = some p ∧ m.gross = product p size ∧ m.askFee = askFeeExact s.info m.gross := by
  unfold matchAmounts at h
  cases hp : Dec.parse price with
  | none => simp [hp] at h
  | some p =>
    cases hbp : Dec.parse b.price with
    | none => simp [hp, hbp] at h
    | some bp =>
      simp only [hp, hbp] at h
      split at h
      · simp only [Option.some.injEq] at h
        subst h
        exact ⟨p, rfl, rfl, rfl⟩
      · cases h

/-! ### pro-rata: the fee still held is the fee the unspent quote needs -/

theorem feeExact_iff {s : State} : feeExact s = true ↔ ∀ kv ∈ s.bids, feeExactBid kv.2 = true := by
  unfold feeExact; simp [List.all_eq_true]

theorem feeExactBid_new {base quote price id sender : String} {fee : Option Coin} {qs size feeSize : Nat}
    (hq : 1 ≤ qs) (hql : qs < LIM) (hfl : feeSize < LIM) (hfm : feeMatches fee feeSize quote) :
    feeExactBid (.v3 ⟨⟨base, size⟩, 0, 0, 0, fee, id, sender, price, ⟨quote, qs⟩⟩) = true := by
  unfold feeExactBid
  cases fee with
  | none => rfl
  | some f =>
    unfold feeMatches at hfm
    simp only at hfm
    have hF : f.amount < LIM := by rw [hfm.1]; exact hfl
    simp only [Bid.remQuote, Nat.sub_zero, Dec.feeFor_full (by omega) hql hF, Bid.remFee, Bid.feeAmount,
      beq_self_eq_true]

/-- the assumption the pro-rata invariant needs in one corner (a price-improved fill whose fee
    at the bid price comes out as zero while the fee at the execution price does not): the
    decimal pro-rata function is monotone in the unspent quote.  Validated empirically against
    rust_decimal on every run (unit stream `UFM`), not proved. -/
def FeeMono : Prop :=
  ∀ F Q q1 q2 n1 n2, q1 ≤ q2 → Dec.feeFor F Q q1 = .ok n1 → Dec.feeFor F Q q2 = .ok n2 → n1 ≤ n2

theorem feeExactBid_accumulate {b : Bid} {n q fb : Nat}
    (hkeep : ∀ f, b.fee = some f →
      b.accQuote + q ≤ b.quote.amount ∧ b.accFee + fb ≤ f.amount ∧
      Dec.feeFor f.amount b.quote.amount (b.remQuote - q) = .ok (b.remFee - fb)) :
    feeExactBid (.v3 (b.accumulate n q fb)) = true := by
  unfold feeExactBid
  cases hfe : b.fee with
  | none => simp [Bid.accumulate, hfe]
  | some f =>
    obtain ⟨h1, h2, h3⟩ := hkeep f hfe
    have e1 : (b.accumulate n q fb).remQuote = b.remQuote - q := by
      simp [Bid.accumulate, Bid.remQuote, Nat.sub_sub]
    have e2 : (b.accumulate n q fb).remFee = b.remFee - fb := by
      simp [Bid.accumulate, Bid.remFee, Bid.feeAmount, hfe, Nat.sub_sub]
    have e3 : (b.accumulate n q fb).fee = some f := by simp [Bid.accumulate, hfe]
    have e4 : (b.accumulate n q fb).quote = b.quote := rfl
    simp only [e3, e1, e2, e4, h3, beq_self_eq_true]

/-- C09 pro-rata (partial: assumes `FeeMono`, see above): every accepted request preserves
    "each fee-bearing open bid holds exactly the fee its unspent quote needs" -/
theorem C09_prorata_partial (hmono : FeeMono) (env : Env) (s s' : State) (c : Call) (r : Response)
    (hs : sane s = true) (hfe : feeExact s = true) (hx : ExactStep s c.msg)
    (h : execute env s c = .ok (s', r)) : feeExact s' = true := by
  rw [feeExact_iff] at hfe ⊢
  unfold execute at h
  simp only [Res.bind_eq_ok, guardR_eq_ok] at h
  obtain ⟨_, hv, h⟩ := h
  cases hm : c.msg <;> simp only [hm] at h hx hv
  case createAsk id base quote price size =>
    obtain ⟨_, _, _, _, _, _, _, _, _, rfl, _⟩ := createAsk_ok h; exact hfe
  case approveAsk id base size =>
    obtain ⟨a, _, _, _, _, _, _, _, rfl, _⟩ := approveAsk_ok h; exact hfe
  case cancelAsk id =>
    obtain ⟨a, _, _, _, _, _, rfl, _⟩ := cancelAsk_ok h; exact hfe
  case expireAsk id =>
    obtain ⟨a, _, _, _, _, _, _, _, rfl, _⟩ := reverseAsk_ok h; exact hfe
  case rejectAsk id sz =>
    obtain ⟨a, _, _, _, _, _, _, _, rfl, _⟩ := reverseAsk_ok h; exact hfe
  case modify =>
    obtain ⟨_, _, _, _, _, _, _, _, _, _, _, _, rfl, _⟩ := modifyContract_ok h; exact hfe
  case createBid id base fee price quote qs size =>
    simp only [ExecMsg.valid, Bool.and_eq_true, decide_eq_true_eq] at hv
    obtain ⟨_, _, _, feeSize, _, _, _, _, _, hlim, _, _, hfee, hfm, _, _, _, _, _, _, rfl, _⟩ := createBid_ok h
    exact all_set hfe (feeExactBid_new hv.1.2 hlim (Dec.rateFee_lt hfee) hfm)
  case cancelBid id =>
    obtain ⟨b, p, tq, effQuote, effFee, _, hb, _, _, hinc, hle, hpp, htq, hfr, hu, hcf, _, rfl, _⟩ := reverseBid_ok h
    obtain ⟨_, hqle, _⟩ := reverseBid_amounts hs hb rfl hinc hle hpp htq hfr hu
    have hfb := sane_bid_v3 hs hb
    refine all_putBid hfe (fun _ => feeExactBid_accumulate ?_)
    intro f hff
    rcases cancelFee_ok.mp hcf with ⟨hn, _⟩ | ⟨f', need, hff', hsp, rfl⟩
    · rw [hn] at hff; cases hff
    · rw [hff] at hff'; cases hff'
      have hq := hfb.quote_le
      have hl := hsp.hle
      have hfa := hsp.hf
      refine ⟨by unfold Bid.remQuote at hqle; omega, ?_, ?_⟩
      · simp only [Option.getD_some]; rw [remFee_some hff] at hl ⊢; omega
      · simp only [Option.getD_some]
        have : b.remFee - (b.remFee - need) = need := by omega
        rw [this]; exact hsp.hneed
  case expireBid id =>
    obtain ⟨b, p, tq, effQuote, effFee, _, hb, _, _, hinc, hle, hpp, htq, hfr, hu, hcf, _, rfl, _⟩ := reverseBid_ok h
    obtain ⟨_, hqle, _⟩ := reverseBid_amounts hs hb rfl hinc hle hpp htq hfr hu
    have hfb := sane_bid_v3 hs hb
    refine all_putBid hfe (fun _ => feeExactBid_accumulate ?_)
    intro f hff
    rcases cancelFee_ok.mp hcf with ⟨hn, _⟩ | ⟨f', need, hff', hsp, rfl⟩
    · rw [hn] at hff; cases hff
    · rw [hff] at hff'; cases hff'
      have hq := hfb.quote_le
      have hl := hsp.hle
      have hfa := hsp.hf
      refine ⟨by unfold Bid.remQuote at hqle; omega, ?_, ?_⟩
      · simp only [Option.getD_some]; rw [remFee_some hff] at hl ⊢; omega
      · simp only [Option.getD_some]
        have : b.remFee - (b.remFee - need) = need := by omega
        rw [this]; exact hsp.hneed
  case rejectBid id sz =>
    obtain ⟨b, p, tq, effQuote, effFee, _, hb, _, _, hinc, hle, hpp, htq, hfr, hu, hcf, _, rfl, _⟩ := reverseBid_ok h
    obtain ⟨_, hqle, _⟩ := reverseBid_amounts hs hb rfl hinc hle hpp htq hfr hu
    have hfb := sane_bid_v3 hs hb
    refine all_putBid hfe (fun _ => feeExactBid_accumulate ?_)
    intro f hff
    rcases cancelFee_ok.mp hcf with ⟨hn, _⟩ | ⟨f', need, hff', hsp, rfl⟩
    · rw [hn] at hff; cases hff
    · rw [hff] at hff'; cases hff'
      have hq := hfb.quote_le
      have hl := hsp.hle
      have hfa := hsp.hf
      refine ⟨by unfold Bid.remQuote at hqle; omega, ?_, ?_⟩
      · simp only [Option.getD_some]; rw [remFee_some hff] at hl ⊢; omega
      · simp only [Option.getD_some]
        have : b.remFee - (b.remFee - need) = need := by omega
        rw [this]; exact hsp.hneed
  case executeMatch aid bid price size =>
    obtain ⟨a, b, askP, bidP, execP, grossD, gross, askFee, bidFee, m2, m3, rp, _, _, ha, hb, _,
      hap, hbp, hep, hpr, _, hsa, hsb, hg, hfr, hgu, haf, _, hbf, _, _, hrp, rfl, _⟩ := executeMatch_ok h
    have hfa := sane_ask_facts hs ha
    have hfb := sane_bid_v3 hs hb
    obtain ⟨bp', hbp', hbpz, hbpn, _⟩ := priceOK_parse hfb.price_ok
    rw [hbp] at hbp'; cases hbp'
    obtain ⟨ap', hap', hapz, hapn, _⟩ := priceOK_parse hfa.price_ok
    rw [hap] at hap'; cases hap'
    have hepn : execP.neg = false := by
      rcases priceRule_ok.mp hpr with ⟨_, he | he⟩ | ⟨_, _, he⟩
      · exact eqv_pos_neg hapn hapz he
      · exact eqv_pos_neg hbpn hbpz he
      · exact eqv_pos_neg hapn hapz he
    obtain ⟨refund, feeRefund, _, hrpe, _⟩ :=
      matchAmounts_model (a := a) (by rw [hfb.id_eq]; exact hfb) (hx b hb) hep hbp hepn hbpn hg hfr hgu haf hbf hrp
    have hrp2 : rp.2 = (b.accumulate size gross bidFee).accumulate 0 refund feeRefund := by rw [hrpe]
    have heff := match_bid_effect (a := a) (by rw [hfb.id_eq]; exact hfb) (hx b hb) hapn hbpn hepn hep hbp hpr hsb
      hg hfr hgu hbf hrp hrp2
    have hacc2 : (b.accumulate size gross bidFee).accumulate 0 refund feeRefund =
        b.accumulate size (gross + refund) (bidFee + feeRefund) := by
      simp [Bid.accumulate, Nat.add_assoc]
    rw [hrp2, hacc2]
    refine all_putBid hfe (fun _ => feeExactBid_accumulate ?_)
    intro f hff
    have hfa' : b.accFee + (bidFee + feeRefund) ≤ f.amount := by
      have := heff.hf; simpa [Bid.feeAmount, hff] using this
    refine ⟨heff.hq, hfa', ?_⟩
    -- the fee left is the fee the quote left needs
    rcases calcFee_ok.mp hbf with ⟨hn, _⟩ | ⟨f', need, hff', hsp, rfl⟩
    · rw [hn] at hff; cases hff
    · rw [hff] at hff'; cases hff'
      have h1 := hsp.hle
      by_cases himp : Dec.lt execP bidP = true
      · rcases refundPart_ok.mp hrp with ⟨hf', _⟩ | ⟨_, origD, orig, origFee, fr, ht, hfr2, hu2, hle, hcf, hfri, hrp'⟩
        · rw [himp] at hf'; cases hf'
        · have hacc : (b.accumulate size gross (b.remFee - need)).accumulate 0 refund feeRefund =
              (b.accumulate size gross (b.remFee - need)).accumulate 0 (orig - gross) fr := by
            rw [← hrp2, hrp']
          have hrf : refund = orig - gross ∧ feeRefund = fr := by
            simp only [Bid.accumulate, Bid.mk.injEq] at hacc
            omega
          obtain ⟨rfl, rfl⟩ := hrf
          have hsum : gross + (orig - gross) = orig := by omega
          rw [hsum]
          rcases calcFee_ok.mp hcf with ⟨hn, _⟩ | ⟨f', need', hff', hsp', rfl⟩
          · rw [hn] at hff; cases hff
          · rw [hff] at hff'; cases hff'
            have h2 := hsp'.hle
            rcases hfri with ⟨_, hle2, rfl⟩ | ⟨h0, rfl⟩
            · have : b.remFee - (b.remFee - need + (b.remFee - need' - (b.remFee - need))) = need' := by
                generalize b.remFee = R at *; omega
              rw [this]; exact hsp'.hneed
            · -- the corner that needs monotonicity
              have hm := hmono f.amount b.quote.amount (b.remQuote - orig) (b.remQuote - gross) need' need
                (by omega) hsp'.hneed hsp.hneed
              have : b.remFee - (b.remFee - need + 0) = need' := by
                generalize b.remFee = R at *; omega
              rw [this]; exact hsp'.hneed
      · have himp' : Dec.lt execP bidP = false := by simpa using himp
        have hrp' : rp = ([], b.accumulate size gross (b.remFee - need)) := by
          rcases refundPart_ok.mp hrp with ⟨_, hh⟩ | ⟨hf', _⟩
          · exact hh
          · rw [himp'] at hf'; cases hf'
        have hacc : (b.accumulate size gross (b.remFee - need)).accumulate 0 refund feeRefund =
            b.accumulate size gross (b.remFee - need) := by rw [← hrp2, hrp']
        have hrf : refund = 0 ∧ feeRefund = 0 := by
          simp only [Bid.accumulate, Bid.mk.injEq] at hacc
          omega
        obtain ⟨rfl, rfl⟩ := hrf
        have : b.remFee - (b.remFee - need + 0) = need := by omega
        simp only [Nat.add_zero] at this ⊢
        rw [this]; exact hsp.hneed

/-- after instantiation there is no bid, so the pro-rata invariant holds -/
theorem C09_init (env : Env) (m : InstMsg) (s : State) (r : Response)
    (h : instantiate env m = .ok (s, r)) : feeExact s = true := by
  unfold instantiate at h
  simp only [Res.bind_eq_ok, guardR_eq_ok, validAddrs_ok, Res.pure_eq, Res.ok.injEq, Prod.mk.injEq] at h
  obtain ⟨_, _, _, _, _, _, _, _, _, _, _, _, rfl, _⟩ := h
  rfl

/-- C09 totals: when a bid leaves the book – by a final fill or by a complete cancel, expiry
    or reject – the fee consumed on that step is exactly its whole unspent fee, so over the
    bid's life the fees paid, refunded and returned add up to the fee escrowed -/
theorem C09_final_match {b : Bid} {size q f : Nat} (h : BidEffect b size q f) (hsz : size = b.remBase) :
    f = b.remFee ∧ q = b.remQuote := ⟨(h.hfinal hsz).2, (h.hfinal hsz).1⟩


/-- the monotonicity of the decimal pro-rata function is a theorem (`Dec.feeFor_mono`) -/
theorem feeMono_holds : FeeMono :=
  fun F Q q1 q2 n1 n2 hq h1 h2 => Dec.feeFor_mono F Q q1 q2 n1 n2 hq h1 h2

/-- C09 pro-rata: every accepted request preserves "each fee-bearing open bid holds exactly
    the fee its unspent quote needs" – so fees paid on fills and returned on refunds, rejects
    and cancels are pro-rata, and over a bid's life add up exactly to the fee escrowed -/
theorem C09_prorata (env : Env) (s s' : State) (c : Call) (r : Response)
    (hs : sane s = true) (hfe : feeExact s = true) (hx : ExactStep s c.msg)
    (h : execute env s c = .ok (s', r)) : feeExact s' = true :=
  C09_prorata_partial feeMono_holds env s s' c r hs hfe hx h

end Ats.Proofs
