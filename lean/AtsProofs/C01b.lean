/-
  C01 (continued) — the ledger order by order: the net money flow of an accepted request
  equals the change in the recorded remaining amounts of the orders it names, and an order
  that leaves the book has been paid everything it was owed.
-/
import AtsProofs.Run
namespace Ats.Book
open Ats
variable {V : Type}

/-- sums over two books with distinct keys and the same content agree (whatever the order) -/
theorem sumBy_ext (f : V → Nat) : ∀ (b b' : Book V), Distinct b → Distinct b' →
    (∀ k, b.get? k = b'.get? k) → Book.sumBy f b = Book.sumBy f b' := by
  intro b
  induction b with
  | nil =>
    intro b' _ _ h
    cases b' with
    | nil => rfl
    | cons hd t =>
      obtain ⟨k, v⟩ := hd
      have := h k
      simp [get?_cons] at this
  | cons hd t ih =>
    obtain ⟨k0, v0⟩ := hd
    intro b' hd hd' h
    obtain ⟨hnot, hdt⟩ := hd
    have h0 : b'.get? k0 = some v0 := by rw [← h k0]; simp [get?_cons]
    have hdel := sumBy_del f b' k0 v0 hd' h0
    have hrest : Book.sumBy f t = Book.sumBy f (b'.del k0) := by
      apply ih _ hdt (distinct_del k0 hd')
      intro k
      by_cases hk : k = k0
      · subst hk; rw [get?_del_eq, get?_none_of_distinct_head hnot]
      · rw [get?_del_ne _ _ _ hk, ← h k, get?_cons]
        simp [Ne.symm hk]
    simp only [Book.sumBy]
    omega

/-- value of `f` at a key (0 when absent) -/
def at? (f : V → Nat) (b : Book V) (k : String) : Nat :=
  match b.get? k with
  | some v => f v
  | none => 0

theorem sumBy_split (f : V → Nat) (b : Book V) (k : String) (hd : Distinct b) :
    Book.sumBy f b = Book.sumBy f (b.del k) + at? f b k := by
  unfold at?
  cases h : b.get? k with
  | none => simp [sumBy_del_none f b k h]
  | some v => have := sumBy_del f b k v hd h; simp only; omega

/-- two books that agree everywhere except at `k` differ in their sums by the entries at `k` -/
theorem sumBy_frame (f : V → Nat) (b b' : Book V) (k : String) (hd : Distinct b) (hd' : Distinct b')
    (h : ∀ k2, k2 ≠ k → b'.get? k2 = b.get? k2) :
    Book.sumBy f b' + at? f b k = Book.sumBy f b + at? f b' k := by
  have e : Book.sumBy f (b.del k) = Book.sumBy f (b'.del k) := by
    apply sumBy_ext f _ _ (distinct_del k hd) (distinct_del k hd')
    intro k2
    by_cases hk : k2 = k
    · subst hk; rw [get?_del_eq, get?_del_eq]
    · rw [get?_del_ne _ _ _ hk, get?_del_ne _ _ _ hk, h k2 hk]
  rw [sumBy_split f b k hd, sumBy_split f b' k hd', e]
  omega

theorem sumBy_same (f : V → Nat) (b b' : Book V) (hd : Distinct b) (hd' : Distinct b')
    (h : ∀ k2, b'.get? k2 = b.get? k2) : Book.sumBy f b' = Book.sumBy f b :=
  sumBy_ext f b' b hd' hd h

end Ats.Book

namespace Ats.Proofs
open Ats Ats.Spec

/-- what the book owes, in denomination `d`, to the orders a request names -/
def namedOwed (s : State) (m : ExecMsg) (d : String) : Nat :=
  sumNat ((namedAsks m).map fun k => Book.at? (askOwes d) s.asks k) +
  sumNat ((namedBids m).map fun k => Book.at? (bidOwes d) s.bids k)

theorem memS_single (k x : String) : memS k [x] = false ↔ k ≠ x := memS_singleton_false

theorem sum_named {V : Type} (f : V → Nat) (b b' : Book V) (l : List String)
    (hl : l = [] ∨ ∃ k, l = [k]) (hd : Book.Distinct b) (hd' : Book.Distinct b')
    (h : ∀ k, memS k l = false → b'.get? k = b.get? k) :
    Book.sumBy f b' + sumNat (l.map fun k => Book.at? f b k) =
      Book.sumBy f b + sumNat (l.map fun k => Book.at? f b' k) := by
  rcases hl with rfl | ⟨k, rfl⟩
  · have := Book.sumBy_same f b b' hd hd' (fun k => h k (by simp [memS]))
    simp [sumNat, this]
  · have := Book.sumBy_frame f b b' k hd hd' (fun k2 hk => h k2 ((memS_single _ _).mpr hk))
    simp only [List.map_cons, List.map_nil, sumNat, List.foldr_cons, List.foldr_nil, Nat.add_zero]
    exact this

theorem namedAsks_shape (m : ExecMsg) : namedAsks m = [] ∨ ∃ k, namedAsks m = [k] := by
  cases m <;> simp [namedAsks]

theorem namedBids_shape (m : ExecMsg) : namedBids m = [] ∨ ∃ k, namedBids m = [k] := by
  cases m <;> simp [namedBids]

/-- only the named orders contribute to the change of what the book owes -/
theorem owed_frame (s s' : State) (m : ExecMsg) (d : String) (hs : sane s = true) (hs' : sane s' = true)
    (hf : Frame s m s') : owed s' d + namedOwed s m d = owed s d + namedOwed s' m d := by
  obtain ⟨hda, hdb⟩ := sane_distinct hs
  obtain ⟨hda', hdb'⟩ := sane_distinct hs'
  have hA := sum_named (askOwes d) s.asks s'.asks (namedAsks m) (namedAsks_shape m) hda hda' hf.asks
  have hB := sum_named (bidOwes d) s.bids s'.bids (namedBids m) (namedBids_shape m) hdb hdb' hf.bids
  unfold owed namedOwed
  omega

/-- C01, order by order: for every accepted request and every denomination, what the named
    orders were owed before + what the request brought in = what they are owed afterwards +
    what the request paid out.  For a request naming one order this is that order's own
    ledger; every other order's recorded amounts are untouched (C11_frame). -/
theorem C01_order_ledger (env : Env) (s s' : State) (c : Call) (r : Response) (d : String)
    (hs : sane s = true) (hx : ExactStep s c.msg) (hsender : c.sender ≠ env.contract)
    (hself : NoSelfPay env.contract r.msgs) (h : execute env s c = .ok (s', r)) :
    namedOwed s c.msg d + fundsOf c.funds d + credit env.contract r.msgs env.contract d =
      namedOwed s' c.msg d + debit env.contract r.msgs env.contract d := by
  have h1 := denomOK_iff.mp (C01_step env s s' c r d hs hx hsender hself h)
  have hs' := Sane_step env s s' c r hs hx h
  have h2 := owed_frame s s' c.msg d hs hs' (C11_frame env s s' c r hs h)
  omega

/-- … and zero once it has left the book: if the named orders are gone afterwards, the request
    paid out exactly everything they were still owed plus what it brought in – nothing is
    left stranded and nothing is over-paid -/
theorem C01_closed_paid (env : Env) (s s' : State) (c : Call) (r : Response) (d : String)
    (hs : sane s = true) (hx : ExactStep s c.msg) (hsender : c.sender ≠ env.contract)
    (hself : NoSelfPay env.contract r.msgs) (h : execute env s c = .ok (s', r))
    (hgoneA : ∀ k, memS k (namedAsks c.msg) = true → s'.asks.get? k = none)
    (hgoneB : ∀ k, memS k (namedBids c.msg) = true → s'.bids.get? k = none) :
    debit env.contract r.msgs env.contract d =
      namedOwed s c.msg d + fundsOf c.funds d + credit env.contract r.msgs env.contract d := by
  have h1 := C01_order_ledger env s s' c r d hs hx hsender hself h
  have hz : namedOwed s' c.msg d = 0 := by
    unfold namedOwed
    have e1 : ∀ k, memS k (namedAsks c.msg) = true → Book.at? (askOwes d) s'.asks k = 0 := by
      intro k hk; simp [Book.at?, hgoneA k hk]
    have e2 : ∀ k, memS k (namedBids c.msg) = true → Book.at? (bidOwes d) s'.bids k = 0 := by
      intro k hk; simp [Book.at?, hgoneB k hk]
    cases hm : c.msg <;> simp only [hm, namedAsks, namedBids, List.map_nil, List.map_cons, sumNat, List.foldr_cons, List.foldr_nil, Nat.add_zero] at e1 e2 ⊢
    all_goals simp [memS] at e1 e2
    all_goals simp [e1, e2]
  omega

theorem askHeld_eq (d : String) (s : State) (k : String) :
    askHeld d s k = Book.at? (askOwes d) s.asks k := by
  unfold askHeld Book.at?; cases s.asks.get? k <;> rfl

theorem bidHeld_eq (d : String) (s : State) (k : String) :
    bidHeld d s k = Book.at? (bidOwes d) s.bids k := by
  unfold bidHeld Book.at?; cases s.bids.get? k <;> rfl

/-- C09 (the fee leaves with the fill): on every accepted match, in the bid's quote
    denomination, what the ask and the bid held before + what the request brought in = what
    they hold afterwards + what the contract paid out.  The bid holds its unspent quote and its
    unspent fee; so the fee that leaves it – all that is left when the match closes the bid – is
    paid out (to the fee account, or back to the owner with a price improvement), never dropped. -/
theorem C09_fee_leaves (env : Env) (s s' : State) (c : Call) (r : Response)
    (a b p : String) (sz : Nat) (hm : c.msg = .executeMatch a b p sz)
    (hs : sane s = true) (hx : ExactStep s c.msg) (hsender : c.sender ≠ env.contract)
    (hself : NoSelfPay env.contract r.msgs) (h : execute env s c = .ok (s', r)) :
    C09_feeLeavesOK env.contract s c a b r s' = true := by
  unfold C09_feeLeavesOK
  cases hb : loadBid s b with
  | none => rfl
  | some bb =>
    have h1 := C01_order_ledger env s s' c r bb.quote.denom hs hx hsender hself h
    rw [hm] at h1
    simp only [namedOwed, namedAsks, namedBids, List.map_cons, List.map_nil, sumNat,
      List.foldr_cons, List.foldr_nil, Nat.add_zero] at h1
    simp only [askHeld_eq, bidHeld_eq, beq_iff_eq]
    omega

end Ats.Proofs
