/-
  C17 — Response attributes truthfully report what was settled.
-/
import AtsProofs.C11
import AtsProofs.Attrs
namespace Ats.Proofs
open Ats Ats.Spec

theorem numAttr_cons_eq (k : String) (n : Nat) (t : List (String × String)) :
    numAttr ((k, toString n) :: t) k = some n := by
  simp only [numAttr, attr?, if_true]
  exact numVal_toString n

@[simp] theorem numAttr_cons_repr (k : String) (n : Nat) (t : List (String × String)) :
    numAttr ((k, n.repr) :: t) k = some n := numAttr_cons_eq k n t

theorem numAttr_cons_ne (k k2 v : String) (t : List (String × String)) (h : k ≠ k2) :
    numAttr ((k, v) :: t) k2 = numAttr t k2 := by
  simp [numAttr, attr?, h]

theorem attr_cons_eq (k v : String) (t : List (String × String)) : attr? ((k, v) :: t) k = some v := by
  simp [attr?]

theorem attr_cons_ne (k k2 v : String) (t : List (String × String)) (h : k ≠ k2) :
    attr? ((k, v) :: t) k2 = attr? t k2 := by
  simp [attr?, h]

theorem openFlag_eq (b : Bool) : openFlag b = if b then "true" else "false" := rfl

theorem C17_createAsk (env : Env) (s s' : State) (c : Call) (r : Response)
    (id base quote price : String) (size : Nat)
    (hm : c.msg = .createAsk id base quote price size)
    (h : createAsk env s c.sender c.funds id base quote price size = .ok (s', r)) :
    C17_attrsOK s c r s' = true := by
  obtain ⟨_, _, _, _, _, _, _, _, _, rfl, _, hr⟩ := createAsk_ok h
  unfold C17_attrsOK
  simp only [hm, hr, actionName]
  simp [attr_cons_eq, attr_cons_ne, numAttr_cons_ne, Book.get?_set_eq]

theorem C17_createBid (env : Env) (s s' : State) (c : Call) (r : Response)
    (id base : String) (fee : Option Coin) (price quote : String) (qs size : Nat)
    (hm : c.msg = .createBid id base fee price quote qs size)
    (h : createBid env s c.sender c.funds id base fee price quote qs size = .ok (s', r)) :
    C17_attrsOK s c r s' = true := by
  obtain ⟨_, _, _, _, _, _, _, _, _, _, _, _, _, _, _, _, _, _, _, _, rfl, rfl⟩ := createBid_ok h
  unfold C17_attrsOK
  simp only [hm, actionName]
  simp [attr_cons_eq, attr_cons_ne, numAttr_cons_ne]

theorem C17_approve (env : Env) (s s' : State) (c : Call) (r : Response)
    (id base : String) (size : Nat) (hs : sane s = true)
    (hm : c.msg = .approveAsk id base size)
    (h : approveAsk env s c.sender c.funds id base size = .ok (s', r)) :
    C17_attrsOK s c r s' = true := by
  obtain ⟨a, _, _, ha, _, _, _, _, rfl, rfl⟩ := approveAsk_ok h
  have hid := (sane_ask_facts hs ha).id_eq
  unfold C17_attrsOK
  simp only [hm, actionName]
  simp [attr_cons_eq, attr_cons_ne, numAttr_cons_ne, Book.get?_set_eq, hid]

theorem C17_cancelAsk (env : Env) (s s' : State) (c : Call) (r : Response) (id : String)
    (hs : sane s = true) (hm : c.msg = .cancelAsk id)
    (h : cancelAsk env s c.sender c.funds id = .ok (s', r)) :
    C17_attrsOK s c r s' = true := by
  obtain ⟨a, _, ha, _, _, _, rfl, rfl⟩ := cancelAsk_ok h
  have hid := (sane_ask_facts hs ha).id_eq
  unfold C17_attrsOK
  simp only [hm, actionName]
  simp [attr_cons_eq, attr_cons_ne, hid]

theorem reduce_size (a : Ask) (n : Nat) : (a.reduce n).size = a.size - n := rfl

theorem C17_reverseAsk (env : Env) (s s' : State) (c : Call) (r : Response) (id action : String)
    (cancel : Option Nat) (hs : sane s = true)
    (h : reverseAsk env s c.sender c.funds id action cancel = .ok (s', r)) :
    attr? r.attrs "action" = some action ∧ attr? r.attrs "id" = some id ∧
    (match s.asks.get? id with
      | some a => numAttr r.attrs "reverse_size" ==
          some (a.size - (match s'.asks.get? id with | some a' => a'.size | none => 0))
      | none => false) = true ∧
    attr? r.attrs "order_open" = some (if (s'.asks.get? id).isSome then "true" else "false") := by
  obtain ⟨a, _, _, ha, _, hle, _, _, rfl, rfl⟩ := reverseAsk_ok h
  have hid := (sane_ask_facts hs ha).id_eq
  simp only [ha, hid, putAsk_get_eq, reduce_size, openFlag_eq]
  have hss : a.size - (a.size - cancel.getD a.size) = cancel.getD a.size := Nat.sub_sub_self hle
  by_cases h0 : a.size - cancel.getD a.size = 0
  · have : cancel.getD a.size = a.size := by omega
    simp [attr_cons_eq, attr_cons_ne, numAttr_cons_ne, h0, this]
  · simp [attr_cons_eq, attr_cons_ne, numAttr_cons_ne, h0, reduce_size, hss]

end Ats.Proofs
