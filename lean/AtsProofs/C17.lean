/-
  C17 — Response attributes truthfully report what was settled.
-/
import AtsProofs.C10
import AtsProofs.Attrs
namespace Ats.Proofs
open Ats Ats.Spec

theorem numAttr_cons_eq (k : String) (n : Nat) (t : List (String × String)) :
    numAttr ((k, toString n) :: t) k = some n := by
  simp only [numAttr, attr?, if_true]
  exact numVal_toString n

@[simp] theorem numAttr_cons_repr (k : String) (n : Nat) (t : List (String × String)) :
    numAttr ((k, n.repr) :: t) k = some n := numAttr_cons_eq k n t

theorem numAttr_cons_ne (k k2 v : String) (t : List (String × String)) (h : k ≠ k2) :
    numAttr ((k, v) :: t) k2 = numAttr t k2 := by
  simp [numAttr, attr?, h]

theorem attr_cons_eq (k v : String) (t : List (String × String)) : attr? ((k, v) :: t) k = some v := by
  simp [attr?]

theorem attr_cons_ne (k k2 v : String) (t : List (String × String)) (h : k ≠ k2) :
    attr? ((k, v) :: t) k2 = attr? t k2 := by
  simp [attr?, h]

theorem openFlag_eq (b : Bool) : openFlag b = if b then "true" else "false" := rfl

theorem C17_createAsk (env : Env) (s s' : State) (c : Call) (r : Response)
    (id base quote price : String) (size : Nat)
    (hm : c.msg = .createAsk id base quote price size)
    (h : createAsk env s c.sender c.funds id base quote price size = .ok (s', r)) :
    C17_attrsOK s c r s' = true := by
  obtain ⟨_, _, _, _, _, _, _, _, _, rfl, _, hr⟩ := createAsk_ok h
  unfold C17_attrsOK
  simp only [hm, hr, actionName]
  simp [attr_cons_eq, attr_cons_ne, numAttr_cons_ne, Book.get?_set_eq]

theorem C17_createBid (env : Env) (s s' : State) (c : Call) (r : Response)
    (id base : String) (fee : Option Coin) (price quote : String) (qs size : Nat)
    (hm : c.msg = .createBid id base fee price quote qs size)
    (h : createBid env s c.sender c.funds id base fee price quote qs size = .ok (s', r)) :
    C17_attrsOK s c r s' = true := by
  obtain ⟨_, _, _, _, _, _, _, _, _, _, _, _, _, _, _, _, _, _, _, _, rfl, rfl⟩ := createBid_ok h
  unfold C17_attrsOK
  simp only [hm, actionName]
  simp [attr_cons_eq, attr_cons_ne, numAttr_cons_ne]

theorem C17_approve (env : Env) (s s' : State) (c : Call) (r : Response)
    (id base : String) (size : Nat) (hs : sane s = true)
    (hm : c.msg = .approveAsk id base size)
    (h : approveAsk env s c.sender c.funds id base size = .ok (s', r)) :
    C17_attrsOK s c r s' = true := by
  obtain ⟨a, _, _, ha, _, _, _, _, rfl, rfl⟩ := approveAsk_ok h
  have hid := (sane_ask_facts hs ha).id_eq
  unfold C17_attrsOK
  simp only [hm, actionName]
  simp [attr_cons_eq, attr_cons_ne, numAttr_cons_ne, Book.get?_set_eq, hid]

theorem C17_cancelAsk (env : Env) (s s' : State) (c : Call) (r : Response) (id : String)
    (hs : sane s = true) (hm : c.msg = .cancelAsk id)
    (h : cancelAsk env s c.sender c.funds id = .ok (s', r)) :
    C17_attrsOK s c r s' = true := by
  obtain ⟨a, _, ha, _, _, _, rfl, rfl⟩ := cancelAsk_ok h
  have hid := (sane_ask_facts hs ha).id_eq
  unfold C17_attrsOK
  simp only [hm, actionName]
  simp [attr_cons_eq, attr_cons_ne, hid]

theorem reduce_size (a : Ask) (n : Nat) : (a.reduce n).size = a.size - n := rfl

theorem C17_reverseAsk (env : Env) (s s' : State) (c : Call) (r : Response) (id action : String)
    (cancel : Option Nat) (hs : sane s = true)
    (h : reverseAsk env s c.sender c.funds id action cancel = .ok (s', r)) :
    attr? r.attrs "action" = some action ∧ attr? r.attrs "id" = some id ∧
    askReverseAttrOK s s' id r.attrs = true ∧
    attr? r.attrs "order_open" = some (if (s'.asks.get? id).isSome then "true" else "false") := by
  obtain ⟨a, _, _, ha, _, hle, _, _, rfl, rfl⟩ := reverseAsk_ok h
  have hid := (sane_ask_facts hs ha).id_eq
  simp only [askReverseAttrOK, ha, hid, askSizeAt, putAsk_get_eq, reduce_size, openFlag_eq]
  have hss : a.size - (a.size - cancel.getD a.size) = cancel.getD a.size := Nat.sub_sub_self hle
  by_cases h0 : a.size - cancel.getD a.size = 0
  · have : cancel.getD a.size = a.size := by omega
    simp [attr_cons_eq, attr_cons_ne, numAttr_cons_ne, h0, this]
  · simp [attr_cons_eq, attr_cons_ne, numAttr_cons_ne, h0, reduce_size, hss]

theorem C17_reverseBid (env : Env) (s s' : State) (c : Call) (r : Response) (id action : String)
    (cancel : Option Nat) (hs : sane s = true)
    (h : reverseBid env s c.sender c.funds id action cancel = .ok (s', r)) :
    attr? r.attrs "action" = some action ∧ attr? r.attrs "id" = some id ∧
    bidReverseAttrOK s s' id r.attrs = true ∧
    attr? r.attrs "order_open" = some (if (s'.bids.get? id).isSome then "true" else "false") := by
  obtain ⟨b, p, tq, effQuote, effFee, _, hb, _, _, _, hle, _, _, _, _, _, _, rfl, rfl⟩ := reverseBid_ok h
  have hid := (sane_bid_v3 hs hb).id_eq
  have hg := loadBid_some.mp hb
  simp only [bidReverseAttrOK, bidRemAt, loadBid, hg, hid, putBid_get_eq, openFlag_eq]
  simp only [Bid.remBase] at hle ⊢
  by_cases h0 : b.base.amount - (b.accBase + cancel.getD (b.base.amount - b.accBase)) = 0
  · have : cancel.getD (b.base.amount - b.accBase) = b.base.amount - b.accBase := by omega
    simp only [this] at h0 ⊢
    simp [attr_cons_eq, attr_cons_ne, numAttr_cons_ne, Bid.accumulate, h0]
  · have hss : b.base.amount - b.accBase - (b.base.amount - (b.accBase + cancel.getD (b.base.amount - b.accBase))) =
        cancel.getD (b.base.amount - b.accBase) := by omega
    simp [attr_cons_eq, attr_cons_ne, numAttr_cons_ne, Bid.accumulate, h0, hss]

theorem eqv_refl (p : Dec) : Dec.eqv p p = true := by simp [Dec.eqv]

theorem C17_match (env : Env) (s s' : State) (c : Call) (r : Response)
    (askId bidId price : String) (size : Nat) (hs : sane s = true)
    (hm : c.msg = .executeMatch askId bidId price size)
    (hx : ∀ b, loadBid s bidId = some b → ExactMatch s b price size)
    (h : executeMatch env s c.sender c.funds askId bidId price size = .ok (s', r)) :
    C17_attrsOK s c r s' = true := by
  obtain ⟨a, b, askP, bidP, execP, grossD, gross, askFee, bidFee, m2, m3, rp, _, _, ha, hb, _,
    hap, hbp, hep, hpr, hab, hsa, hsb, hg, hfr, hgu, haf, _, hbf, _, _, hrp, rfl, rfl⟩ := executeMatch_ok h
  have hfa := sane_ask_facts hs ha
  have hfb := sane_bid_v3 hs hb
  obtain ⟨bp', hbp', hbpz, hbpn, _⟩ := priceOK_parse hfb.price_ok
  rw [hbp] at hbp'; cases hbp'
  obtain ⟨ap', hap', hapz, hapn, _⟩ := priceOK_parse hfa.price_ok
  rw [hap] at hap'; cases hap'
  have hepn : execP.neg = false := by
    rcases priceRule_ok.mp hpr with ⟨_, he | he⟩ | ⟨_, _, he⟩
    · exact eqv_pos_neg hapn hapz he
    · exact eqv_pos_neg hbpn hbpz he
    · exact eqv_pos_neg hapn hapz he
  obtain ⟨refund, feeRefund, hma, hrpe, _⟩ :=
    matchAmounts_model (a := a) (by rw [hfb.id_eq]; exact hfb) (hx b hb) hep hbp hepn hbpn hg hfr hgu haf hbf hrp
  have hrp2 : rp.2 = (b.accumulate size gross bidFee).accumulate 0 refund feeRefund := by rw [hrpe]
  have hg' := loadBid_some.mp hb
  unfold C17_attrsOK
  simp only [hm, actionName, ha, hb, hma]
  have hprice : priceAttrEq [("action", "execute"), ("ask_id", askId), ("bid_id", bidId), ("base", b.base.denom),
      ("quote", a.quote), ("price", price), ("size", toString size), ("ask_fee", toString askFee),
      ("bid_fee", toString bidFee)] price = true := by
    simp [priceAttrEq, attr_cons_eq, attr_cons_ne, hep, eqv_refl]
  have e1 : a.size - askSizeAt { s with asks := putAsk s.asks askId (a.reduce size), bids := putBid s.bids bidId rp.2 } askId = size := by
    simp only [askSizeAt, putAsk_get_eq]
    by_cases h0 : (a.reduce size).size = 0
    · simp only [h0, if_true]; simp only [Ask.reduce] at h0; omega
    · simp only [h0, if_false]; simp only [Ask.reduce] at h0 ⊢; omega
  have e2 : b.remBase - bidRemAt { s with asks := putAsk s.asks askId (a.reduce size), bids := putBid s.bids bidId rp.2 } bidId = size := by
    simp only [bidRemAt, loadBid, putBid_get_eq, hrp2, Bid.accumulate, Nat.add_zero]
    simp only [Bid.remBase] at hsb ⊢
    by_cases h0 : b.base.amount - (b.accBase + size) = 0
    · simp only [h0, if_true]; omega
    · simp only [h0, if_false]; omega
  simp only [hprice, e1, e2]
  simp [attr_cons_eq, attr_cons_ne, numAttr_cons_ne]

/-- C17: the attributes of every accepted response are truthful – the action name and the
    id(s); for reversals the reversed size actually returned and whether the order is still on
    the book; for a match the size, the execution price (as a number) and the fees actually
    paid; for create and approve the recorded price, size and class -/
theorem C17_truthful (env : Env) (s s' : State) (c : Call) (r : Response)
    (hs : sane s = true) (hx : ExactStep s c.msg)
    (h : execute env s c = .ok (s', r)) : C17_attrsOK s c r s' = true := by
  unfold execute at h
  simp only [Res.bind_eq_ok, guardR_eq_ok] at h
  obtain ⟨_, _, h⟩ := h
  cases hm : c.msg <;> simp only [hm] at h hx
  case createAsk id base quote price size => exact C17_createAsk env s s' c r id base quote price size hm h
  case createBid id base fee price quote qs size => exact C17_createBid env s s' c r id base fee price quote qs size hm h
  case approveAsk id base size => exact C17_approve env s s' c r id base size hs hm h
  case cancelAsk id => exact C17_cancelAsk env s s' c r id hs hm h
  case executeMatch a b p sz => exact C17_match env s s' c r a b p sz hs hm hx h
  case expireAsk id =>
    obtain ⟨h1, h2, h3, h4⟩ := C17_reverseAsk env s s' c r id _ none hs h
    unfold C17_attrsOK; simp only [hm, actionName, h1, h2, h3, h4]; simp
  case rejectAsk id sz =>
    obtain ⟨h1, h2, h3, h4⟩ := C17_reverseAsk env s s' c r id _ sz hs h
    unfold C17_attrsOK; simp only [hm, actionName, h1, h2, h3, h4]; simp
  case cancelBid id =>
    obtain ⟨h1, h2, h3, h4⟩ := C17_reverseBid env s s' c r id _ none hs h
    unfold C17_attrsOK; simp only [hm, actionName, h1, h2, h3, h4]; simp
  case expireBid id =>
    obtain ⟨h1, h2, h3, h4⟩ := C17_reverseBid env s s' c r id _ none hs h
    unfold C17_attrsOK; simp only [hm, actionName, h1, h2, h3, h4]; simp
  case rejectBid id sz =>
    obtain ⟨h1, h2, h3, h4⟩ := C17_reverseBid env s s' c r id _ sz hs h
    unfold C17_attrsOK; simp only [hm, actionName, h1, h2, h3, h4]; simp
  case modify =>
    obtain ⟨_, _, _, _, _, _, _, _, _, _, _, _, _, hr⟩ := modifyContract_ok h
    unfold C17_attrsOK; simp [hm, actionName, hr, attr_cons_eq]

end Ats.Proofs

namespace Ats.Proofs
open Ats Ats.Spec

/-- the shadow book equals the projection of the real book, key by key -/
structure ShadowRel (sh : Shadow) (s : State) : Prop where
  asks : ∀ k, Book.get? sh.asks k = (s.asks.get? k).map askProj
  bids : ∀ k, Book.get? sh.bids k = (s.bids.get? k).bind bidProj

theorem shadowOK_of_rel {sh : Shadow} {s : State} (h : ShadowRel sh s) : C17_shadowOK sh s = true := by
  unfold C17_shadowOK
  simp only [Bool.and_eq_true, List.all_eq_true, beq_iff_eq]
  exact ⟨fun k _ => h.asks k, fun k _ => h.bids k⟩

theorem shadowRel_init (env : Env) (m : InstMsg) (s : State) (r : Response)
    (h : instantiate env m = .ok (s, r)) : ShadowRel ⟨[], []⟩ s := by
  unfold instantiate at h
  simp only [Res.bind_eq_ok, guardR_eq_ok, validAddrs_ok, Res.pure_eq, Res.ok.injEq, Prod.mk.injEq] at h
  obtain ⟨_, _, _, _, _, _, _, _, _, _, _, _, rfl, _⟩ := h
  exact ⟨fun k => rfl, fun k => rfl⟩

end Ats.Proofs

namespace Ats.Proofs
open Ats Ats.Spec

theorem rel_setAsk {sh : Shadow} {s : State} (k : String) (a : Ask) (h : ShadowRel sh s) :
    ShadowRel (sh.setAsk k (askProj a)) { s with asks := s.asks.set k a } := by
  refine ⟨fun k2 => ?_, h.bids⟩
  simp only [Shadow.setAsk]
  by_cases hk : k2 = k
  · subst hk; rw [Book.get?_set_eq, Book.get?_set_eq]; rfl
  · rw [Book.get?_set_ne _ _ _ _ hk, Book.get?_set_ne _ _ _ _ hk]; exact h.asks k2

theorem rel_delAsk {sh : Shadow} {s : State} (k : String) (h : ShadowRel sh s) :
    ShadowRel { sh with asks := Book.del sh.asks k } { s with asks := s.asks.del k } := by
  refine ⟨fun k2 => ?_, h.bids⟩
  by_cases hk : k2 = k
  · subst hk; simp only [Book.get?_del_eq]; rfl
  · simp only [Book.get?_del_ne _ _ _ hk]; exact h.asks k2

theorem rel_setBid {sh : Shadow} {s : State} (k : String) (b : Bid) (h : ShadowRel sh s) :
    ShadowRel (sh.setBid k b.remBase) { s with bids := s.bids.set k (.v3 b) } := by
  refine ⟨h.asks, fun k2 => ?_⟩
  simp only [Shadow.setBid]
  by_cases hk : k2 = k
  · subst hk; rw [Book.get?_set_eq, Book.get?_set_eq]; rfl
  · rw [Book.get?_set_ne _ _ _ _ hk, Book.get?_set_ne _ _ _ _ hk]; exact h.bids k2

theorem rel_delBid {sh : Shadow} {s : State} (k : String) (h : ShadowRel sh s) :
    ShadowRel { sh with bids := Book.del sh.bids k } { s with bids := s.bids.del k } := by
  refine ⟨h.asks, fun k2 => ?_⟩
  by_cases hk : k2 = k
  · subst hk; simp only [Book.get?_del_eq]; rfl
  · simp only [Book.get?_del_ne _ _ _ hk]; exact h.bids k2

theorem classOfJson_basic : classOfJson (classJson .basic) = .basic := by decide
theorem classOfJson_pending : classOfJson (classJson .pending) = .pending := by decide

theorem C17_shadow_createAsk (env : Env) (s s' : State) (c : Call) (r : Response) (sh : Shadow)
    (id base quote price : String) (size : Nat) (hrel : ShadowRel sh s)
    (h : createAsk env s c.sender c.funds id base quote price size = .ok (s', r)) :
    ShadowRel (shadowStep sh r.attrs) s' := by
  obtain ⟨_, _, _, _, _, _, _, _, _, rfl, _, hr⟩ := createAsk_ok h
  rw [hr]
  have : shadowStep sh [("action", "create_ask"), ("id", id),
      ("class", classJson (if (base != s.info.baseDenom) = true then AskClass.pending else AskClass.basic)),
      ("target_base", s.info.baseDenom), ("base", base), ("quote", quote), ("price", price),
      ("size", toString size)] =
      sh.setAsk id (askProj ⟨id, c.sender, if (base != s.info.baseDenom) = true then .pending else .basic,
        base, quote, price, size⟩) := by
    unfold shadowStep
    simp only [attr_cons_eq, attr_cons_ne, numAttr_cons_ne, numAttr_cons_eq, ne_eq, String.reduceEq,
      not_false_eq_true, not_true_eq_false, Option.getD_some, askProj]
    by_cases hb : (base != s.info.baseDenom) = true <;> simp [hb, classOfJson_basic, classOfJson_pending, shadowCls]
  rw [this]
  exact rel_setAsk id _ hrel

end Ats.Proofs

namespace Ats.Proofs
open Ats Ats.Spec

theorem C17_shadow_createBid (env : Env) (s s' : State) (c : Call) (r : Response) (sh : Shadow)
    (id base : String) (fee : Option Coin) (price quote : String) (qs size : Nat) (hrel : ShadowRel sh s)
    (h : createBid env s c.sender c.funds id base fee price quote qs size = .ok (s', r)) :
    ShadowRel (shadowStep sh r.attrs) s' := by
  obtain ⟨_, _, _, _, _, _, _, _, _, _, _, _, _, _, _, _, _, _, _, _, rfl, rfl⟩ := createBid_ok h
  have : shadowStep sh [("action", "create_bid"), ("base", base), ("id", id), ("price", price),
      ("quote", quote), ("quote_size", toString qs), ("size", toString size)] = sh.setBid id size := by
    unfold shadowStep
    simp only [attr_cons_eq, attr_cons_ne, numAttr_cons_ne, numAttr_cons_eq, ne_eq, String.reduceEq,
      not_false_eq_true, not_true_eq_false, Option.getD_some]
  simp only [this]
  have hb := rel_setBid id ⟨⟨base, size⟩, 0, 0, 0, fee, id, c.sender, price, ⟨quote, qs⟩⟩ hrel
  simpa [Bid.remBase] using hb

theorem C17_shadow_approve (env : Env) (s s' : State) (c : Call) (r : Response) (sh : Shadow)
    (id base : String) (size : Nat) (hs : sane s = true) (hrel : ShadowRel sh s)
    (h : approveAsk env s c.sender c.funds id base size = .ok (s', r)) :
    ShadowRel (shadowStep sh r.attrs) s' := by
  obtain ⟨a, _, _, ha, hp, _, _, _, rfl, rfl⟩ := approveAsk_ok h
  have hid := (sane_ask_facts hs ha).id_eq
  have hsh : Book.get? sh.asks id = some (a.size, .pending) := by
    rw [hrel.asks id, ha]; simp [askProj, shadowCls, hp]
  have : shadowStep sh [("action", "approve_ask"), ("id", a.id),
      ("class", classJson (.ready c.sender ⟨base, size⟩)), ("quote", a.quote), ("price", a.price),
      ("size", toString a.size)] = sh.setAsk id (a.size, .ready) := by
    unfold shadowStep
    simp only [attr_cons_eq, attr_cons_ne, numAttr_cons_ne, numAttr_cons_eq, ne_eq, String.reduceEq,
      not_false_eq_true, not_true_eq_false, Option.getD_some, hid, hsh]
  simp only [this]
  have := rel_setAsk id { a with cls := .ready c.sender ⟨base, size⟩ } hrel
  simpa [askProj, shadowCls] using this

theorem C17_shadow_cancelAsk (env : Env) (s s' : State) (c : Call) (r : Response) (sh : Shadow)
    (id : String) (hs : sane s = true) (hrel : ShadowRel sh s)
    (h : cancelAsk env s c.sender c.funds id = .ok (s', r)) :
    ShadowRel (shadowStep sh r.attrs) s' := by
  obtain ⟨a, _, ha, _, _, _, rfl, rfl⟩ := cancelAsk_ok h
  have hid := (sane_ask_facts hs ha).id_eq
  have : shadowStep sh [("action", "cancel_ask"), ("id", a.id)] = { sh with asks := Book.del sh.asks id } := by
    unfold shadowStep
    simp only [attr_cons_eq, attr_cons_ne, ne_eq, String.reduceEq, not_false_eq_true, Option.getD_some, hid]
  simp only [this, hid]
  exact rel_delAsk id hrel

theorem C17_shadow_reverseAsk (env : Env) (s s' : State) (c : Call) (r : Response) (sh : Shadow)
    (id action : String) (cancel : Option Nat) (hs : sane s = true) (hrel : ShadowRel sh s)
    (hact : action = "expire_ask" ∨ action = "reject_ask")
    (h : reverseAsk env s c.sender c.funds id action cancel = .ok (s', r)) :
    ShadowRel (shadowStep sh r.attrs) s' := by
  obtain ⟨a, _, _, ha, _, hle, _, _, rfl, rfl⟩ := reverseAsk_ok h
  have hid := (sane_ask_facts hs ha).id_eq
  have hsh : Book.get? sh.asks id = some (a.size, shadowCls a.cls) := by
    rw [hrel.asks id, ha]; rfl
  have hcls : shadowCls (a.reduce (cancel.getD a.size)).cls = shadowCls a.cls := by
    unfold Ask.reduce; cases a.cls <;> rfl
  have : shadowStep sh [("action", action), ("id", id), ("reverse_size", toString (cancel.getD a.size)),
      ("order_open", openFlag ((a.reduce (cancel.getD a.size)).size != 0))] =
      (if (a.reduce (cancel.getD a.size)).size = 0 then { sh with asks := Book.del sh.asks id }
       else sh.setAsk id (askProj (a.reduce (cancel.getD a.size)))) := by
    unfold shadowStep
    rcases hact with rfl | rfl <;>
    · simp only [attr_cons_eq, attr_cons_ne, numAttr_cons_ne, numAttr_cons_eq, ne_eq, String.reduceEq,
        not_false_eq_true, not_true_eq_false, Option.getD_some, hsh, openFlag_eq, numAttr, attr?]
      by_cases h0 : (a.reduce (cancel.getD a.size)).size = 0
      · simp [h0, hsh]
      · simp [h0, hsh, askProj, hcls, reduce_size]
  simp only [this, hid]
  unfold putAsk
  by_cases h0 : (a.reduce (cancel.getD a.size)).size = 0
  · simp only [h0, if_true, beq_self_eq_true]; exact rel_delAsk id hrel
  · simp only [h0, if_false, beq_iff_eq]; exact rel_setAsk id _ hrel

end Ats.Proofs

namespace Ats.Proofs
open Ats Ats.Spec

theorem C17_shadow_reverseBid (env : Env) (s s' : State) (c : Call) (r : Response) (sh : Shadow)
    (id action : String) (cancel : Option Nat) (hs : sane s = true) (hrel : ShadowRel sh s)
    (hact : action = "cancel_bid" ∨ action = "expire_bid" ∨ action = "reject_bid")
    (h : reverseBid env s c.sender c.funds id action cancel = .ok (s', r)) :
    ShadowRel (shadowStep sh r.attrs) s' := by
  obtain ⟨b, p, tq, effQuote, effFee, _, hb, _, _, _, hle, _, _, _, _, _, _, rfl, rfl⟩ := reverseBid_ok h
  have hid := (sane_bid_v3 hs hb).id_eq
  have hsh : Book.get? sh.bids id = some b.remBase := by
    rw [hrel.bids id, loadBid_some.mp hb]; rfl
  let b' := b.accumulate (cancel.getD b.remBase) effQuote (effFee.getD 0)
  have hrem : b'.remBase = b.remBase - cancel.getD b.remBase := by
    simp [b', Bid.accumulate, Bid.remBase, Nat.sub_sub]
  have hkeep : (b'.base.amount - b'.accBase = 0) ↔ (b.remBase - cancel.getD b.remBase = 0) := by
    rw [← hrem]; rfl
  have : shadowStep sh [("action", action), ("id", id), ("reverse_size", toString (cancel.getD b.remBase)),
      ("order_open", openFlag (b.base.amount - (b.accBase + cancel.getD b.remBase) != 0))] =
      (if b.remBase - cancel.getD b.remBase = 0 then { sh with bids := Book.del sh.bids id }
       else sh.setBid id (b.remBase - cancel.getD b.remBase)) := by
    have e : b.base.amount - (b.accBase + cancel.getD b.remBase) = b.remBase - cancel.getD b.remBase := by
      simp [Bid.remBase, Nat.sub_sub]
    unfold shadowStep
    rcases hact with rfl | rfl | rfl <;>
    · simp only [attr_cons_eq, attr_cons_ne, numAttr_cons_ne, numAttr_cons_eq, ne_eq, String.reduceEq,
        not_false_eq_true, not_true_eq_false, Option.getD_some, hsh, openFlag_eq, numAttr, attr?, e]
      by_cases h0 : b.remBase - cancel.getD b.remBase = 0
      · simp [h0, hsh]
      · simp [h0, hsh]
  simp only [this, hid]
  unfold putBid
  by_cases h0 : b.remBase - cancel.getD b.remBase = 0
  · have : b'.base.amount - b'.accBase = 0 := hkeep.mpr h0
    simp only [b'] at this
    simp only [h0, this, if_true, beq_self_eq_true]; exact rel_delBid id hrel
  · have hne : ¬ (b'.base.amount - b'.accBase = 0) := fun hx => h0 (hkeep.mp hx)
    simp only [b'] at hne
    simp only [h0, hne, if_false, beq_iff_eq]
    have := rel_setBid id b' hrel
    rw [hrem] at this
    exact this

theorem C17_shadow_match (env : Env) (s s' : State) (c : Call) (r : Response) (sh : Shadow)
    (askId bidId price : String) (size : Nat) (hs : sane s = true) (hrel : ShadowRel sh s)
    (hx : ∀ b, loadBid s bidId = some b → ExactMatch s b price size)
    (h : executeMatch env s c.sender c.funds askId bidId price size = .ok (s', r)) :
    ShadowRel (shadowStep sh r.attrs) s' := by
  obtain ⟨a, b, askP, bidP, execP, grossD, gross, askFee, bidFee, m2, m3, rp, _, _, ha, hb, _,
    hap, hbp, hep, hpr, hab, hsa, hsb, hg, hfr, hgu, haf, _, hbf, _, _, hrp, rfl, rfl⟩ := executeMatch_ok h
  have hfa := sane_ask_facts hs ha
  have hfb := sane_bid_v3 hs hb
  obtain ⟨bp', hbp', hbpz, hbpn, _⟩ := priceOK_parse hfb.price_ok
  rw [hbp] at hbp'; cases hbp'
  obtain ⟨ap', hap', hapz, hapn, _⟩ := priceOK_parse hfa.price_ok
  rw [hap] at hap'; cases hap'
  have hepn : execP.neg = false := by
    rcases priceRule_ok.mp hpr with ⟨_, he | he⟩ | ⟨_, _, he⟩
    · exact eqv_pos_neg hapn hapz he
    · exact eqv_pos_neg hbpn hbpz he
    · exact eqv_pos_neg hapn hapz he
  obtain ⟨refund, feeRefund, _, hrpe, _⟩ :=
    matchAmounts_model (a := a) (by rw [hfb.id_eq]; exact hfb) (hx b hb) hep hbp hepn hbpn hg hfr hgu haf hbf hrp
  have hrp2 : rp.2 = (b.accumulate size gross bidFee).accumulate 0 refund feeRefund := by rw [hrpe]
  have hsha : Book.get? sh.asks askId = some (a.size, shadowCls a.cls) := by
    rw [hrel.asks askId, ha]; rfl
  have hshb : Book.get? sh.bids bidId = some b.remBase := by
    rw [hrel.bids bidId, loadBid_some.mp hb]; rfl
  have hcls : shadowCls (a.reduce size).cls = shadowCls a.cls := by
    unfold Ask.reduce; cases a.cls <;> rfl
  have hremb : rp.2.remBase = b.remBase - size := by
    rw [hrp2]; simp [Bid.accumulate, Bid.remBase, Nat.sub_sub]
  -- the shadow after the ask part
  let sh1 : Shadow := if a.size - size = 0 then { sh with asks := Book.del sh.asks askId }
                      else sh.setAsk askId (a.size - size, shadowCls a.cls)
  have hsh1b : Book.get? sh1.bids bidId = some b.remBase := by
    simp only [sh1]; split <;> simpa [Shadow.setAsk] using hshb
  have : shadowStep sh [("action", "execute"), ("ask_id", askId), ("bid_id", bidId), ("base", b.base.denom),
      ("quote", a.quote), ("price", price), ("size", toString size), ("ask_fee", toString askFee),
      ("bid_fee", toString bidFee)] =
      (if b.remBase - size = 0 then { sh1 with bids := Book.del sh1.bids bidId }
       else sh1.setBid bidId (b.remBase - size)) := by
    unfold shadowStep
    simp only [attr_cons_eq, attr_cons_ne, numAttr_cons_ne, numAttr_cons_eq, ne_eq, String.reduceEq,
      not_false_eq_true, not_true_eq_false, Option.getD_some, hsha]
    by_cases h0 : a.size - size = 0
    · simp only [sh1, h0, if_true] at hsh1b ⊢
      simp only [hsh1b]
    · simp only [sh1, h0, if_false] at hsh1b ⊢
      simp only [hsh1b]
  simp only [this]
  -- relate step by step
  have hrel1 : ShadowRel sh1 { s with asks := putAsk s.asks askId (a.reduce size) } := by
    simp only [sh1]
    unfold putAsk
    by_cases h0 : a.size - size = 0
    · have : (a.reduce size).size = 0 := h0
      simp only [h0, this, if_true, beq_self_eq_true]; exact rel_delAsk askId hrel
    · have : ¬ (a.reduce size).size = 0 := h0
      simp only [h0, this, if_false, beq_iff_eq]
      have := rel_setAsk askId (a.reduce size) hrel
      simpa [askProj, hcls, reduce_size] using this
  unfold putBid
  by_cases h0 : b.remBase - size = 0
  · have : rp.2.base.amount - rp.2.accBase = 0 := by rw [← hremb] at h0; exact h0
    simp only [h0, this, if_true, beq_self_eq_true]
    exact rel_delBid bidId hrel1
  · have hne : ¬ (rp.2.base.amount - rp.2.accBase = 0) := by rw [← hremb] at h0; exact h0
    simp only [h0, hne, if_false, beq_iff_eq]
    have := rel_setBid bidId rp.2 hrel1
    rw [hremb] at this
    exact this

/-- C17 shadow book: an off-chain record of which orders are open, their remaining sizes and
    approval state, updated from the response attributes alone, is after every accepted request
    again the projection of the on-chain book -/
theorem C17_shadow_step (env : Env) (s s' : State) (c : Call) (r : Response) (sh : Shadow)
    (hs : sane s = true) (hx : ExactStep s c.msg) (hrel : ShadowRel sh s)
    (h : execute env s c = .ok (s', r)) : ShadowRel (shadowStep sh r.attrs) s' := by
  unfold execute at h
  simp only [Res.bind_eq_ok, guardR_eq_ok] at h
  obtain ⟨_, _, h⟩ := h
  cases hm : c.msg <;> simp only [hm] at h hx
  case createAsk id base quote price size => exact C17_shadow_createAsk env s s' c r sh id base quote price size hrel h
  case createBid id base fee price quote qs size =>
    exact C17_shadow_createBid env s s' c r sh id base fee price quote qs size hrel h
  case approveAsk id base size => exact C17_shadow_approve env s s' c r sh id base size hs hrel h
  case cancelAsk id => exact C17_shadow_cancelAsk env s s' c r sh id hs hrel h
  case executeMatch a b p sz => exact C17_shadow_match env s s' c r sh a b p sz hs hrel hx h
  case expireAsk id => exact C17_shadow_reverseAsk env s s' c r sh id _ none hs hrel (Or.inl rfl) h
  case rejectAsk id sz => exact C17_shadow_reverseAsk env s s' c r sh id _ sz hs hrel (Or.inr rfl) h
  case cancelBid id => exact C17_shadow_reverseBid env s s' c r sh id _ none hs hrel (Or.inl rfl) h
  case expireBid id => exact C17_shadow_reverseBid env s s' c r sh id _ none hs hrel (Or.inr (Or.inl rfl)) h
  case rejectBid id sz => exact C17_shadow_reverseBid env s s' c r sh id _ sz hs hrel (Or.inr (Or.inr rfl)) h
  case modify =>
    obtain ⟨_, _, _, _, _, _, _, _, _, _, _, _, rfl, rfl⟩ := modifyContract_ok h
    have : shadowStep sh [("action", "modify_contract")] = sh := by
      unfold shadowStep
      simp [attr_cons_eq]
    rw [this]
    exact ⟨hrel.asks, hrel.bids⟩

/-- … and so along every history from instantiation (the shadow starts empty) -/
theorem C17_shadow_history (s : State) (L : Ledger) (sh : Shadow) (hist : List (Env × Call))
    (hs : sane s = true) (hrel : ShadowRel sh s) (hg : GoodHist s hist) :
    ∃ sh', ShadowRel sh' (runHist s L hist).1 := by
  induction hist generalizing s L sh with
  | nil => exact ⟨sh, hrel⟩
  | cons ec t ih =>
    obtain ⟨env, c⟩ := ec
    unfold runHist
    unfold GoodHist at hg
    cases hx : execute env s c with
    | err e =>
      simp only [hx] at hg ⊢
      exact ih s L sh hs hrel hg
    | ok p =>
      obtain ⟨s', r⟩ := p
      simp only [hx] at hg ⊢
      obtain ⟨⟨hex, _, _⟩, hgt⟩ := hg
      exact ih s' _ (shadowStep sh r.attrs) (Sane_step env s s' c r hs hex hx)
        (C17_shadow_step env s s' c r sh hs hex hrel hx) hgt

end Ats.Proofs

namespace Ats.Proofs
open Ats Ats.Spec

/-- C17, fees of a match: the `ask_fee` and `bid_fee` a response reports were really paid, out
    of the contract, to the configured fee accounts (no invariant and no magnitude hypothesis:
    read off the accepted handler) -/
theorem C17_fees_paid (env : Env) (s s' : State) (c : Call) (r : Response)
    (askId bidId price : String) (size : Nat)
    (hm : c.msg = .executeMatch askId bidId price size)
    (h : execute env s c = .ok (s', r)) : C17_feesPaidOK env.contract s bidId r = true := by
  unfold execute at h
  simp only [Res.bind_eq_ok, guardR_eq_ok, hm] at h
  obtain ⟨_, _, h⟩ := h
  obtain ⟨a, b, askP, bidP, execP, grossD, gross, askFee, bidFee, m2, m3, rp, _, _, _, hb, _, _, _, _, _, _, _, _,
    _, _, _, haf, _, _, hm2, _, _, _, rfl⟩ := executeMatch_ok h
  unfold C17_feesPaidOK
  have ha1 : numAttr [("action", "execute"), ("ask_id", askId), ("bid_id", bidId), ("base", b.base.denom),
      ("quote", a.quote), ("price", price), ("size", toString size), ("ask_fee", toString askFee),
      ("bid_fee", toString bidFee)] "ask_fee" = some askFee := by
    simp only [numAttr_cons_ne, numAttr_cons_eq, ne_eq, String.reduceEq, not_false_eq_true]
  have ha2 : numAttr [("action", "execute"), ("ask_id", askId), ("bid_id", bidId), ("base", b.base.denom),
      ("quote", a.quote), ("price", price), ("size", toString size), ("ask_fee", toString askFee),
      ("bid_fee", toString bidFee)] "bid_fee" = some bidFee := by
    simp only [numAttr_cons_ne, numAttr_cons_eq, ne_eq, String.reduceEq, not_false_eq_true]
  simp only [hb, ha1, ha2, Bool.and_eq_true, Bool.or_eq_true, beq_iff_eq]
  constructor
  · by_cases h0 : askFee = 0
    · exact Or.inl h0
    · right
      cases hfi : s.info.askFee with
      | none =>
        -- no ask fee configured: the fee is 0
        exfalso
        unfold AskFeeIs at haf
        simp [hfi] at haf
        exact h0 haf
      | some fi =>
        simp only [decide_eq_true_eq, credit_append, credit_askFeeMsgList, hfi, Option.map_some,
          Option.getD_some, Option.isSome_some, and_self, if_true]
        omega
  · by_cases h0 : bidFee = 0
    · exact Or.inl h0
    · right
      rcases bidFeeMsgs_ok.mp hm2 with ⟨hz, _⟩ | ⟨_, fi, hfi, rfl⟩
      · exact absurd hz h0
      · simp only [hfi, decide_eq_true_eq, credit_append, credit_payMsgR, and_self, if_true]
        omega

end Ats.Proofs
