/-
  C04 — Cancel / expire / reject return exactly the cancelled escrow to its depositor.
-/
import AtsProofs.C11
import AtsProofs.Pay
import AtsProofs.InvDec
namespace Ats.Proofs
open Ats Ats.Spec

theorem askAfterReverse_eq (a : Ask) (c : Nat) :
    askAfterReverse a c = if (a.reduce c).size = 0 then none else some (a.reduce c) := rfl

theorem credit_approverMsgs (env : Env) (cls : AskClass) (f : Coin → Nat) (x d : String) :
    credit env.contract (approverMsgs env cls f) x d =
      (match cls with
       | .ready ap c => if ap = x ∧ c.denom = d then f c else 0
       | _ => 0) := by
  unfold approverMsgs
  cases cls <;> simp

theorem fromContract_approverMsgs (env : Env) (cls : AskClass) (f : Coin → Nat) :
    FromContract env.contract (approverMsgs env cls f) := by
  unfold approverMsgs
  cases cls
  · exact fromContract_nil _
  · exact fromContract_nil _
  · exact fromContract_payMsg _ _ _ _ (fromContract_nil _)

theorem expCredit_askReversePays (a : Ask) (c : Nat) (x d : String) :
    expCredit (askReversePays a c) x d =
      (if a.owner = x ∧ a.base = d then c else 0) +
      (match a.cls with
       | .ready ap conv => if ap = x ∧ conv.denom = d then c else 0
       | _ => 0) := by
  unfold askReversePays
  cases a.cls <;> simp [expCredit_cons]

/-- C04 for expire / reject of an ask: exactly the reversed size of the ask's base goes back
    to its owner and, for an approved convertible ask, the same amount of base denomination to
    its approver; nobody else is paid; the ask shrinks by exactly that and leaves the book at
    zero; a requested size is a positive lot multiple not above the remainder -/
theorem C04_reverse_ask (env : Env) (s s' : State) (c : Call) (r : Response) (id : String)
    (requested : Option Nat) (hs : sane s = true)
    (hm : c.msg = .expireAsk id ∧ requested = none ∨ c.msg = .rejectAsk id requested)
    (h : execute env s c = .ok (s', r)) :
    C04_askOK env.contract s id requested r s' = true := by
  unfold execute at h
  simp only [Res.bind_eq_ok, guardR_eq_ok] at h
  obtain ⟨_, hv, h⟩ := h
  have h' : ∃ action, reverseAsk env s c.sender c.funds id action requested = .ok (s', r) := by
    rcases hm with ⟨hm, rfl⟩ | hm <;> simp only [hm] at h <;> exact ⟨_, h⟩
  obtain ⟨action, h'⟩ := h'
  obtain ⟨a, _, _, ha, hinc, hle, _, _, rfl, rfl⟩ := reverseAsk_ok h'
  have hid := (sane_ask_facts hs ha).id_eq
  have hreq : reqSizeOK requested s.info.increment = true := by
    unfold reqSizeOK
    cases hr : requested with
    | none => rfl
    | some n =>
      rcases hm with ⟨_, hn⟩ | hm
      · rw [hr] at hn; cases hn
      · simp only [hm, hr, ExecMsg.valid, Bool.and_eq_true, decide_eq_true_eq] at hv
        rw [hr] at hinc
        simp at hinc
        simp [hv.2, hinc]
  unfold C04_askOK
  simp only [ha, hreq, Bool.and_eq_true, decide_eq_true_eq, Bool.true_and, Bool.and_true]
  refine ⟨⟨hle, ?_⟩, ?_⟩
  · apply paysExactly_of
    · exact fromContract_payMsg _ _ _ _ (fromContract_approverMsgs _ _ _)
    · intro x d
      rw [credit_payMsg, credit_approverMsgs, expCredit_askReversePays]
      unfold Ask.reduce
      cases a.cls <;> simp
  · simp only [hid, putAsk_get_eq, askAfterReverse_eq, beq_iff_eq]

/-- C04 for the owner's cancel of an ask: the whole remaining escrow goes back – the ask's size
    to its owner and the approver-supplied base (equal to the size) to its approver -/
theorem C04_cancel_ask (env : Env) (s s' : State) (c : Call) (r : Response) (id : String)
    (hs : sane s = true) (hm : c.msg = .cancelAsk id)
    (h : execute env s c = .ok (s', r)) :
    C04_askOK env.contract s id none r s' = true := by
  unfold execute at h
  simp only [Res.bind_eq_ok, guardR_eq_ok, hm] at h
  obtain ⟨_, _, h⟩ := h
  obtain ⟨a, _, ha, _, _, _, rfl, rfl⟩ := cancelAsk_ok h
  have hf := sane_ask_facts hs ha
  unfold C04_askOK
  simp only [ha, Option.getD_none, Bool.and_eq_true, decide_eq_true_eq, Nat.le_refl, reqSizeOK, true_and]
  refine ⟨?_, ?_⟩
  · apply paysExactly_of
    · exact fromContract_payMsg _ _ _ _ (fromContract_approverMsgs _ _ _)
    · intro x d
      rw [credit_payMsg, credit_approverMsgs, expCredit_askReversePays]
      have hc := hf.cls_ok
      cases hcl : a.cls <;> simp only [hcl] at hc ⊢
      rw [hc.2.2.2]
  · simp [hf.id_eq, Book.get?_del_eq, askAfterReverse, Ask.reduce, reqSizeOK]

theorem feeBack_of_cancelFee {b : Bid} {q : Nat} {x : Option Nat} (h : cancelFee b q = .ok x) :
    feeBack b q = some (x.getD 0) := by
  unfold feeBack
  rcases cancelFee_ok.mp h with ⟨hn, rfl⟩ | ⟨f, need, hf, hsp, rfl⟩
  · simp [hn]
  · by_cases hz : b.remQuote - q = 0
    · have hneed := hsp.hneed
      rw [hz] at hneed
      have h0 : need = 0 := Dec.feeFor_zero_val hneed
      simp [hf, hz, h0]
    · simp [hf, hz, hsp.hneed, hsp.hle]

theorem bidAfterReverse_eq (b : Bid) (c cq fb : Nat) :
    bidAfterReverse b c cq fb =
      if (b.accumulate c cq fb).base.amount - (b.accumulate c cq fb).accBase = 0 then none
      else some (.v3 (b.accumulate c cq fb)) := by
  unfold bidAfterReverse Bid.accumulate Bid.remBase
  simp only [Nat.sub_sub]

/-- C04 for bids (cancel by the owner, expire / reject by an executor): exactly price × the
    reversed size of quote, plus the part of the escrowed fee no longer needed for what remains,
    goes back to the bid's owner and to nobody else; the bid's remaining amounts shrink by
    exactly what was returned and a bid reduced to zero leaves the book; a requested size is a
    positive lot multiple not above the remainder.  No magnitude hypothesis: on a sane book the
    products involved are exact. -/
theorem C04_reverse_bid (env : Env) (s s' : State) (c : Call) (r : Response) (id : String)
    (requested : Option Nat) (hs : sane s = true)
    (hm : (c.msg = .cancelBid id ∨ c.msg = .expireBid id) ∧ requested = none ∨
          c.msg = .rejectBid id requested)
    (h : execute env s c = .ok (s', r)) :
    C04_bidOK env.contract s id requested r s' = true := by
  unfold execute at h
  simp only [Res.bind_eq_ok, guardR_eq_ok] at h
  obtain ⟨_, hv, h⟩ := h
  have h' : ∃ action, reverseBid env s c.sender c.funds id action requested = .ok (s', r) := by
    rcases hm with ⟨hm | hm, rfl⟩ | hm <;> simp only [hm] at h <;> exact ⟨_, h⟩
  obtain ⟨action, h'⟩ := h'
  obtain ⟨b, p, tq, effQuote, effFee, _, hb, _, _, hinc, hle, hpp, htq, hfr, hu, hcf, _, rfl, rfl⟩ :=
    reverseBid_ok h'
  have hf := sane_bid_v3 hs hb
  have hi := sane_info hs
  have hreq : reqSizeOK requested s.info.increment = true := by
    unfold reqSizeOK
    cases hr : requested with
    | none => rfl
    | some n =>
      rcases hm with ⟨_, hn⟩ | hm
      · rw [hr] at hn; cases hn
      · simp only [hm, hr, ExecMsg.valid, Bool.and_eq_true, decide_eq_true_eq] at hv
        rw [hr] at hinc
        simp at hinc
        simp [hv.2, hinc]
  -- the reversed quote is exactly price × size
  have hrem_lim : b.remBase < LIM := by
    have := hf.base_lim; unfold Bid.remBase; omega
  have hw : wholeProduct p (requested.getD b.remBase) = true := by
    cases hr : requested with
    | none => exact (whole_rem hf.qinv hpp).1
    | some n =>
      rw [hr] at hinc
      simp at hinc
      exact whole_lot hi hf.price_ok hpp hinc
  have hex : exactMul p (requested.getD b.remBase) = true :=
    exactMul_of_whole (Nat.lt_of_le_of_lt hle hrem_lim) hw
  obtain ⟨_, _, _, hpn, _⟩ := priceOK_parse hf.price_ok
  have hpn' : p.neg = false := by
    obtain ⟨p', hp', _, hn, _⟩ := priceOK_parse hf.price_ok
    rw [hpp] at hp'; cases hp'; exact hn
  obtain ⟨_, hg⟩ := Dec.total_exact (Dec.parse_scale hpp) hpn' hex htq hfr hu
  subst hg
  unfold C04_bidOK
  simp only [hb, hreq, hpp, hw, feeBack_of_cancelFee hcf, Bool.and_eq_true, decide_eq_true_eq,
    Bool.true_and, true_and]
  refine ⟨⟨hle, trivial⟩, ?_, ?_⟩
  · apply paysExactly_of
    · exact fromContract_payMsg _ _ _ _ (fromContract_payIfPos _ _ _ _)
    · intro x d
      rw [credit_payMsg, credit_payIfPos]
      simp [expCredit_cons]
  · simp only [hf.id_eq, putBid_get_eq, bidAfterReverse_eq, beq_iff_eq]

end Ats.Proofs
