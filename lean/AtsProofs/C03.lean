/-
  C03 — Match eligibility and limit-price protection.
-/
import AtsProofs.Inv
import AtsProofs.DecProgress
import AtsProofs.DecLemmas
namespace Ats.Proofs
open Ats Ats.Spec

theorem Dec.lt_iff {a b : Dec} : Dec.lt a b = true ↔ Dec.num a b < Dec.num b a := by
  simp [Dec.lt]
theorem Dec.le_iff {a b : Dec} : Dec.le a b = true ↔ Dec.num a b ≤ Dec.num b a := by
  simp [Dec.le]
theorem Dec.eqv_iff {a b : Dec} : Dec.eqv a b = true ↔ Dec.num a b = Dec.num b a := by
  simp [Dec.eqv]

theorem reduce_cls_pending {a : Ask} {n : Nat} : (a.reduce n).cls = .pending ↔ a.cls = .pending := by
  unfold Ask.reduce
  cases a.cls <;> simp

/-- C03 "only if": an accepted match was requested by an executor, names an ask and a bid that
    are both on the book with equal quote denominations, the ask is not pending approval, the
    ask price does not exceed the bid price, the execution price equals one of the two limit
    prices (as numbers), and the size is at least 1 and at most each order's remaining size.
    No invariant is assumed. -/
theorem C03_only_if (env : Env) (s s' : State) (c : Call) (r : Response)
    (askId bidId price : String) (size : Nat)
    (hm : c.msg = .executeMatch askId bidId price size)
    (h : execute env s c = .ok (s', r)) :
    C03_conds s c.sender askId bidId price size = true := by
  unfold execute at h
  simp only [Res.bind_eq_ok, guardR_eq_ok, hm] at h
  obtain ⟨_, hv, h⟩ := h
  obtain ⟨a, b, askP, bidP, execP, grossD, gross, askFee, bidFee, m2, m3, rp, hex, _, ha, hb, hq,
    hap, hbp, hep, hpr, _, hsa, hsb, _, _, _, _, _, _, _, hcls, _⟩ := executeMatch_ok h
  simp only [ExecMsg.valid, Bool.and_eq_true, decide_eq_true_eq] at hv
  have hnp : a.cls ≠ .pending := by
    intro hp
    exact (classMsgs_ok.mp hcls).1 (reduce_cls_pending.mpr hp)
  have hprice : Dec.le askP bidP = true ∧ (Dec.eqv execP askP = true ∨ Dec.eqv execP bidP = true) := by
    rcases priceRule_ok.mp hpr with ⟨hlt, hor⟩ | ⟨_, heq, he⟩
    · exact ⟨Dec.le_iff.mpr (Int.le_of_lt (Dec.lt_iff.mp hlt)), hor⟩
    · exact ⟨Dec.le_iff.mpr (Int.le_of_eq (Dec.eqv_iff.mp heq)), Or.inl he⟩
  unfold C03_conds
  simp only [hex, ha, hb, hq, hap, hbp, hep, Bool.true_and, Bool.and_eq_true, beq_self_eq_true,
    decide_eq_true_eq, Bool.or_eq_true]
  exact ⟨⟨⟨⟨hprice.1, hprice.2⟩, hv.2⟩, hsa⟩, hsb⟩

/-- limit-price protection: the execution price lies between the two limit prices, so no
    seller is paid less per unit than their limit and no buyer pays more than theirs -/
theorem C03_limit_protection (env : Env) (s s' : State) (c : Call) (r : Response)
    (askId bidId price : String) (size : Nat)
    (hm : c.msg = .executeMatch askId bidId price size)
    (h : execute env s c = .ok (s', r)) :
    ∃ a b askP bidP execP, s.asks.get? askId = some a ∧ loadBid s bidId = some b ∧
      Dec.parse a.price = some askP ∧ Dec.parse b.price = some bidP ∧ Dec.parse price = some execP ∧
      (Dec.eqv execP askP = true ∨ Dec.eqv execP bidP = true) ∧ Dec.le askP bidP = true := by
  have hc := C03_only_if env s s' c r askId bidId price size hm h
  unfold C03_conds at hc
  simp only [Bool.and_eq_true] at hc
  obtain ⟨_, hc⟩ := hc
  cases ha : s.asks.get? askId with
  | none => simp [ha] at hc
  | some a =>
    cases hb : loadBid s bidId with
    | none => simp [ha, hb] at hc
    | some b =>
      simp only [ha, hb, Bool.and_eq_true] at hc
      obtain ⟨_, hc⟩ := hc
      cases hap : Dec.parse a.price with
      | none => simp [hap] at hc
      | some askP =>
        cases hbp : Dec.parse b.price with
        | none => simp [hap, hbp] at hc
        | some bidP =>
          cases hep : Dec.parse price with
          | none => simp [hap, hbp, hep] at hc
          | some execP =>
            simp only [hap, hbp, hep, Bool.and_eq_true, Bool.or_eq_true] at hc
            exact ⟨a, b, askP, bidP, execP, rfl, rfl, hap, hbp, rfl, hc.1.1.1.2, hc.1.1.1.1⟩

/-- the whole-number clause (under the magnitude hypothesis `exactMul`, finding F6): the quote
    amounts of an accepted match – size × execution price and, at an improved price, size × the
    bid's price – are whole numbers -/
theorem C03_whole_thm (env : Env) (s s' : State) (c : Call) (r : Response)
    (askId bidId price : String) (size : Nat)
    (hm : c.msg = .executeMatch askId bidId price size)
    (h : execute env s c = .ok (s', r))
    (hexact : ∀ b p, loadBid s bidId = some b → Dec.parse price = some p →
        p.neg = false ∧ exactMul p size = true ∧
        ∀ bp, Dec.parse b.price = some bp → bp.neg = false ∧ exactMul bp size = true) :
    C03_whole s bidId price size = true := by
  unfold execute at h
  simp only [Res.bind_eq_ok, guardR_eq_ok, hm] at h
  obtain ⟨_, _, h⟩ := h
  obtain ⟨a, b, askP, bidP, execP, grossD, gross, askFee, bidFee, m2, m3, rp, _, _, ha, hb, _,
    hap, hbp, hep, _, _, _, _, hg, hfr, hgu, _, _, _, _, _, hrp, _⟩ := executeMatch_ok h
  obtain ⟨hn, hx, hbx⟩ := hexact b execP hb hep
  obtain ⟨hbn, hbe⟩ := hbx bidP hbp
  have h1 := (Dec.total_exact (Dec.parse_scale hep) hn hx hg hfr hgu).1
  unfold C03_whole
  simp only [hb, hep, hbp, h1, Bool.true_and, Bool.or_eq_true, Bool.not_eq_true']
  by_cases hlt : Dec.lt execP bidP = true
  · right
    rcases refundPart_ok.mp hrp with ⟨hf, _⟩ | ⟨_, origD, orig, _, _, ht, hfr2, hu2, _⟩
    · rw [hlt] at hf; cases hf
    · exact (Dec.total_exact (Dec.parse_scale hbp) hbn hbe ht hfr2 hu2).1
  · left; simpa using hlt

/-- C03 ("if"): an executor's request that meets the eligibility conditions, with whole quote
    amounts within the 96-bit range and the configured fees payable, is carried out -/
theorem C03_if (env : Env) (s : State) (c : Call) (askId bidId price : String) (size : Nat)
    (hm : c.msg = .executeMatch askId bidId price size)
    (h : C03_mustAccept s c askId bidId price size = true) :
    ∃ s' r, execute env s c = .ok (s', r) := by
  unfold C03_mustAccept at h
  simp only [Bool.and_eq_true, List.isEmpty_iff, bne_iff_ne, ne_eq] at h
  obtain ⟨⟨⟨⟨⟨⟨hfunds, hida⟩, hidb⟩, hpne⟩, hconds⟩, hwhole⟩, hready⟩ := h
  unfold C03_conds at hconds
  unfold C03_whole at hwhole
  unfold C03_ready at hready
  cases ha : s.asks.get? askId with
  | none => simp [ha] at hready
  | some a =>
  cases hb : loadBid s bidId with
  | none => simp [ha, hb] at hready
  | some b =>
  cases hp : Dec.parse price with
  | none => simp [ha, hb, hp] at hready
  | some p =>
  cases hap : Dec.parse a.price with
  | none => simp [ha, hb, hp, hap] at hready
  | some ap =>
  cases hbp : Dec.parse b.price with
  | none => simp [ha, hb, hp, hap, hbp] at hready
  | some bp =>
  simp only [ha, hb, hp, hap, hbp, Bool.and_eq_true, decide_eq_true_eq, Bool.or_eq_true,
    Bool.not_eq_true', beq_iff_eq] at hconds hwhole hready
  obtain ⟨hexec, ⟨hq, hcls⟩, ⟨⟨⟨hle, hpr⟩, hs1⟩, hsa⟩, hsb⟩ := hconds
  obtain ⟨hwp, hwb⟩ := hwhole
  obtain ⟨⟨⟨hapn, hbpn⟩, hfits⟩, hfees⟩ := hready
  -- signs and the price rule
  have hpn : p.neg = false := by
    rcases hpr with h | h
    · exact Dec.parse_nonneg_of_eqv hp hapn h
    · exact Dec.parse_nonneg_of_eqv hp hbpn h
  have hrule : priceRule ap bp p = .ok () := by
    apply priceRule_ok.mpr
    by_cases hlt : Dec.lt ap bp = true
    · exact Or.inl ⟨hlt, hpr⟩
    · have hlt' : Dec.lt ap bp = false := by simpa using hlt
      have heq : Dec.eqv ap bp = true := by
        rw [Dec.eqv_nat hapn hbpn]
        have h1 : ¬ (ap.mant * 10 ^ bp.scale < bp.mant * 10 ^ ap.scale) := fun h =>
          hlt ((Dec.lt_nat hapn hbpn).mpr h)
        have h2 : ap.mant * 10 ^ bp.scale ≤ bp.mant * 10 ^ ap.scale := by
          unfold Dec.le at hle
          rw [Dec.num_nonneg hapn, Dec.num_nonneg hbpn] at hle
          simp only [decide_eq_true_eq] at hle
          exact_mod_cast hle
        omega
      refine Or.inr ⟨hlt', heq, ?_⟩
      rcases hpr with h | h
      · exact h
      · have hba : Dec.eqv bp ap = true := by
          rw [Dec.eqv_nat hbpn hapn]; exact ((Dec.eqv_nat hapn hbpn).mp heq).symm
        exact Dec.eqv_trans hpn hbpn hapn h hba
  -- gross proceeds
  unfold matchFits at hfits
  simp only [Bool.and_eq_true, decide_eq_true_eq, Bool.or_eq_true, Bool.not_eq_true'] at hfits
  obtain ⟨⟨hszl, hgl⟩, hol⟩ := hfits
  have hps := Dec.parse_scale hp
  obtain ⟨grossD, hgt, hgfr, hgu⟩ := Dec.total_of_whole hps hpn hszl hwp hgl
  obtain ⟨_, _, hgtrunc⟩ := Dec.whole_repr hgfr hgu
  unfold feesPayable at hfees
  simp only [hgt, hgtrunc, Bool.and_eq_true] at hfees
  obtain ⟨haskfee, hbidfee⟩ := hfees
  -- fees
  unfold askFeePayable at haskfee
  cases haf : askFeeAmt s.info grossD with
  | err e => simp [haf] at haskfee
  | ok askFee =>
  simp only [haf, decide_eq_true_eq] at haskfee
  unfold bidFeePayable at hbidfee
  cases hcf : calcFee b (product p size) with
  | err e => simp [hcf] at hbidfee
  | ok bidFee =>
  simp only [hcf, Bool.and_eq_true, Bool.or_eq_true, beq_iff_eq, Bool.not_eq_true'] at hbidfee
  obtain ⟨hacct, horig⟩ := hbidfee
  obtain ⟨m2, hm2⟩ : ∃ m2, bidFeeMsgs env s.info b (env.restricted b.quote.denom) bidFee = .ok m2 := by
    by_cases h0 : bidFee = 0
    · exact ⟨[], bidFeeMsgs_ok.mpr (Or.inl ⟨h0, rfl⟩)⟩
    · rcases hacct with h | h
      · exact absurd h h0
      · cases hbf : s.info.bidFee with
        | none => simp [hbf] at h
        | some fi => exact ⟨_, bidFeeMsgs_ok.mpr (Or.inr ⟨h0, fi, hbf, rfl⟩)⟩
  have hsz0 : size ≠ 0 := by omega
  have hm3 : classMsgs env (a.reduce size) b (env.restricted a.base) (env.restricted b.quote.denom)
      (product p size - askFee) size =
      .ok (classMsgList env (a.reduce size) b (env.restricted a.base) (env.restricted b.quote.denom)
        (product p size - askFee) size) := by
    apply classMsgs_ok.mpr
    refine ⟨?_, fun _ => hsz0, fun _ _ _ _ => hsz0, rfl⟩
    unfold Ask.reduce
    cases hc : a.cls <;> simp [hc] at hcls ⊢
  obtain ⟨rp, hrp⟩ : ∃ rp, refundPart env b (Dec.lt p bp) bp size (product p size) bidFee
      (env.restricted b.quote.denom) = .ok rp := by
    cases himp : Dec.lt p bp with
    | false => exact ⟨_, refundPart_ok.mpr (Or.inl ⟨rfl, rfl⟩)⟩
    | true =>
      simp only [himp, Bool.true_eq_false, false_or] at hwb hol horig
      have hbps := Dec.parse_scale hbp
      obtain ⟨origD, hot, hofr, hou⟩ := Dec.total_of_whole hbps hbpn hszl hwb hol
      have hgo := Dec.product_le_of_lt hpn hbpn himp hwp hwb
      unfold origFeeOK at horig
      cases hof : calcFee b (product bp size) with
      | err e => simp [hof] at horig
      | ok origFee =>
        simp only [hof, Bool.or_eq_true, beq_iff_eq, decide_eq_true_eq] at horig
        refine ⟨_, refundPart_ok.mpr (Or.inr ⟨rfl, origD, product bp size, origFee,
          (if origFee = 0 then 0 else origFee - bidFee), hot, hofr, hou, hgo, hof, ?_, rfl⟩)⟩
        unfold FeeRefundIs
        by_cases h0 : origFee = 0
        · exact Or.inr ⟨h0, by simp [h0]⟩
        · rcases horig with h | h
          · exact absurd h h0
          · exact Or.inl ⟨h0, h, by simp [h0]⟩
  have hacc : b.accBase ≤ b.base.amount := by
    unfold Bid.remBase at hsb; omega
  have hsb' : size ≤ b.base.amount - b.accBase := hsb
  have hm1 := (askFeeMsgs_ok (env := env) (info := s.info) (rQ := env.restricted b.quote.denom) (n := askFee)
    (qd := b.quote.denom)).mpr rfl
  refine ⟨{ s with asks := putAsk s.asks askId (a.reduce size), bids := putBid s.bids bidId rp.2 },
    { msgs := askFeeMsgList env s.info (env.restricted b.quote.denom) askFee b.quote.denom ++ m2 ++
        classMsgList env (a.reduce size) b (env.restricted a.base) (env.restricted b.quote.denom)
          (product p size - askFee) size ++ rp.1,
      attrs := [("action", "execute"), ("ask_id", askId), ("bid_id", bidId),
                ("base", b.base.denom), ("quote", a.quote), ("price", price),
                ("size", toString size), ("ask_fee", toString askFee),
                ("bid_fee", toString bidFee)] }, ?_⟩
  unfold execute
  simp only [hm, ExecMsg.valid, hida, hidb]
  unfold executeMatch
  simp [guardR, orErr, subR, hpne, hs1, hexec, hfunds, ha, hb, hq, hap, hbp, hp, hrule, hacc, hsa, hsb',
    hgt, hgfr, hgu, haf, hm1, haskfee, hcf, hm2, hm3, hrp]


end Ats.Proofs
