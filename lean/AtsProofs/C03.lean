/-
  C03 — Match eligibility and limit-price protection.
-/
import AtsProofs.Inv
import AtsProofs.DecLemmas
namespace Ats.Proofs
open Ats Ats.Spec

theorem Dec.lt_iff {a b : Dec} : Dec.lt a b = true ↔ Dec.num a b < Dec.num b a := by
  simp [Dec.lt]
theorem Dec.le_iff {a b : Dec} : Dec.le a b = true ↔ Dec.num a b ≤ Dec.num b a := by
  simp [Dec.le]
theorem Dec.eqv_iff {a b : Dec} : Dec.eqv a b = true ↔ Dec.num a b = Dec.num b a := by
  simp [Dec.eqv]

theorem reduce_cls_pending {a : Ask} {n : Nat} : (a.reduce n).cls = .pending ↔ a.cls = .pending := by
  unfold Ask.reduce
  cases a.cls <;> simp

/-- C03 "only if": an accepted match was requested by an executor, names an ask and a bid that
    are both on the book with equal quote denominations, the ask is not pending approval, the
    ask price does not exceed the bid price, the execution price equals one of the two limit
    prices (as numbers), and the size is at least 1 and at most each order's remaining size.
    No invariant is assumed. -/
theorem C03_only_if (env : Env) (s s' : State) (c : Call) (r : Response)
    (askId bidId price : String) (size : Nat)
    (hm : c.msg = .executeMatch askId bidId price size)
    (h : execute env s c = .ok (s', r)) :
    C03_conds s c.sender askId bidId price size = true := by
  unfold execute at h
  simp only [Res.bind_eq_ok, guardR_eq_ok, hm] at h
  obtain ⟨_, hv, h⟩ := h
  obtain ⟨a, b, askP, bidP, execP, grossD, gross, askFee, bidFee, m2, m3, rp, hex, _, ha, hb, hq,
    hap, hbp, hep, hpr, _, hsa, hsb, _, _, _, _, _, _, _, hcls, _⟩ := executeMatch_ok h
  simp only [ExecMsg.valid, Bool.and_eq_true, decide_eq_true_eq] at hv
  have hnp : a.cls ≠ .pending := by
    intro hp
    exact (classMsgs_ok.mp hcls).1 (reduce_cls_pending.mpr hp)
  have hprice : Dec.le askP bidP = true ∧ (Dec.eqv execP askP = true ∨ Dec.eqv execP bidP = true) := by
    rcases priceRule_ok.mp hpr with ⟨hlt, hor⟩ | ⟨_, heq, he⟩
    · exact ⟨Dec.le_iff.mpr (Int.le_of_lt (Dec.lt_iff.mp hlt)), hor⟩
    · exact ⟨Dec.le_iff.mpr (Int.le_of_eq (Dec.eqv_iff.mp heq)), Or.inl he⟩
  unfold C03_conds
  simp only [hex, ha, hb, hq, hap, hbp, hep, Bool.true_and, Bool.and_eq_true, beq_self_eq_true,
    decide_eq_true_eq, Bool.or_eq_true]
  exact ⟨⟨⟨⟨hprice.1, hprice.2⟩, hv.2⟩, hsa⟩, hsb⟩

/-- limit-price protection: the execution price lies between the two limit prices, so no
    seller is paid less per unit than their limit and no buyer pays more than theirs -/
theorem C03_limit_protection (env : Env) (s s' : State) (c : Call) (r : Response)
    (askId bidId price : String) (size : Nat)
    (hm : c.msg = .executeMatch askId bidId price size)
    (h : execute env s c = .ok (s', r)) :
    ∃ a b askP bidP execP, s.asks.get? askId = some a ∧ loadBid s bidId = some b ∧
      Dec.parse a.price = some askP ∧ Dec.parse b.price = some bidP ∧ Dec.parse price = some execP ∧
      (Dec.eqv execP askP = true ∨ Dec.eqv execP bidP = true) ∧ Dec.le askP bidP = true := by
  have hc := C03_only_if env s s' c r askId bidId price size hm h
  unfold C03_conds at hc
  simp only [Bool.and_eq_true] at hc
  obtain ⟨_, hc⟩ := hc
  cases ha : s.asks.get? askId with
  | none => simp [ha] at hc
  | some a =>
    cases hb : loadBid s bidId with
    | none => simp [ha, hb] at hc
    | some b =>
      simp only [ha, hb, Bool.and_eq_true] at hc
      obtain ⟨_, hc⟩ := hc
      cases hap : Dec.parse a.price with
      | none => simp [hap] at hc
      | some askP =>
        cases hbp : Dec.parse b.price with
        | none => simp [hap, hbp] at hc
        | some bidP =>
          cases hep : Dec.parse price with
          | none => simp [hap, hbp, hep] at hc
          | some execP =>
            simp only [hap, hbp, hep, Bool.and_eq_true, Bool.or_eq_true] at hc
            exact ⟨a, b, askP, bidP, execP, rfl, rfl, hap, hbp, rfl, hc.1.1.1.2, hc.1.1.1.1⟩

/-- the whole-number clause (under the magnitude hypothesis `exactMul`, finding F6): the quote
    amounts of an accepted match – size × execution price and, at an improved price, size × the
    bid's price – are whole numbers -/
theorem C03_whole_thm (env : Env) (s s' : State) (c : Call) (r : Response)
    (askId bidId price : String) (size : Nat)
    (hm : c.msg = .executeMatch askId bidId price size)
    (h : execute env s c = .ok (s', r))
    (hexact : ∀ b p, loadBid s bidId = some b → Dec.parse price = some p →
        p.neg = false ∧ exactMul p size = true ∧
        ∀ bp, Dec.parse b.price = some bp → bp.neg = false ∧ exactMul bp size = true) :
    C03_whole s bidId price size = true := by
  unfold execute at h
  simp only [Res.bind_eq_ok, guardR_eq_ok, hm] at h
  obtain ⟨_, _, h⟩ := h
  obtain ⟨a, b, askP, bidP, execP, grossD, gross, askFee, bidFee, m2, m3, rp, _, _, ha, hb, _,
    hap, hbp, hep, _, _, _, _, hg, hfr, hgu, _, _, _, _, _, hrp, _⟩ := executeMatch_ok h
  obtain ⟨hn, hx, hbx⟩ := hexact b execP hb hep
  obtain ⟨hbn, hbe⟩ := hbx bidP hbp
  have h1 := (Dec.total_exact (Dec.parse_scale hep) hn hx hg hfr hgu).1
  unfold C03_whole
  simp only [hb, hep, hbp, h1, Bool.true_and, Bool.or_eq_true, Bool.not_eq_true']
  by_cases hlt : Dec.lt execP bidP = true
  · right
    rcases refundPart_ok.mp hrp with ⟨hf, _⟩ | ⟨_, origD, orig, _, _, ht, hfr2, hu2, _⟩
    · rw [hlt] at hf; cases hf
    · exact (Dec.total_exact (Dec.parse_scale hbp) hbn hbe ht hfr2 hu2).1
  · left; simpa using hlt

end Ats.Proofs
