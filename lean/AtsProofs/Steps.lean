/-
  AtsProofs.Steps — one inversion lemma per handler:
    handler … = ok (s', r)  →  every guard that passed ∧ s' = … ∧ r = …
  All property proofs start from these, never from the raw definitions.
-/
import AtsProofs.Basic
namespace Ats
open Ats

/-- the message `add_transfer` produces -/
def payMsg (env : Env) (d : String) (n : Nat) (to : String) : Msg :=
  if env.restricted d then .transfer ⟨d, n⟩ to env.contract env.contract else .bank to ⟨d, n⟩

theorem addTransfer_eq_ok {env : Env} {d : String} {n : Nat} {to : String} {m : Msg} :
    addTransfer (env.restricted d) n d to env.contract = .ok m ↔
      (env.restricted d = true → n ≠ 0) ∧ m = payMsg env d n to := by
  unfold addTransfer payMsg
  cases env.restricted d <;> simp
  · exact eq_comm
  · by_cases hn : n = 0 <;> simp [hn, eq_comm]

theorem transferMsg_eq_ok {n : Nat} {d to frm admin : String} {m : Msg} :
    transferMsg n d to frm admin = .ok m ↔ n ≠ 0 ∧ m = .transfer ⟨d, n⟩ to frm admin := by
  unfold transferMsg
  by_cases hn : n = 0 <;> simp [hn, eq_comm]

/-- the pull-in message list of the three escrowing requests -/
def pullMsgs (env : Env) (d : String) (n : Nat) (sender : String) : List Msg :=
  if env.restricted d then [.transfer ⟨d, n⟩ env.contract sender env.contract] else []

theorem pull_eq_ok {env : Env} {d : String} {n : Nat} {sender : String} {ms : List Msg} :
    (if env.restricted d = true then (do
        let m ← transferMsg n d env.contract sender env.contract
        pure [m])
      else pure []) = Res.ok ms ↔
      (env.restricted d = true → n ≠ 0) ∧ ms = pullMsgs env d n sender := by
  unfold pullMsgs
  cases env.restricted d
  · simp [eq_comm]
  · simp only [if_true, Res.bind_eq_ok, transferMsg_eq_ok, Res.pure_eq, Res.ok.injEq, forall_const]
    constructor
    · rintro ⟨m, ⟨hn, rfl⟩, rfl⟩; exact ⟨hn, rfl⟩
    · rintro ⟨hn, rfl⟩; exact ⟨_, ⟨hn, rfl⟩, rfl⟩

/-! ### cancel_ask -/

theorem cancelAsk_ok {env : Env} {s s' : State} {sender : String} {funds : List Coin} {id : String}
    {r : Response} (h : cancelAsk env s sender funds id = .ok (s', r)) :
    ∃ a, funds = [] ∧ s.asks.get? id = some a ∧ sender = a.owner ∧
      (env.restricted a.base = true → a.size ≠ 0) ∧
      s' = { s with asks := s.asks.del a.id } ∧
      r.attrs = [("action", "cancel_ask"), ("id", a.id)] ∧
      r.msgs = payMsg env a.base a.size a.owner ::
        (match a.cls with
         | .ready ap c => [payMsg env c.denom c.amount ap]
         | _ => []) ∧
      (∀ ap c, a.cls = .ready ap c → env.restricted c.denom = true → c.amount ≠ 0) := by
  unfold cancelAsk at h
  simp only [Res.bind_eq_ok, guardR_eq_ok, orErr_eq_ok, addTransfer_eq_ok] at h
  obtain ⟨_, hf, a, ha, _, hown, m1, ⟨hz, hm1⟩, h⟩ := h
  refine ⟨a, by simpa using hf, ha, by simpa using hown, hz, ?_⟩
  cases hc : a.cls <;> simp only [hc] at h
  all_goals simp only [Res.bind_eq_ok, addTransfer_eq_ok, Res.pure_eq, Res.ok.injEq, Prod.mk.injEq] at h
  · obtain ⟨_, rfl, rfl, rfl⟩ := h
    simp [hm1]
  · obtain ⟨_, rfl, rfl, rfl⟩ := h
    simp [hm1]
  · obtain ⟨m2, ⟨hz2, rfl⟩, _, rfl, rfl, rfl⟩ := h
    simp [hm1]
    exact hz2

/-! ### reverse_ask -/

/-- the ask after `eff` units were reversed -/
def askReduced (a : Ask) (eff : Nat) : Ask :=
  { a with size := a.size - eff,
           cls := match a.cls with
             | .ready ap c => .ready ap ⟨c.denom, a.size - eff⟩
             | c => c }

theorem reverseAsk_ok {env : Env} {s s' : State} {sender : String} {funds : List Coin}
    {id action : String} {cancel : Option Nat} {r : Response}
    (h : reverseAsk env s sender funds id action cancel = .ok (s', r)) :
    ∃ a, funds = [] ∧ memS sender s.info.executors = true ∧ s.asks.get? id = some a ∧
      (let eff := cancel.getD a.size
       (cancel.isNone = true ∨ eff % s.info.increment = 0) ∧ eff ≤ a.size ∧
       (env.restricted a.base = true → eff ≠ 0) ∧
       (∀ ap c, a.cls = .ready ap c → env.restricted c.denom = true → eff ≠ 0) ∧
       s' = { s with asks := if a.size - eff = 0 then s.asks.del a.id
                              else s.asks.set a.id (askReduced a eff) } ∧
       r.attrs = [("action", action), ("id", id), ("reverse_size", toString eff),
                  ("order_open", if a.size - eff = 0 then "false" else "true")] ∧
       r.msgs = payMsg env a.base eff a.owner ::
         (match a.cls with
          | .ready ap c => [payMsg env c.denom eff ap]
          | _ => [])) := by
  unfold reverseAsk at h
  simp only [Res.bind_eq_ok, guardR_eq_ok, orErr_eq_ok, addTransfer_eq_ok, subR_eq_ok] at h
  obtain ⟨_, _, _, hf, _, hex, a, ha, _, _, _, hinc, n, ⟨hle, rfl⟩, m1, ⟨hz, rfl⟩, h⟩ := h
  refine ⟨a, by simpa using hf, hex, ha, ?_⟩
  simp only []
  refine ⟨by simpa [Bool.or_eq_true] using hinc, hle, hz, ?_⟩
  cases hc : a.cls <;> simp only [hc] at h ⊢
  all_goals simp only [Res.bind_eq_ok, addTransfer_eq_ok, Res.pure_eq, Res.ok.injEq] at h
  · obtain ⟨_, rfl, h⟩ := h
    refine ⟨(by intro ap c h; cases h), ?_⟩
    by_cases h0 : a.size - cancel.getD a.size = 0
    · simp [h0] at h ⊢; obtain ⟨rfl, rfl⟩ := h; simp
    · simp [h0] at h ⊢; obtain ⟨rfl, rfl⟩ := h; simp [askReduced, hc]
  · obtain ⟨_, rfl, h⟩ := h
    refine ⟨(by intro ap c h; cases h), ?_⟩
    by_cases h0 : a.size - cancel.getD a.size = 0
    · simp [h0] at h ⊢; obtain ⟨rfl, rfl⟩ := h; simp
    · simp [h0] at h ⊢; obtain ⟨rfl, rfl⟩ := h; simp [askReduced, hc]
  · obtain ⟨m2, ⟨hz2, rfl⟩, _, rfl, h⟩ := h
    refine ⟨(by intro ap c h h2; cases h; exact hz2 h2), ?_⟩
    by_cases h0 : a.size - cancel.getD a.size = 0
    · simp [h0] at h ⊢; obtain ⟨rfl, rfl⟩ := h; simp
    · simp [h0] at h ⊢; obtain ⟨rfl, rfl⟩ := h; simp [askReduced, hc]

/-! ### shared admission checks -/

theorem checkPrice_ok {info : Info} {price : String} {p : Dec} :
    checkPrice info price = .ok p ↔
      Dec.parse price = some p ∧ p.isZero = false ∧ p.neg = false ∧
      Dec.badPrecision p info.precision = some false := by
  unfold checkPrice
  simp only [Res.bind_eq_ok, guardR_eq_ok, orErr_eq_ok, Res.pure_eq, Res.ok.injEq, Dec.isNeg]
  constructor
  · rintro ⟨q, hq, _, hz, b, hb, _, hb2, rfl⟩
    simp at hz hb2
    subst hb2
    exact ⟨hq, hz.1, hz.2, hb⟩
  · rintro ⟨hq, hz, hn, hb⟩
    exact ⟨p, hq, (), by simp [hz, hn], false, hb, (), by simp, rfl⟩

theorem checkPrice_priceOK {info : Info} {price : String} {p : Dec}
    (h : checkPrice info price = .ok p) : Spec.priceOK info price = true := by
  obtain ⟨hq, hz, hn, hb⟩ := checkPrice_ok.mp h
  simp [Spec.priceOK, hq, hz, hn, hb]

theorem priceOK_checkPrice {info : Info} {price : String}
    (h : Spec.priceOK info price = true) : ∃ p, checkPrice info price = .ok p ∧ Dec.parse price = some p := by
  unfold Spec.priceOK at h
  cases hq : Dec.parse price with
  | none => simp [hq] at h
  | some p =>
    simp [hq] at h
    exact ⟨p, checkPrice_ok.mpr ⟨hq, by simpa using h.1.1, by simpa using h.1.2, h.2⟩, rfl⟩

theorem checkAttrs_ok {env : Env} {sender : String} {req : List String} {u : Unit} :
    checkAttrs env sender req = .ok u ↔ Spec.hasAllAttrs env sender req = true := by
  unfold checkAttrs Spec.hasAllAttrs
  cases hreq : req.isEmpty
  · cases hat : env.attrs sender <;> simp
  · simp

/-! ### create_ask -/

theorem createAsk_ok {env : Env} {s s' : State} {sender : String} {funds : List Coin}
    {id base quote price : String} {size : Nat} {r : Response}
    (h : createAsk env s sender funds id base quote price size = .ok (s', r)) :
    (base = s.info.baseDenom ∨ memS base s.info.convertible = true) ∧
    fundsOk (env.restricted base) funds ⟨base, size⟩ = true ∧
    memS quote s.info.quotes = true ∧ s.info.increment ≠ 0 ∧ size % s.info.increment = 0 ∧
    Spec.priceOK s.info price = true ∧ Spec.hasAllAttrs env sender s.info.askAttrs = true ∧
    s.asks.get? id = none ∧ (env.restricted base = true → size ≠ 0) ∧
    (let cls : AskClass := if base != s.info.baseDenom then .pending else .basic
     s' = { s with asks := s.asks.set id ⟨id, sender, cls, base, quote, price, size⟩ } ∧
     r.msgs = pullMsgs env base size sender ∧
     r.attrs = [("action", "create_ask"), ("id", id), ("class", classJson cls),
                ("target_base", s.info.baseDenom), ("base", base), ("quote", quote),
                ("price", price), ("size", toString size)]) := by
  unfold createAsk at h
  simp only [Res.bind_eq_ok, guardR_eq_ok, orErr_eq_ok, pull_eq_ok, Res.pure_eq, Res.ok.injEq,
    Prod.mk.injEq, checkAttrs_ok] at h
  obtain ⟨_, hb, _, hf, _, hq, _, hi, _, hs, p, hp, _, hat, _, hex, ms, ⟨hz, rfl⟩, rfl, rfl⟩ := h
  refine ⟨by simpa [Bool.or_eq_true] using hb, hf, hq, by simpa using hi, by simpa using hs,
    checkPrice_priceOK hp, hat, by simpa using hex, hz, ?_⟩
  simp

end Ats
