/-
  AtsProofs.Steps — one inversion lemma per handler:
    handler … = ok (s', r)  →  every guard that passed ∧ s' = … ∧ r = …
  All property proofs start from these, never from the raw definitions.
-/
import AtsProofs.Basic
namespace Ats
open Ats

/-- the message `add_transfer` produces -/
def payMsg (env : Env) (d : String) (n : Nat) (to : String) : Msg :=
  if env.restricted d then .transfer ⟨d, n⟩ to env.contract env.contract else .bank to ⟨d, n⟩

theorem addTransfer_eq_ok {env : Env} {d : String} {n : Nat} {to : String} {m : Msg} :
    addTransfer (env.restricted d) n d to env.contract = .ok m ↔
      (env.restricted d = true → n ≠ 0) ∧ m = payMsg env d n to := by
  unfold addTransfer payMsg
  cases env.restricted d <;> simp
  · exact eq_comm
  · by_cases hn : n = 0 <;> simp [hn, eq_comm]

theorem transferMsg_eq_ok {n : Nat} {d to frm admin : String} {m : Msg} :
    transferMsg n d to frm admin = .ok m ↔ n ≠ 0 ∧ m = .transfer ⟨d, n⟩ to frm admin := by
  unfold transferMsg
  by_cases hn : n = 0 <;> simp [hn, eq_comm]

/-- the pull-in message list of the three escrowing requests -/
def pullMsgs (env : Env) (d : String) (n : Nat) (sender : String) : List Msg :=
  if env.restricted d then [.transfer ⟨d, n⟩ env.contract sender env.contract] else []

theorem pullR_eq_ok {env : Env} {d : String} {n : Nat} {sender : String} {ms : List Msg} :
    pullR env d n sender = Res.ok ms ↔
      (env.restricted d = true → n ≠ 0) ∧ ms = pullMsgs env d n sender := by
  unfold pullR pullMsgs transferMsg
  cases env.restricted d
  · simp only [Bool.false_eq_true, if_false, Res.ok.injEq, false_implies, true_and]; exact eq_comm
  · by_cases hn : n = 0
    · simp [hn]
    · simp only [if_true, hn, if_false, Res.ok.injEq, forall_const, ne_eq, not_false_eq_true, true_and]
      exact eq_comm

/-- messages of the approver leg -/
def approverMsgs (env : Env) (cls : AskClass) (amountOf : Coin → Nat) : List Msg :=
  match cls with
  | .ready ap c => [payMsg env c.denom (amountOf c) ap]
  | _ => []

theorem approverLeg_eq_ok {env : Env} {cls : AskClass} {f : Coin → Nat} {ms : List Msg} :
    approverLeg env cls f = .ok ms ↔
      (∀ ap c, cls = .ready ap c → env.restricted c.denom = true → f c ≠ 0) ∧
      ms = approverMsgs env cls f := by
  unfold approverLeg approverMsgs
  cases cls with
  | basic =>
    simp only [Res.ok.injEq]
    constructor
    · rintro rfl; exact ⟨(by intro _ _ h; cases h), rfl⟩
    · rintro ⟨_, rfl⟩; rfl
  | pending =>
    simp only [Res.ok.injEq]
    constructor
    · rintro rfl; exact ⟨(by intro _ _ h; cases h), rfl⟩
    · rintro ⟨_, rfl⟩; rfl
  | ready ap c =>
    simp only []
    cases hx : addTransfer (env.restricted c.denom) (f c) c.denom ap env.contract with
    | ok m =>
      obtain ⟨hz, rfl⟩ := addTransfer_eq_ok.mp hx
      simp only [Res.ok.injEq, AskClass.ready.injEq, and_imp]
      constructor
      · rintro rfl; exact ⟨fun _ _ h1 h2 => by subst h1 h2; exact hz, rfl⟩
      · rintro ⟨_, rfl⟩; rfl
    | err e =>
      simp only [false_iff, not_and, reduceCtorEq]
      intro hall
      have hz := hall ap c rfl
      have : addTransfer (env.restricted c.denom) (f c) c.denom ap env.contract =
          .ok (payMsg env c.denom (f c) ap) := addTransfer_eq_ok.mpr ⟨hz, rfl⟩
      rw [hx] at this; cases this

def payIfPosMsgs (env : Env) (d : String) (n : Nat) (to : String) : List Msg :=
  if n = 0 then [] else [payMsg env d n to]

theorem payIfPos_eq_ok {env : Env} {d : String} {n : Nat} {to : String} {ms : List Msg} :
    payIfPos (env.restricted d) n d to env.contract = .ok ms ↔ ms = payIfPosMsgs env d n to := by
  unfold payIfPos payIfPosMsgs
  by_cases hn : n = 0
  · simp only [hn, beq_self_eq_true, if_true, Res.ok.injEq]; exact eq_comm
  · have hx : addTransfer (env.restricted d) n d to env.contract = .ok (payMsg env d n to) :=
      addTransfer_eq_ok.mpr ⟨fun _ => hn, rfl⟩
    simp only [hn, beq_iff_eq, if_false, hx, Res.ok.injEq]; exact eq_comm

/-! ### cancel_ask -/

theorem cancelAsk_ok {env : Env} {s s' : State} {sender : String} {funds : List Coin} {id : String}
    {r : Response} (h : cancelAsk env s sender funds id = .ok (s', r)) :
    ∃ a, funds = [] ∧ s.asks.get? id = some a ∧ sender = a.owner ∧
      (env.restricted a.base = true → a.size ≠ 0) ∧
      (∀ ap c, a.cls = .ready ap c → env.restricted c.denom = true → c.amount ≠ 0) ∧
      s' = { s with asks := s.asks.del a.id } ∧
      r = { msgs := payMsg env a.base a.size a.owner :: approverMsgs env a.cls (fun c => c.amount),
            attrs := [("action", "cancel_ask"), ("id", a.id)] } := by
  unfold cancelAsk at h
  simp only [Res.bind_eq_ok, guardR_eq_ok, orErr_eq_ok, addTransfer_eq_ok, approverLeg_eq_ok,
    Res.pure_eq, Res.ok.injEq, Prod.mk.injEq] at h
  obtain ⟨_, hf, a, ha, _, hown, m1, ⟨hz, rfl⟩, m2, ⟨hz2, rfl⟩, rfl, rfl⟩ := h
  exact ⟨a, by simpa using hf, ha, by simpa using hown, hz, hz2, rfl, rfl⟩

/-! ### reverse_ask -/

theorem reverseAsk_ok {env : Env} {s s' : State} {sender : String} {funds : List Coin}
    {id action : String} {cancel : Option Nat} {r : Response}
    (h : reverseAsk env s sender funds id action cancel = .ok (s', r)) :
    ∃ a, funds = [] ∧ memS sender s.info.executors = true ∧ s.asks.get? id = some a ∧
      (cancel.isNone = true ∨ cancel.getD a.size % s.info.increment = 0) ∧
      cancel.getD a.size ≤ a.size ∧
      (env.restricted a.base = true → cancel.getD a.size ≠ 0) ∧
      (∀ ap c, (a.reduce (cancel.getD a.size)).cls = .ready ap c →
          env.restricted c.denom = true → cancel.getD a.size ≠ 0) ∧
      s' = { s with asks := putAsk s.asks a.id (a.reduce (cancel.getD a.size)) } ∧
      r = { msgs := payMsg env a.base (cancel.getD a.size) a.owner ::
                    approverMsgs env (a.reduce (cancel.getD a.size)).cls (fun _ => cancel.getD a.size),
            attrs := [("action", action), ("id", id),
                      ("reverse_size", toString (cancel.getD a.size)),
                      ("order_open", openFlag ((a.reduce (cancel.getD a.size)).size != 0))] } := by
  unfold reverseAsk at h
  simp only [Res.bind_eq_ok, guardR_eq_ok, orErr_eq_ok, addTransfer_eq_ok, approverLeg_eq_ok,
    Res.pure_eq, Res.ok.injEq, Prod.mk.injEq] at h
  obtain ⟨_, _, _, hf, _, hex, a, ha, _, _, _, hinc, _, hle, m1, ⟨hz, rfl⟩, m2, ⟨hz2, rfl⟩, rfl, rfl⟩ := h
  refine ⟨a, by simpa using hf, hex, ha, by simpa [Bool.or_eq_true] using hinc, by simpa using hle,
    hz, hz2, ?_, ?_⟩
  · simp [Ask.reduce]
  · simp [Ask.reduce]

/-! ### shared admission checks -/

theorem checkPrice_ok {info : Info} {price : String} {p : Dec} :
    checkPrice info price = .ok p ↔
      Dec.parse price = some p ∧ p.isZero = false ∧ p.neg = false ∧
      Dec.badPrecision p info.precision = some false := by
  unfold checkPrice
  simp only [Res.bind_eq_ok, guardR_eq_ok, orErr_eq_ok, Res.pure_eq, Res.ok.injEq, Dec.isNeg]
  constructor
  · rintro ⟨q, hq, _, hz, b, hb, _, hb2, rfl⟩
    simp at hz hb2
    subst hb2
    exact ⟨hq, hz.1, hz.2, hb⟩
  · rintro ⟨hq, hz, hn, hb⟩
    exact ⟨p, hq, (), by simp [hz, hn], false, hb, (), by simp, rfl⟩

theorem checkPrice_priceOK {info : Info} {price : String} {p : Dec}
    (h : checkPrice info price = .ok p) : Spec.priceOK info price = true := by
  obtain ⟨hq, hz, hn, hb⟩ := checkPrice_ok.mp h
  simp [Spec.priceOK, hq, hz, hn, hb]

theorem priceOK_checkPrice {info : Info} {price : String}
    (h : Spec.priceOK info price = true) : ∃ p, checkPrice info price = .ok p ∧ Dec.parse price = some p := by
  unfold Spec.priceOK at h
  cases hq : Dec.parse price with
  | none => simp [hq] at h
  | some p =>
    simp [hq] at h
    exact ⟨p, checkPrice_ok.mpr ⟨hq, by simpa using h.1.1, by simpa using h.1.2, h.2⟩, rfl⟩

theorem checkAttrs_ok {env : Env} {sender : String} {req : List String} {u : Unit} :
    checkAttrs env sender req = .ok u ↔ Spec.hasAllAttrs env sender req = true := by
  unfold checkAttrs Spec.hasAllAttrs
  cases hreq : req.isEmpty
  · cases hat : env.attrs sender <;> simp
  · simp

/-! ### create_ask -/

theorem createAsk_ok {env : Env} {s s' : State} {sender : String} {funds : List Coin}
    {id base quote price : String} {size : Nat} {r : Response}
    (h : createAsk env s sender funds id base quote price size = .ok (s', r)) :
    (base = s.info.baseDenom ∨ memS base s.info.convertible = true) ∧
    fundsOk (env.restricted base) funds ⟨base, size⟩ = true ∧
    memS quote s.info.quotes = true ∧ s.info.increment ≠ 0 ∧ size % s.info.increment = 0 ∧
    Spec.priceOK s.info price = true ∧ Spec.hasAllAttrs env sender s.info.askAttrs = true ∧
    s.asks.get? id = none ∧ (env.restricted base = true → size ≠ 0) ∧
    (let cls : AskClass := if base != s.info.baseDenom then .pending else .basic
     s' = { s with asks := s.asks.set id ⟨id, sender, cls, base, quote, price, size⟩ } ∧
     r.msgs = pullMsgs env base size sender ∧
     r.attrs = [("action", "create_ask"), ("id", id), ("class", classJson cls),
                ("target_base", s.info.baseDenom), ("base", base), ("quote", quote),
                ("price", price), ("size", toString size)]) := by
  unfold createAsk at h
  simp only [Res.bind_eq_ok, guardR_eq_ok, orErr_eq_ok, pullR_eq_ok, Res.pure_eq, Res.ok.injEq,
    Prod.mk.injEq, checkAttrs_ok] at h
  obtain ⟨_, hb, _, hf, _, hq, _, hi, _, hs, p, hp, _, hat, _, hex, ms, ⟨hz, rfl⟩, rfl, rfl⟩ := h
  refine ⟨by simpa [Bool.or_eq_true] using hb, hf, hq, by simpa using hi, by simpa using hs,
    checkPrice_priceOK hp, hat, by simpa using hex, hz, ?_⟩
  simp

/-! ### approve_ask -/

theorem checkPending_ok {c : AskClass} {u : Unit} : checkPending c = .ok u ↔ c = .pending := by
  cases c <;> simp [checkPending]

theorem approveAsk_ok {env : Env} {s s' : State} {sender : String} {funds : List Coin}
    {id base : String} {size : Nat} {r : Response}
    (h : approveAsk env s sender funds id base size = .ok (s', r)) :
    ∃ a, memS sender s.info.approvers = true ∧
      fundsOk (env.restricted base) funds ⟨base, size⟩ = true ∧
      s.asks.get? id = some a ∧ a.cls = .pending ∧ size = a.size ∧ base = s.info.baseDenom ∧
      (env.restricted base = true → size ≠ 0) ∧
      s' = { s with asks := s.asks.set id { a with cls := .ready sender ⟨base, size⟩ } } ∧
      r = { msgs := pullMsgs env base size sender,
            attrs := [("action", "approve_ask"), ("id", a.id),
                      ("class", classJson (.ready sender ⟨base, size⟩)),
                      ("quote", a.quote), ("price", a.price), ("size", toString a.size)] } := by
  unfold approveAsk at h
  simp only [Res.bind_eq_ok, guardR_eq_ok, orErr_eq_ok, pullR_eq_ok, Res.pure_eq, Res.ok.injEq,
    Prod.mk.injEq, checkPending_ok] at h
  obtain ⟨_, hap, _, hf, a, ha, _, hp, _, hsz, ms, ⟨hz, rfl⟩, rfl, rfl⟩ := h
  simp only [Bool.and_eq_true, beq_iff_eq] at hsz
  exact ⟨a, hap, hf, ha, hp, hsz.1, hsz.2, hz, rfl, rfl⟩

/-! ### create_bid -/

theorem fromU128_ok {n : Nat} {d : Dec} : Dec.fromU128 n = .ok d ↔ n < LIM ∧ d = Dec.ofNat n := by
  unfold Dec.fromU128
  by_cases hl : n < LIM
  · simp only [hl, if_true, Res.ok.injEq, true_and]; exact eq_comm
  · simp [hl]

/-- the fee sent with a bid is exactly the calculated one, in the quote denomination -/
def feeMatches (fee : Option Coin) (feeSize : Nat) (quote : String) : Prop :=
  match fee with
  | some f => f.amount = feeSize ∧ f.denom = quote
  | none => feeSize = 0

theorem checkFee_ok {fee : Option Coin} {feeSize : Nat} {quote : String} {u : Unit} :
    checkFee fee feeSize quote = .ok u ↔ feeMatches fee feeSize quote := by
  unfold checkFee feeMatches
  cases fee with
  | none => simp
  | some f =>
    by_cases h1 : f.amount = feeSize <;> simp [h1]

theorem bidRateR_ok {info : Info} {rate : Dec} :
    bidRateR info = .ok rate ↔ Spec.bidRate info = some rate := by
  unfold bidRateR Spec.bidRate
  cases info.bidFee with
  | none => simp only [Res.ok.injEq, Option.some.injEq]
  | some fi => simp

theorem createBid_ok {env : Env} {s s' : State} {sender : String} {funds : List Coin}
    {id base : String} {fee : Option Coin} {price quote : String} {quoteSize size : Nat}
    {r : Response}
    (h : createBid env s sender funds id base fee price quote quoteSize size = .ok (s', r)) :
    ∃ p total rate feeSize,
      checkPrice s.info price = .ok p ∧ s.info.increment ≠ 0 ∧ size % s.info.increment = 0 ∧
      Dec.total p size = .ok total ∧ total.hasFract = false ∧
      quoteSize < LIM ∧ Dec.eqv total (Dec.ofNat quoteSize) = true ∧
      Spec.bidRate s.info = some rate ∧
      Dec.rateFee rate total = .ok feeSize ∧ feeMatches fee feeSize quote ∧
      memS quote s.info.quotes = true ∧ base = s.info.baseDenom ∧
      Spec.hasAllAttrs env sender s.info.bidAttrs = true ∧
      fundsOk (env.restricted quote) funds ⟨quote, total.trunc + feeAmt fee⟩ = true ∧
      s.bids.get? id = none ∧
      (env.restricted quote = true → quoteSize + feeAmt fee ≠ 0) ∧
      s' = { s with bids := s.bids.set id (.v3
              { base := ⟨base, size⟩, accBase := 0, accQuote := 0, accFee := 0, fee := fee,
                id := id, owner := sender, price := price, quote := ⟨quote, quoteSize⟩ }) } ∧
      r = { msgs := pullMsgs env quote (quoteSize + feeAmt fee) sender,
            attrs := [("action", "create_bid"), ("base", base), ("id", id), ("price", price),
                      ("quote", quote), ("quote_size", toString quoteSize),
                      ("size", toString size)] } := by
  unfold createBid at h
  simp only [Res.bind_eq_ok, guardR_eq_ok, pullR_eq_ok, Res.pure_eq, Res.ok.injEq,
    Prod.mk.injEq, checkAttrs_ok, fromU128_ok, checkFee_ok, bidRateR_ok] at h
  obtain ⟨p, hp, _, hi, _, hs, total, ht, _, hfr, q, ⟨hlim, rfl⟩, _, heq, rate, hrate, feeSize, hfee,
    _, hfm, _, hqs, _, hb, _, hat, _, hfu, _, hex, ms, ⟨hz, rfl⟩, rfl, rfl⟩ := h
  exact ⟨p, total, rate, feeSize, hp, by simpa using hi, by simpa using hs, ht, by simpa using hfr,
    hlim, heq, hrate, hfee, hfm, hqs, by simpa using hb, hat, hfu, by simpa using hex, hz, rfl, rfl⟩

/-! ### reverse_bid -/

theorem feeNeed_ok {b : Bid} {f : Coin} {left n : Nat} :
    feeNeed b f left = .ok n ↔ Dec.feeFor f.amount b.quote.amount left = .ok n := by
  unfold feeNeed
  cases hx : Dec.feeFor f.amount b.quote.amount left with
  | ok m => simp
  | err e => cases e <;> simp

/-- what `cancelFee` / `calcFee` establish about a fee-bearing bid when `used` more quote is
    consumed: nothing underflows and `need` is the fee the rest still needs -/
structure FeeSplit (b : Bid) (f : Coin) (used need : Nat) : Prop where
  hq : b.accQuote ≤ b.quote.amount
  hused : used ≤ b.remQuote
  hneed : Dec.feeFor f.amount b.quote.amount (b.remQuote - used) = .ok need
  hf : b.accFee ≤ f.amount
  hle : need ≤ b.remFee

theorem remFee_some {b : Bid} {f : Coin} (h : b.fee = some f) : b.remFee = f.amount - b.accFee := by
  simp [Bid.remFee, Bid.feeAmount, h]

theorem cancelFee_ok {b : Bid} {q : Nat} {x : Option Nat} :
    cancelFee b q = .ok x ↔
      (b.fee = none ∧ x = none) ∨
      (∃ f need, b.fee = some f ∧ FeeSplit b f q need ∧ x = some (b.remFee - need)) := by
  unfold cancelFee
  cases hfee : b.fee with
  | none => simp only [Res.ok.injEq, true_and, reduceCtorEq, false_and, exists_false, or_false]; exact eq_comm
  | some f =>
    simp only [Res.bind_eq_ok, subR_eq_ok, feeNeed_ok, Res.pure_eq, Res.ok.injEq, reduceCtorEq,
      false_and, false_or, Option.some.injEq,]
    constructor
    · rintro ⟨_, ⟨h1, rfl⟩, _, ⟨h2, rfl⟩, need, hn, _, ⟨h3, rfl⟩, _, ⟨h4, rfl⟩, rfl⟩
      refine ⟨f, need, rfl, ⟨h1, h2, hn, h3, ?_⟩, ?_⟩
      · rw [remFee_some hfee]; exact h4
      · rw [remFee_some hfee]
    · rintro ⟨f', need, rfl, ⟨h1, h2, hn, h3, h4⟩, rfl⟩
      rw [remFee_some hfee] at h4 ⊢
      exact ⟨_, ⟨h1, rfl⟩, _, ⟨h2, rfl⟩, need, hn, _, ⟨h3, rfl⟩, _, ⟨h4, rfl⟩, rfl⟩

theorem calcFee_ok {b : Bid} {g n : Nat} :
    calcFee b g = .ok n ↔
      (b.fee = none ∧ n = 0) ∨
      (∃ f need, b.fee = some f ∧ FeeSplit b f g need ∧ n = b.remFee - need) := by
  unfold calcFee
  cases hfee : b.fee with
  | none => simp only [Res.ok.injEq, true_and, reduceCtorEq, false_and, exists_false, or_false]; exact eq_comm
  | some f =>
    simp only [Res.bind_eq_ok, subR_eq_ok, feeNeed_ok, reduceCtorEq,
      false_and, false_or, Option.some.injEq,]
    constructor
    · rintro ⟨_, ⟨h1, rfl⟩, _, ⟨h2, rfl⟩, need, hn, _, ⟨h3, rfl⟩, h4, rfl⟩
      refine ⟨f, need, rfl, ⟨h1, h2, hn, h3, ?_⟩, ?_⟩
      · rw [remFee_some hfee]; exact h4
      · rw [remFee_some hfee]
    · rintro ⟨f', need, rfl, ⟨h1, h2, hn, h3, h4⟩, rfl⟩
      rw [remFee_some hfee] at h4 ⊢
      exact ⟨_, ⟨h1, rfl⟩, _, ⟨h2, rfl⟩, need, hn, _, ⟨h3, rfl⟩, h4, rfl⟩

theorem reverseBid_ok {env : Env} {s s' : State} {sender : String} {funds : List Coin}
    {id action : String} {cancel : Option Nat} {r : Response}
    (h : reverseBid env s sender funds id action cancel = .ok (s', r)) :
    ∃ b p tq effQuote effFee,
      funds = [] ∧ loadBid s id = some b ∧
      (if action == "cancel_bid" then sender == b.owner else memS sender s.info.executors) = true ∧
      b.accBase ≤ b.base.amount ∧
      (cancel.isNone = true ∨ cancel.getD b.remBase % s.info.increment = 0) ∧
      cancel.getD b.remBase ≤ b.remBase ∧
      Dec.parse b.price = some p ∧ Dec.total p (cancel.getD b.remBase) = .ok tq ∧
      tq.hasFract = false ∧ tq.toU128 = some effQuote ∧
      cancelFee b effQuote = .ok effFee ∧
      (env.restricted b.quote.denom = true → effQuote ≠ 0) ∧
      s' = { s with bids := putBid s.bids b.id (b.accumulate (cancel.getD b.remBase) effQuote (effFee.getD 0)) } ∧
      r = { msgs := payMsg env b.quote.denom effQuote b.owner ::
                    payIfPosMsgs env b.quote.denom (effFee.getD 0) b.owner,
            attrs := [("action", action), ("id", id),
                      ("reverse_size", toString (cancel.getD b.remBase)),
                      ("order_open", openFlag
                        (b.base.amount - (b.accBase + cancel.getD b.remBase) != 0))] } := by
  unfold reverseBid at h
  simp only [Res.bind_eq_ok, guardR_eq_ok, orErr_eq_ok, addTransfer_eq_ok, payIfPos_eq_ok,
    subR_eq_ok, Res.pure_eq, Res.ok.injEq, Prod.mk.injEq] at h
  obtain ⟨_, _, _, hf, b, hb, _, hauth, _, ⟨hab, rfl⟩, _, _, _, hinc, _, hle, p, hp, tq, htq, _, hfr,
    effQuote, heq, effFee, hcf, m1, ⟨hz, rfl⟩, m2, rfl, rfl, rfl⟩ := h
  refine ⟨b, p, tq, effQuote, effFee, by simpa using hf, hb, hauth, hab,
    by simpa [Bool.or_eq_true, Bid.remBase] using hinc, by simpa [Bid.remBase] using hle, hp,
    by simpa [Bid.remBase] using htq, by simpa using hfr, heq, hcf, hz, ?_, ?_⟩
  · simp [Bid.accumulate, Bid.remBase]
  · simp [Bid.accumulate, Bid.remBase]

/-! ### execute_match -/

/-- `add_transfer` with an explicit mechanism flag (the match path passes the quote's flag
    together with the fee's denomination) -/
def payMsgR (r : Bool) (contract d : String) (n : Nat) (to : String) : Msg :=
  if r then .transfer ⟨d, n⟩ to contract contract else .bank to ⟨d, n⟩

theorem payMsg_eq (env : Env) (d : String) (n : Nat) (to : String) :
    payMsg env d n to = payMsgR (env.restricted d) env.contract d n to := rfl

theorem addTransferR_eq_ok {r : Bool} {c d : String} {n : Nat} {to : String} {m : Msg} :
    addTransfer r n d to c = .ok m ↔ (r = true → n ≠ 0) ∧ m = payMsgR r c d n to := by
  unfold addTransfer payMsgR
  cases r
  · simp only [Bool.false_eq_true, if_false, Res.ok.injEq, false_implies, true_and]; exact eq_comm
  · by_cases hn : n = 0
    · simp [hn]
    · simp only [if_true, hn, if_false, Res.ok.injEq, forall_const, ne_eq, not_false_eq_true, true_and]
      exact eq_comm

def payIfPosMsgsR (r : Bool) (c d : String) (n : Nat) (to : String) : List Msg :=
  if n = 0 then [] else [payMsgR r c d n to]

theorem payIfPosR_eq_ok {r : Bool} {c d : String} {n : Nat} {to : String} {ms : List Msg} :
    payIfPos r n d to c = .ok ms ↔ ms = payIfPosMsgsR r c d n to := by
  unfold payIfPos payIfPosMsgsR
  by_cases hn : n = 0
  · simp only [hn, beq_self_eq_true, if_true, Res.ok.injEq]; exact eq_comm
  · have hx : addTransfer r n d to c = .ok (payMsgR r c d n to) :=
      addTransferR_eq_ok.mpr ⟨fun _ => hn, rfl⟩
    simp only [hn, beq_iff_eq, if_false, hx, Res.ok.injEq]; exact eq_comm

theorem priceRule_ok {a b e : Dec} {u : Unit} :
    priceRule a b e = .ok u ↔
      (Dec.lt a b = true ∧ (Dec.eqv e a = true ∨ Dec.eqv e b = true)) ∨
      (Dec.lt a b = false ∧ Dec.eqv a b = true ∧ Dec.eqv e a = true) := by
  unfold priceRule
  by_cases h1 : Dec.lt a b = true
  · simp [h1]
  · by_cases h2 : Dec.eqv a b = true
    · simp [h1, h2]
    · simp [h1, h2]

/-- the ask fee of a match is the configured rate applied to the gross proceeds -/
def AskFeeIs (info : Info) (grossD : Dec) (n : Nat) : Prop :=
  match info.askFee with
  | some fi => ∃ r, Dec.parse fi.rate = some r ∧ Dec.rateFee r grossD = .ok n
  | none => n = 0

theorem askFeeAmt_ok {info : Info} {g : Dec} {n : Nat} :
    askFeeAmt info g = .ok n ↔ AskFeeIs info g n := by
  unfold askFeeAmt AskFeeIs
  cases info.askFee with
  | none => simp only [Res.ok.injEq]; exact eq_comm
  | some fi =>
    cases hp : Dec.parse fi.rate with
    | none => simp [hp]
    | some r => simp [hp]

def askFeeMsgList (env : Env) (info : Info) (rQ : Bool) (askFee : Nat) (qd : String) : List Msg :=
  match info.askFee with
  | some fi => payIfPosMsgsR rQ env.contract qd askFee fi.account
  | none => []

theorem askFeeMsgs_ok {env : Env} {info : Info} {rQ : Bool} {n : Nat} {qd : String} {ms : List Msg} :
    askFeeMsgs env info rQ n qd = .ok ms ↔ ms = askFeeMsgList env info rQ n qd := by
  unfold askFeeMsgs askFeeMsgList
  cases info.askFee with
  | none => simp only [Res.ok.injEq]; exact eq_comm
  | some fi => simp only [payIfPosR_eq_ok]

theorem bidFeeMsgs_ok {env : Env} {info : Info} {bid : Bid} {rQ : Bool} {n : Nat} {ms : List Msg} :
    bidFeeMsgs env info bid rQ n = .ok ms ↔
      (n = 0 ∧ ms = []) ∨
      (n ≠ 0 ∧ ∃ fi, info.bidFee = some fi ∧
        ms = [payMsgR rQ env.contract ((bid.fee.map (·.denom)).getD bid.quote.denom) n fi.account]) := by
  unfold bidFeeMsgs
  by_cases hn : n = 0
  · simp only [hn, beq_self_eq_true, if_true, Res.ok.injEq, true_and, ne_eq, not_true_eq_false,
      false_and, or_false]; exact eq_comm
  · cases hb : info.bidFee with
    | none => simp [hn]
    | some fi => simp [hn, payIfPosR_eq_ok, payIfPosMsgsR]

def classMsgList (env : Env) (ask' : Ask) (bid : Bid) (rB rQ : Bool) (net size : Nat) : List Msg :=
  match ask'.cls with
  | .basic => payIfPosMsgsR rQ env.contract bid.quote.denom net ask'.owner ++
              [payMsgR rB env.contract ask'.base size bid.owner]
  | .ready ap c => [payMsg env c.denom size bid.owner, payMsgR rB env.contract ask'.base size ap] ++
                   payIfPosMsgsR rQ env.contract bid.quote.denom net ap
  | .pending => []

theorem classMsgs_ok {env : Env} {ask' : Ask} {bid : Bid} {rB rQ : Bool} {net size : Nat}
    {ms : List Msg} :
    classMsgs env ask' bid rB rQ net size = .ok ms ↔
      ask'.cls ≠ .pending ∧ (rB = true → size ≠ 0) ∧
      (∀ ap c, ask'.cls = .ready ap c → env.restricted c.denom = true → size ≠ 0) ∧
      ms = classMsgList env ask' bid rB rQ net size := by
  unfold classMsgs classMsgList
  cases hc : ask'.cls with
  | pending => simp
  | basic =>
    simp only [Res.bind_eq_ok, payIfPosR_eq_ok, addTransferR_eq_ok, Res.pure_eq, Res.ok.injEq,
      ne_eq, reduceCtorEq, not_false_eq_true, true_and, false_implies, implies_true]
    constructor
    · rintro ⟨_, rfl, _, ⟨hz, rfl⟩, rfl⟩; exact ⟨hz, rfl⟩
    · rintro ⟨hz, rfl⟩; exact ⟨_, rfl, _, ⟨hz, rfl⟩, rfl⟩
  | ready ap c =>
    simp only [Res.bind_eq_ok, payIfPosR_eq_ok, addTransferR_eq_ok, addTransfer_eq_ok, Res.pure_eq,
      Res.ok.injEq, ne_eq, reduceCtorEq, not_false_eq_true, true_and, AskClass.ready.injEq, and_imp]
    constructor
    · rintro ⟨_, ⟨hz1, rfl⟩, _, ⟨hz2, rfl⟩, _, rfl, rfl⟩
      exact ⟨hz2, fun _ _ h1 h2 => by subst h1 h2; exact hz1, rfl⟩
    · rintro ⟨hz2, hz1, rfl⟩
      exact ⟨_, ⟨hz1 ap c rfl rfl, rfl⟩, _, ⟨hz2, rfl⟩, _, rfl, rfl⟩

/-- the fee part of a price-improvement refund -/
def FeeRefundIs (origFee bidFee feeRefund : Nat) : Prop :=
  (origFee ≠ 0 ∧ bidFee ≤ origFee ∧ feeRefund = origFee - bidFee) ∨ (origFee = 0 ∧ feeRefund = 0)

def refundMsgList (env : Env) (b : Bid) (rQ : Bool) (refund feeRefund : Nat) : List Msg :=
  payIfPosMsgsR rQ env.contract b.quote.denom refund b.owner ++
  (if refund ≠ 0 then
     payIfPosMsgsR rQ env.contract ((b.fee.map (·.denom)).getD b.quote.denom) feeRefund b.owner
   else [])

theorem refundPart_ok {env : Env} {b : Bid} {improved : Bool} {bidP : Dec}
    {size gross bidFee : Nat} {rQ : Bool} {rp : List Msg × Bid} :
    refundPart env b improved bidP size gross bidFee rQ = .ok rp ↔
      (improved = false ∧ rp = ([], b.accumulate size gross bidFee)) ∨
      (improved = true ∧ ∃ origD orig origFee feeRefund,
        Dec.total bidP size = .ok origD ∧ origD.hasFract = false ∧ origD.toU128 = some orig ∧
        gross ≤ orig ∧ calcFee b orig = .ok origFee ∧ FeeRefundIs origFee bidFee feeRefund ∧
        rp = (refundMsgList env b rQ (orig - gross) feeRefund,
              (b.accumulate size gross bidFee).accumulate 0 (orig - gross) feeRefund)) := by
  unfold refundPart
  cases improved with
  | false =>
    simp only [Bool.false_eq_true, if_false, Res.ok.injEq, true_and, false_and, or_false]
    exact eq_comm
  | true =>
    simp only [if_true, Res.bind_eq_ok, guardR_eq_ok, orErr_eq_ok, subR_eq_ok, payIfPosR_eq_ok,
      Res.pure_eq, Res.ok.injEq, Bool.true_eq_false, false_and, false_or, true_and]
    constructor
    · rintro ⟨origD, ht, _, hfr, orig, hu, _, ⟨hle, rfl⟩, origFee, hcf, feeRefund, hfee, _, rfl, _, hb, rfl⟩
      refine ⟨origD, orig, origFee, feeRefund, ht, by simpa using hfr, hu, hle, hcf, ?_, ?_⟩
      · unfold FeeRefundIs
        by_cases h0 : origFee = 0
        · simp [h0] at hfee; exact Or.inr ⟨h0, hfee.symm⟩
        · simp [h0] at hfee; exact Or.inl ⟨h0, hfee.1, hfee.2⟩
      · unfold refundMsgList
        by_cases hr : orig - gross = 0
        · simp [hr] at hb ⊢; subst hb; simp [payIfPosMsgsR]
        · simp [hr, payIfPosR_eq_ok] at hb ⊢; subst hb; rfl
    · rintro ⟨origD, orig, origFee, feeRefund, ht, hfr, hu, hle, hcf, hfee, rfl⟩
      refine ⟨origD, ht, (), by simpa using hfr, orig, hu, _, ⟨hle, rfl⟩, origFee, hcf, feeRefund, ?_,
        _, rfl, _, ?_, rfl⟩
      · rcases hfee with ⟨h0, hle2, rfl⟩ | ⟨h0, rfl⟩
        · simp [h0, hle2]
        · simp [h0]
      · by_cases hr : orig - gross = 0
        · simp [hr]
        · simp [hr, payIfPosR_eq_ok]

/-- what an accepted match establishes -/
theorem executeMatch_ok {env : Env} {s s' : State} {sender : String} {funds : List Coin}
    {askId bidId price : String} {size : Nat} {r : Response}
    (h : executeMatch env s sender funds askId bidId price size = .ok (s', r)) :
    ∃ a b askP bidP execP grossD gross askFee bidFee m2 m3 rp,
      memS sender s.info.executors = true ∧ funds = [] ∧
      s.asks.get? askId = some a ∧ loadBid s bidId = some b ∧ a.quote = b.quote.denom ∧
      Dec.parse a.price = some askP ∧ Dec.parse b.price = some bidP ∧ Dec.parse price = some execP ∧
      priceRule askP bidP execP = .ok () ∧
      b.accBase ≤ b.base.amount ∧ size ≤ a.size ∧ size ≤ b.remBase ∧
      Dec.total execP size = .ok grossD ∧ grossD.hasFract = false ∧ grossD.toU128 = some gross ∧
      AskFeeIs s.info grossD askFee ∧ askFee ≤ gross ∧
      calcFee b gross = .ok bidFee ∧
      bidFeeMsgs env s.info b (env.restricted b.quote.denom) bidFee = .ok m2 ∧
      classMsgs env (a.reduce size) b (env.restricted a.base) (env.restricted b.quote.denom)
        (gross - askFee) size = .ok m3 ∧
      refundPart env b (Dec.lt execP bidP) bidP size gross bidFee (env.restricted b.quote.denom) = .ok rp ∧
      s' = { s with asks := putAsk s.asks askId (a.reduce size), bids := putBid s.bids bidId rp.2 } ∧
      r = { msgs := askFeeMsgList env s.info (env.restricted b.quote.denom) askFee b.quote.denom ++
                    m2 ++ m3 ++ rp.1,
            attrs := [("action", "execute"), ("ask_id", askId), ("bid_id", bidId),
                      ("base", b.base.denom), ("quote", a.quote), ("price", price),
                      ("size", toString size), ("ask_fee", toString askFee),
                      ("bid_fee", toString bidFee)] } := by
  unfold executeMatch at h
  simp only [Res.bind_eq_ok, guardR_eq_ok, orErr_eq_ok, subR_eq_ok, askFeeAmt_ok, askFeeMsgs_ok,
    Res.pure_eq, Res.ok.injEq, Prod.mk.injEq] at h
  obtain ⟨_, hex, _, hf, a, ha, b, hb, _, hq, askP, hap, bidP, hbp, execP, hep, _, hpr, _, ⟨hab, rfl⟩,
    _, hsz, grossD, hg, _, hfr, gross, hgu, askFee, haf, m1, rfl, _, ⟨hle, rfl⟩, bidFee, hbf, m2, hm2,
    m3, hm3, rp, hrp, rfl, rfl⟩ := h
  simp only [Bool.and_eq_true, decide_eq_true_eq] at hsz
  exact ⟨a, b, askP, bidP, execP, grossD, gross, askFee, bidFee, m2, m3, rp, hex, by simpa using hf,
    ha, hb, by simpa using hq, hap, hbp, hep, hpr, hab, hsz.1, by simpa [Bid.remBase] using hsz.2,
    hg, by simpa using hfr, hgu, haf, hle, hbf, hm2, hm3, hrp, rfl, rfl⟩

end Ats
