/-
  C16 — Queries are read-only and report the book and configuration faithfully.
  (Read-only-ness is by type in the model: `query : State → QueryMsg → Res QueryOut` returns no
  state; on the implementation the harness compares the complete storage around each query.)
-/
import AtsProofs.Inv
namespace Ats.Proofs
open Ats Ats.Spec

/-- get-ask / get-bid return exactly the order on the book under the given id and fail for
    any id not on it; the two record queries return exactly the stored records -/
theorem C16_get (s : State) (q : QueryMsg) :
    C16_queryOK s q (query s q).toOption = true := by
  unfold C16_queryOK query
  cases q with
  | getAsk id =>
    by_cases hv : isUuidAnyForm id = true
    · cases ha : s.asks.get? id <;> simp [QueryMsg.valid, hv, ha, guardR, orErr, Res.toOption, bind, Res.bind]
    · simp [QueryMsg.valid, hv, guardR, Res.toOption, bind, Res.bind]
  | getBid id =>
    by_cases hv : isUuidAnyForm id = true
    · cases hb : loadBid s id <;> simp [QueryMsg.valid, hv, hb, guardR, orErr, Res.toOption, bind, Res.bind]
    · simp [QueryMsg.valid, hv, guardR, Res.toOption, bind, Res.bind]
  | getInfo => simp [QueryMsg.valid, guardR, Res.toOption, bind, Res.bind]
  | getVersion => simp [QueryMsg.valid, guardR, Res.toOption, bind, Res.bind]

/-- an id that is not on the book – never used, or closed by a fill, cancel, expiry or reject –
    is not reported -/
theorem C16_closed (s : State) (id : String) :
    (s.asks.get? id = none → ∃ e, query s (.getAsk id) = .err e) ∧
    (s.bids.get? id = none → ∃ e, query s (.getBid id) = .err e) := by
  constructor
  · intro h
    cases hq : query s (.getAsk id) with
    | err e => exact ⟨e, rfl⟩
    | ok out =>
      have := (query_ok.mp hq)
      simp only at this
      obtain ⟨_, a, ha, _⟩ := this
      rw [h] at ha; cases ha
  · intro h
    cases hq : query s (.getBid id) with
    | err e => exact ⟨e, rfl⟩
    | ok out =>
      have := (query_ok.mp hq)
      simp only at this
      obtain ⟨_, b, hb, _⟩ := this
      rw [loadBid_some, h] at hb; cases hb

/-- what a query returns is what the next operation acts on: the amounts reported for an ask
    are exactly those an immediately following cancel pays out -/
theorem C16_next_ask (env : Env) (s s' : State) (id : String) (a : Ask) (sender : String) (r : Response)
    (hq : query s (.getAsk id) = .ok (.ask a))
    (hc : cancelAsk env s sender [] id = .ok (s', r)) :
    r.msgs = payMsg env a.base a.size a.owner :: approverMsgs env a.cls (fun c => c.amount) := by
  have := query_ok.mp hq
  simp only at this
  obtain ⟨_, a', ha', he⟩ := this
  cases he
  obtain ⟨a2, _, ha2, _, _, _, _, hr⟩ := cancelAsk_ok hc
  rw [ha'] at ha2; cases ha2
  rw [hr]

end Ats.Proofs
