/-
  AtsProofs.Inv — what `Spec.sane s = true` gives for the orders found on the book.
-/
import AtsProofs.Book
import AtsProofs.Steps2
namespace Ats
open Ats Ats.Spec

theorem sane_ask {s : State} (h : sane s = true) {k : String} {a : Ask}
    (ha : s.asks.get? k = some a) : askSane s.info k a = true := by
  unfold sane at h
  simp only [Bool.and_eq_true, List.all_eq_true] at h
  exact h.1.2 (k, a) (Book.get?_some_mem ha)

theorem sane_bid {s : State} (h : sane s = true) {k : String} {e : BidEntry}
    (he : s.bids.get? k = some e) : bidSane s.info k e = true := by
  unfold sane at h
  simp only [Bool.and_eq_true, List.all_eq_true] at h
  exact h.2 (k, e) (Book.get?_some_mem he)

theorem sane_info {s : State} (h : sane s = true) : infoSane s.info = true := by
  unfold sane at h
  simp only [Bool.and_eq_true] at h
  exact h.1.1.1.1

theorem loadBid_some {s : State} {k : String} {b : Bid} :
    loadBid s k = some b ↔ s.bids.get? k = some (.v3 b) := by
  unfold loadBid
  cases hx : s.bids.get? k with
  | none => simp
  | some e => cases e <;> simp

/-- the facts about an ask on a sane book, as propositions -/
structure AskFacts (info : Info) (k : String) (a : Ask) : Prop where
  id_eq : a.id = k
  key_form : isUuidAnyForm k = true
  size_pos : 0 < a.size
  price_ok : priceOK info a.price = true
  quote_ok : memS a.quote info.quotes = true
  cls_ok : match a.cls with
    | .basic => a.base = info.baseDenom
    | .pending => a.base ≠ info.baseDenom ∧ memS a.base info.convertible = true
    | .ready _ c => a.base ≠ info.baseDenom ∧ memS a.base info.convertible = true ∧
                    c.denom = info.baseDenom ∧ c.amount = a.size

theorem askSane_facts {info : Info} {k : String} {a : Ask} (h : askSane info k a = true) :
    AskFacts info k a := by
  unfold askSane at h
  simp only [Bool.and_eq_true, beq_iff_eq, decide_eq_true_eq] at h
  obtain ⟨⟨⟨⟨⟨h1, h2⟩, h3⟩, h4⟩, h5⟩, h6⟩ := h
  refine ⟨h1, h2, h3, h4, h5, ?_⟩
  cases hc : a.cls <;> simp only [hc] at h6 ⊢
  · simpa using h6
  · simpa using h6
  · simp only [Bool.and_eq_true, bne_iff_ne, ne_eq, beq_iff_eq] at h6
    exact ⟨h6.1.1.1, h6.1.1.2, h6.1.2, h6.2⟩

/-- the facts about a bid on a sane book -/
structure BidFacts (info : Info) (k : String) (b : Bid) : Prop where
  id_eq : b.id = k
  key_form : isUuidAnyForm k = true
  price_ok : priceOK info b.price = true
  base_lt : b.accBase < b.base.amount
  quote_le : b.accQuote ≤ b.quote.amount
  fee_le : b.accFee ≤ b.feeAmount
  qinv : quoteInv b = true
  base_lim : b.base.amount < LIM
  quote_lim : b.quote.amount < LIM
  fee_lim : b.feeAmount < LIM
  base_denom : b.base.denom = info.baseDenom
  quote_ok : memS b.quote.denom info.quotes = true
  fee_denom : ∀ f, b.fee = some f → f.denom = b.quote.denom

theorem bidSane_facts {info : Info} {k : String} {b : Bid} (h : bidSane info k (.v3 b) = true) :
    BidFacts info k b := by
  unfold bidSane at h
  simp only [Bool.and_eq_true, beq_iff_eq, decide_eq_true_eq] at h
  obtain ⟨⟨⟨⟨⟨⟨⟨⟨⟨⟨⟨⟨h1, h2⟩, h3⟩, h4⟩, h5⟩, h6⟩, h7⟩, h8⟩, h9⟩, h10⟩, h11⟩, h12⟩, h13⟩ := h
  refine ⟨h1, h2, h3, h4, h5, h6, h7, h8, h9, h10, h11, h12, ?_⟩
  intro f hf
  simp [hf] at h13
  exact h13

theorem sane_bid_v3 {s : State} (h : sane s = true) {k : String} {b : Bid}
    (hb : loadBid s k = some b) : BidFacts s.info k b :=
  bidSane_facts (sane_bid h (loadBid_some.mp hb))

theorem sane_ask_facts {s : State} (h : sane s = true) {k : String} {a : Ask}
    (ha : s.asks.get? k = some a) : AskFacts s.info k a :=
  askSane_facts (sane_ask h ha)

end Ats
