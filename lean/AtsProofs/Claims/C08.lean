/- root of the proof obligations of C08 -/
import AtsProofs.C08
import AtsProofs.C11b
