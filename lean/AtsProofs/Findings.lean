/-
  AtsProofs.Findings — the hypotheses the property theorems carry are *necessary*: kernel-checked
  witnesses, on the executable model, of the two magnitude findings (DESIGN §8).

  F6: a product that needs more than 96 significant bits is rounded inside `checked_mul`; the
      whole-number test then passes on the rounded product.  From a consistent book (`sane`) the
      model accepts a match whose price × size is not a whole number (`C03_whole = false`), after
      which the book is no longer consistent (`sane = false`): `Sane_step` and `C03_whole_thm`
      do not hold without `ExactStep`.
  F7: beyond `4·F·Q ≤ 10^28` the pro-rata fee computed through the 28-digit quotient can be one
      unit off the nearest integer: `feeFor_near` does not hold without `C09_small`.

  The same inputs are in the corpus (`corpus/f6_*.json`, `corpus/f7_*.json`) and are replayed
  against the implementation on every run, which answers as the model does.
-/
import AtsProofs.Witness
namespace Ats.Proofs.Findings
open Ats Ats.Spec Ats.Dec Ats.Proofs

def env : Env :=
  { contract := "contract", restricted := fun _ => false, attrs := fun _ => some [],
    validAddr := fun a => decide (a.length ≥ 3), pkgVersion := "0.19.2", crateName := "ats-smart-contract" }

def A := "00000000-0000-0000-0000-0000000000a1"
def B := "00000000-0000-0000-0000-0000000000b1"

/-- lots of ten, prices with one decimal, no fees -/
def info : Info :=
  { name := "ats", bindName := "", baseDenom := "base", convertible := [], quotes := ["quote"],
    approvers := ["approver"], executors := ["exec"], askFee := none, bidFee := none,
    askAttrs := [], bidAttrs := [], precision := 1, increment := 10 }

def big : Nat := 5300000000000000000000000010

/-- an ask and a bid of 53…10 units at 1.5: 79…15 quote escrowed, everything on the grid -/
def s : State :=
  { info := info, version := ⟨"ats-smart-contract", "0.19.2"⟩,
    asks := [(A, { id := A, owner := "seller", cls := .basic, base := "base", quote := "quote",
                   price := "1.5", size := big })],
    bids := [(B, .v3 { id := B, owner := "buyer", base := ⟨"base", big⟩, quote := ⟨"quote", 7950000000000000000000000015⟩,
                       fee := none, price := "1.5", accBase := 0, accQuote := 0, accFee := 0 })] }

/-- the match: one unit short of the whole order – 1.5 × 53…09 = 79…13.5 -/
def call : Call := ⟨"exec", [], .executeMatch A B "1.5" (big - 1)⟩

def after : State := match execute env s call with | .ok (s', _) => s' | .err _ => s

theorem F6_book_consistent : sane s = true := by decide +kernel

theorem F6_accepted : (execute env s call).isOk = true := by decide +kernel

/-- the accepted match's price × size is not a whole number … -/
theorem F6_not_whole : C03_whole s B "1.5" (big - 1) = false := by decide +kernel

/-- … because the magnitude hypothesis fails (the product needs more than 96 bits) … -/
theorem F6_inexact : Witness.exactStepB s call.msg = false := by decide +kernel

/-- … and the book it leaves is no longer consistent (the bid's unspent quote is not price ×
    unfilled size) -/
theorem F6_book_inconsistent_after : sane after = false := by decide +kernel

/-- F7: fee 9952633520079 on a quote of 2888046710984459, 828079463750856 of it unspent: the
    pipeline keeps …966 where the nearest integer is …967, and 4·F·Q exceeds 10^28 -/
def F : Nat := 9952633520079
def Q : Nat := 2888046710984459
def q : Nat := 828079463750856

theorem F7_off_by_one :
    (Dec.feeFor F Q q).toOption = some ((2 * F * q + Q) / (2 * Q) - 1) ∧ 10 ^ 28 < 4 * F * Q := by decide +kernel

end Ats.Proofs.Findings
