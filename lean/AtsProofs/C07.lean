/-
  C07 — Admission: only fully funded, well-formed orders enter the book.
-/
import AtsProofs.Inv
import AtsProofs.DecLemmas
import AtsProofs.DecProgress
namespace Ats.Proofs
open Ats Ats.Spec

theorem escrowOK_of {env : Env} {c : Call} {r : Response} {coin : Coin}
    (hf : fundsOk (env.restricted coin.denom) c.funds coin = true)
    (hm : r.msgs = pullMsgs env coin.denom coin.amount c.sender) :
    escrowOK env c r coin = true := by
  unfold escrowOK fundsOk pullMsgs at *
  cases hr : env.restricted coin.denom <;> simp_all

/-- C07 (asks, "only if"): a recorded ask was escrowed exactly – attached funds of exactly that
    one coin, or a single pull transfer from the sender with no attached funds for a
    restricted marker –, is well-formed in every listed respect, reproduces the request with
    the sender as owner, and did not replace an existing order -/
theorem C07_ask_only_if (env : Env) (s s' : State) (c : Call) (r : Response)
    (id base quote price : String) (size : Nat)
    (hm : c.msg = .createAsk id base quote price size)
    (h : execute env s c = .ok (s', r)) :
    C07_askOK env s c id base quote price size r s' = true := by
  unfold execute at h
  simp only [Res.bind_eq_ok, guardR_eq_ok, hm] at h
  obtain ⟨_, hv, h⟩ := h
  simp only [ExecMsg.valid, Bool.and_eq_true, decide_eq_true_eq] at hv
  obtain ⟨hb, hf, hq, _, hs, hp, hat, hex, _, rfl, hmsgs, _⟩ := createAsk_ok h
  have hesc : escrowOK env c r ⟨base, size⟩ = true := escrowOK_of hf hmsgs
  unfold C07_askOK C07_askConds
  simp only [hv.1.1.1.1, hex, hq, hp, hs, hat, hesc, Book.get?_set_eq, Bool.and_eq_true,
    Option.isNone_none, decide_eq_true_eq, Bool.or_eq_true, beq_iff_eq, beq_self_eq_true,
    and_true, true_and]
  refine ⟨⟨hb, hv.2⟩, ?_⟩
  by_cases hbb : base = s.info.baseDenom <;> simp [hbb]

theorem eqv_ofNat {t : Dec} {n : Nat} (hneg : t.neg = false) (h : Dec.eqv t (Dec.ofNat n) = true) :
    t.mant = n * 10 ^ t.scale := by
  unfold Dec.eqv Dec.num Dec.ofNat at h
  simp only [hneg, Bool.false_eq_true, if_false, Nat.pow_zero, Nat.mul_one, beq_iff_eq] at h
  exact_mod_cast h

/-- C07 (bids, "only if", under the magnitude hypothesis on price × size and rate × total):
    a recorded bid escrowed exactly price × size of quote plus the fee at the configured rate
    (rounded half away from zero, in the quote denomination), price × size is a whole number
    equal to the stated quote size, and everything else as for asks -/
theorem C07_bid_only_if (env : Env) (s s' : State) (c : Call) (r : Response)
    (id base : String) (fee : Option Coin) (price quote : String) (qs size : Nat)
    (hm : c.msg = .createBid id base fee price quote qs size)
    (hexact : ∀ p rate, Dec.parse price = some p → bidRate s.info = some rate →
        exactMul p size = true ∧ exactMul rate qs = true)
    (h : execute env s c = .ok (s', r)) :
    C07_bidOK env s c id base fee price quote qs size r s' = true := by
  unfold execute at h
  simp only [Res.bind_eq_ok, guardR_eq_ok, hm] at h
  obtain ⟨_, hv, h⟩ := h
  simp only [ExecMsg.valid, Bool.and_eq_true, decide_eq_true_eq] at hv
  obtain ⟨p, total, rate, feeSize, hp, _, hs, ht, hfr, hlim, heq, hrate, hfee, hfm, hq, hb, hat, hfu, hex,
    _, rfl, hr⟩ := createBid_ok h
  obtain ⟨hpp, _, hpn, _⟩ := checkPrice_ok.mp hp
  obtain ⟨hx1, hx2⟩ := hexact p rate hpp hrate
  have hps := Dec.parse_scale hpp
  have htn : total.neg = false := Dec.mul_nat_neg hpn (Dec.total_inv ht).2
  have htu : total.toU128 = some total.trunc := by simp [Dec.toU128, Dec.trunc, htn]
  obtain ⟨hw, hg⟩ := Dec.total_exact hps hpn hx1 ht hfr htu
  have hmant := eqv_ofNat htn heq
  have htrunc : total.trunc = qs := by
    unfold Dec.trunc; rw [hmant, Nat.mul_div_cancel _ (Dec.pow10_pos _)]
  have hrs : rate.scale ≤ 28 := by
    unfold bidRate at hrate
    cases hbf : s.info.bidFee with
    | none => simp [hbf] at hrate; subst hrate; simp [Dec.ofNat]
    | some fi => simp [hbf] at hrate; exact Dec.parse_scale hrate
  have hadm := Dec.rateFee_exact hrs hmant htn hx2 hfee
  have hesc : escrowOK env c r ⟨quote, qs + feeAmt fee⟩ = true := by
    apply escrowOK_of
    · rw [htrunc] at hfu; exact hfu
    · rw [hr]
  unfold C07_bidOK C07_bidConds
  simp only [hv.1.1.1.1.1, hex, hb, hq, checkPrice_priceOK hp, hs, hat, hpp, hrate, hw, hadm, hesc,
    Book.get?_set_eq, Bool.and_eq_true, Option.isNone_none, decide_eq_true_eq, beq_iff_eq,
    beq_self_eq_true, and_true, true_and]
  refine ⟨hv.2, ⟨by rw [← hg, htrunc], hv.1.2⟩, ?_⟩
  unfold feeMatches at hfm
  cases fee <;> simp_all

/-- C07 (asks, "if"): every request meeting the admission conditions, with the funds rule of
    the base denomination's marker type observed, is accepted -/
theorem C07_ask_if (env : Env) (s : State) (c : Call) (id base quote price : String) (size : Nat)
    (hm : c.msg = .createAsk id base quote price size)
    (hinfo : infoSane s.info = true)
    (hc : C07_askConds env s c id base quote price size = true)
    (hne : base ≠ "" ∧ quote ≠ "" ∧ price ≠ "")
    (hfunds : fundsOk (env.restricted base) c.funds ⟨base, size⟩ = true) :
    ∃ s' r, execute env s c = .ok (s', r) := by
  unfold C07_askConds at hc
  simp only [Bool.and_eq_true, decide_eq_true_eq, Bool.or_eq_true, beq_iff_eq, Option.isNone_iff_eq_none] at hc
  obtain ⟨⟨⟨⟨⟨⟨⟨hid, hex⟩, hb⟩, hq⟩, hp⟩, hsz⟩, hinc⟩, hat⟩ := hc
  obtain ⟨p, hcp, _⟩ := priceOK_checkPrice hp
  unfold infoSane at hinfo
  simp only [Bool.and_eq_true, decide_eq_true_eq] at hinfo
  have hi : s.info.increment ≠ 0 := by have := hinfo.1.1.1.1.2; omega
  have hpull : pullR env base size c.sender = .ok (pullMsgs env base size c.sender) :=
    pullR_eq_ok.mpr ⟨fun _ => by omega, rfl⟩
  have hattr : checkAttrs env c.sender s.info.askAttrs = .ok () := checkAttrs_ok.mpr hat
  refine ⟨{ s with asks := s.asks.set id ⟨id, c.sender, if base != s.info.baseDenom then .pending else .basic, base, quote, price, size⟩ },
    { msgs := pullMsgs env base size c.sender,
      attrs := [("action", "create_ask"), ("id", id),
                ("class", classJson (if base != s.info.baseDenom then .pending else .basic)),
                ("target_base", s.info.baseDenom), ("base", base), ("quote", quote),
                ("price", price), ("size", toString size)] }, ?_⟩
  unfold execute
  simp only [hm, ExecMsg.valid, hid]
  unfold createAsk
  simp [guardR, hne, hb, hfunds, hq, hi, hinc, hcp, hattr, hex, hpull, hsz]

/-- C07 (bids, "if"): every request meeting the admission conditions – with the fee at the
    configured rate, the funds rule of the quote denomination's marker type observed, and the
    amounts within the 96-bit range of the contract's decimal arithmetic – is accepted -/
theorem C07_bid_if (env : Env) (s : State) (c : Call) (id base : String) (fee : Option Coin)
    (price quote : String) (qs size : Nat)
    (hm : c.msg = .createBid id base fee price quote qs size)
    (hinfo : infoSane s.info = true)
    (hc : C07_bidConds env s c id base fee price quote qs size = true)
    (hne : base ≠ "" ∧ quote ≠ "" ∧ price ≠ "")
    (hlim : size < LIM ∧ qs < LIM)
    (hexact : ∀ rate, bidRate s.info = some rate → exactMul rate qs = true ∧ exactFee rate qs < LIM)
    (hfunds : fundsOk (env.restricted quote) c.funds ⟨quote, qs + feeAmt fee⟩ = true) :
    ∃ s' r, execute env s c = .ok (s', r) := by
  unfold C07_bidConds at hc
  simp only [Bool.and_eq_true, decide_eq_true_eq, beq_iff_eq, Option.isNone_iff_eq_none] at hc
  obtain ⟨⟨⟨⟨⟨⟨⟨⟨hid, hex⟩, hb⟩, hq⟩, hp⟩, hsz⟩, hinc⟩, hat⟩, harith⟩ := hc
  obtain ⟨p, hcp, hpp⟩ := priceOK_checkPrice hp
  obtain ⟨_, _, hpn, _⟩ := checkPrice_ok.mp hcp
  cases hrate : bidRate s.info with
  | none => simp [hpp, hrate] at harith
  | some rate =>
  simp only [hpp, hrate, Bool.and_eq_true, decide_eq_true_eq, beq_iff_eq] at harith
  obtain ⟨⟨⟨hw, hprod⟩, hqs1⟩, hfee⟩ := harith
  obtain ⟨hx2, hfit⟩ := hexact rate hrate
  cases hadm : admissibleFee rate qs with
  | none => simp [hadm] at hfee
  | some due =>
  simp only [hadm] at hfee
  have hps := Dec.parse_scale hpp
  obtain ⟨total, ht, hfr, htu⟩ := Dec.total_of_whole hps hpn hlim.1 hw (by rw [hprod]; exact hlim.2)
  rw [hprod] at htu
  obtain ⟨htn, hmant, htrunc⟩ := Dec.whole_repr hfr htu
  have heqv := Dec.eqv_ofNat_of htn hmant
  have hrs : rate.scale ≤ 28 := by
    unfold bidRate at hrate
    cases hbf : s.info.bidFee with
    | none => simp [hbf] at hrate; subst hrate; simp [Dec.ofNat]
    | some fi => simp [hbf] at hrate; exact Dec.parse_scale hrate
  have hrf := Dec.rateFee_progress hrs hmant htn hx2 hfit hadm
  have hfm : checkFee fee due quote = .ok () := by
    apply checkFee_ok.mpr
    unfold feeMatches
    cases fee with
    | none => simpa using hfee
    | some f => simp at hfee; exact hfee
  unfold infoSane at hinfo
  simp only [Bool.and_eq_true, decide_eq_true_eq] at hinfo
  have hi : s.info.increment ≠ 0 := by have := hinfo.1.1.1.1.2; omega
  have hpull : pullR env quote (qs + feeAmt fee) c.sender = .ok (pullMsgs env quote (qs + feeAmt fee) c.sender) :=
    pullR_eq_ok.mpr ⟨fun _ => by omega, rfl⟩
  have hattr : checkAttrs env c.sender s.info.bidAttrs = .ok () := checkAttrs_ok.mpr hat
  have hrr : bidRateR s.info = .ok rate := bidRateR_ok.mpr hrate
  have hq128 : Dec.fromU128 qs = .ok (Dec.ofNat qs) := fromU128_ok.mpr ⟨hlim.2, rfl⟩
  refine ⟨{ s with bids := s.bids.set id (.v3
              { base := ⟨base, size⟩, accBase := 0, accQuote := 0, accFee := 0, fee := fee,
                id := id, owner := c.sender, price := price, quote := ⟨quote, qs⟩ }) },
    { msgs := pullMsgs env quote (qs + feeAmt fee) c.sender,
      attrs := [("action", "create_bid"), ("base", base), ("id", id), ("price", price),
                ("quote", quote), ("quote_size", toString qs), ("size", toString size)] }, ?_⟩
  have hbne : s.info.baseDenom ≠ "" := hb ▸ hne.1
  unfold execute
  simp only [hm, ExecMsg.valid, hid]
  unfold createBid
  simp [guardR, hne, hbne, hcp, hi, hinc, ht, hfr, hq128, heqv, hrr, hrf, hfm, hq, hb, hattr, htrunc,
    hfunds, hex, hpull, hsz, hqs1]


/-- C07 converse, asks, in the form the runtime oracle evaluates on every refused request -/
theorem C07_ask_must (env : Env) (s : State) (c : Call) (id base quote price : String) (size : Nat)
    (hm : c.msg = .createAsk id base quote price size)
    (h : C07_askMustAccept env s c id base quote price size = true) :
    ∃ s' r, execute env s c = .ok (s', r) := by
  unfold C07_askMustAccept at h
  simp only [Bool.and_eq_true, bne_iff_ne, ne_eq] at h
  obtain ⟨⟨⟨⟨⟨hi, hc⟩, h1⟩, h2⟩, h3⟩, hf⟩ := h
  exact C07_ask_if env s c id base quote price size hm hi hc ⟨h1, h2, h3⟩ hf

/-- C07 converse, bids, in the form the runtime oracle evaluates on every refused request -/
theorem C07_bid_must (env : Env) (s : State) (c : Call) (id base : String) (fee : Option Coin)
    (price quote : String) (qs size : Nat)
    (hm : c.msg = .createBid id base fee price quote qs size)
    (h : C07_bidMustAccept env s c id base fee price quote qs size = true) :
    ∃ s' r, execute env s c = .ok (s', r) := by
  unfold C07_bidMustAccept at h
  simp only [Bool.and_eq_true, bne_iff_ne, ne_eq, decide_eq_true_eq] at h
  obtain ⟨⟨⟨⟨⟨⟨⟨⟨hi, hc⟩, h1⟩, h2⟩, h3⟩, hl1⟩, hl2⟩, hfit⟩, hf⟩ := h
  refine C07_bid_if env s c id base fee price quote qs size hm hi hc ⟨h1, h2, h3⟩ ⟨hl1, hl2⟩ ?_ hf
  intro rate hr
  unfold bidFeeFits at hfit
  simp only [hr, Bool.and_eq_true, decide_eq_true_eq] at hfit
  exact hfit

end Ats.Proofs
