/-
  C07 — Admission: only fully funded, well-formed orders enter the book.
-/
import AtsProofs.Inv
import AtsProofs.DecLemmas
namespace Ats.Proofs
open Ats Ats.Spec

theorem escrowOK_of {env : Env} {c : Call} {r : Response} {coin : Coin}
    (hf : fundsOk (env.restricted coin.denom) c.funds coin = true)
    (hm : r.msgs = pullMsgs env coin.denom coin.amount c.sender) :
    escrowOK env c r coin = true := by
  unfold escrowOK fundsOk pullMsgs at *
  cases hr : env.restricted coin.denom <;> simp_all

/-- C07 (asks, "only if"): a recorded ask was escrowed exactly – attached funds of exactly that
    one coin, or a single pull transfer from the sender with no attached funds for a
    restricted marker –, is well-formed in every listed respect, reproduces the request with
    the sender as owner, and did not replace an existing order -/
theorem C07_ask_only_if (env : Env) (s s' : State) (c : Call) (r : Response)
    (id base quote price : String) (size : Nat)
    (hm : c.msg = .createAsk id base quote price size)
    (h : execute env s c = .ok (s', r)) :
    C07_askOK env s c id base quote price size r s' = true := by
  unfold execute at h
  simp only [Res.bind_eq_ok, guardR_eq_ok, hm] at h
  obtain ⟨_, hv, h⟩ := h
  simp only [ExecMsg.valid, Bool.and_eq_true, decide_eq_true_eq] at hv
  obtain ⟨hb, hf, hq, _, hs, hp, hat, hex, _, rfl, hmsgs, _⟩ := createAsk_ok h
  have hesc : escrowOK env c r ⟨base, size⟩ = true := escrowOK_of hf hmsgs
  unfold C07_askOK C07_askConds
  simp only [hv.1.1.1.1, hex, hq, hp, hs, hat, hesc, Book.get?_set_eq, Bool.and_eq_true,
    Option.isNone_none, decide_eq_true_eq, Bool.or_eq_true, beq_iff_eq, beq_self_eq_true,
    and_true, true_and]
  refine ⟨⟨hb, hv.2⟩, ?_⟩
  by_cases hbb : base = s.info.baseDenom <;> simp [hbb]

theorem eqv_ofNat {t : Dec} {n : Nat} (hneg : t.neg = false) (h : Dec.eqv t (Dec.ofNat n) = true) :
    t.mant = n * 10 ^ t.scale := by
  unfold Dec.eqv Dec.num Dec.ofNat at h
  simp only [hneg, Bool.false_eq_true, if_false, Nat.pow_zero, Nat.mul_one, beq_iff_eq] at h
  exact_mod_cast h

/-- C07 (bids, "only if", under the magnitude hypothesis on price × size and rate × total):
    a recorded bid escrowed exactly price × size of quote plus the fee at the configured rate
    (rounded half away from zero, in the quote denomination), price × size is a whole number
    equal to the stated quote size, and everything else as for asks -/
theorem C07_bid_only_if (env : Env) (s s' : State) (c : Call) (r : Response)
    (id base : String) (fee : Option Coin) (price quote : String) (qs size : Nat)
    (hm : c.msg = .createBid id base fee price quote qs size)
    (hexact : ∀ p rate, Dec.parse price = some p → bidRate s.info = some rate →
        exactMul p size = true ∧ exactMul rate qs = true)
    (h : execute env s c = .ok (s', r)) :
    C07_bidOK env s c id base fee price quote qs size r s' = true := by
  unfold execute at h
  simp only [Res.bind_eq_ok, guardR_eq_ok, hm] at h
  obtain ⟨_, hv, h⟩ := h
  simp only [ExecMsg.valid, Bool.and_eq_true, decide_eq_true_eq] at hv
  obtain ⟨p, total, rate, feeSize, hp, _, hs, ht, hfr, hlim, heq, hrate, hfee, hfm, hq, hb, hat, hfu, hex,
    _, rfl, hr⟩ := createBid_ok h
  obtain ⟨hpp, _, hpn, _⟩ := checkPrice_ok.mp hp
  obtain ⟨hx1, hx2⟩ := hexact p rate hpp hrate
  have hps := Dec.parse_scale hpp
  have htn : total.neg = false := Dec.mul_nat_neg hpn (Dec.total_inv ht).2
  have htu : total.toU128 = some total.trunc := by simp [Dec.toU128, Dec.trunc, htn]
  obtain ⟨hw, hg⟩ := Dec.total_exact hps hpn hx1 ht hfr htu
  have hmant := eqv_ofNat htn heq
  have htrunc : total.trunc = qs := by
    unfold Dec.trunc; rw [hmant, Nat.mul_div_cancel _ (Dec.pow10_pos _)]
  have hrs : rate.scale ≤ 28 := by
    unfold bidRate at hrate
    cases hbf : s.info.bidFee with
    | none => simp [hbf] at hrate; subst hrate; simp [Dec.ofNat]
    | some fi => simp [hbf] at hrate; exact Dec.parse_scale hrate
  have hadm := Dec.rateFee_exact hrs hmant htn hx2 hfee
  have hesc : escrowOK env c r ⟨quote, qs + feeAmt fee⟩ = true := by
    apply escrowOK_of
    · rw [htrunc] at hfu; exact hfu
    · rw [hr]
  unfold C07_bidOK C07_bidConds
  simp only [hv.1.1.1.1.1, hex, hb, hq, checkPrice_priceOK hp, hs, hat, hpp, hrate, hw, hadm, hesc,
    Book.get?_set_eq, Bool.and_eq_true, Option.isNone_none, decide_eq_true_eq, beq_iff_eq,
    beq_self_eq_true, and_true, true_and]
  refine ⟨hv.2, ⟨by rw [← hg, htrunc], hv.1.2⟩, ?_⟩
  unfold feeMatches at hfm
  cases fee <;> simp_all

end Ats.Proofs
