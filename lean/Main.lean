/-
  atsdrv — reads the harness's trace on stdin, prints verdict lines.
-/
import Ats.Driver
open Ats Ats.Driver Ats.Wire

def parseLine (d : DState) (line : String) : Except String DState :=
  let ts := (line.splitOn " ").filter (· != "")
  match ts with
  | [] => .ok d
  | tag :: rest =>
    let p := d.pend
    let bad : Except String DState := .error ("bad line: " ++ line)
    match tag with
    | "H" =>
      .ok { d with hist := String.intercalate " " rest, step := 0, st := none,
                   shadow := ⟨[], []⟩, feeTracked := true, tainted := false, startSane := false, lastMig := none, pend := {}, roles := none, carried := [], expect := [] }
    | "E" =>
      match run (do
          let contract ← str
          let restricted ← list str
          let attrs ← opt (list str)
          let invalid ← list str
          let pkg ← str
          let crate ← str
          pure ({ contract, restricted, attrs, invalid, pkg, crate } : EnvData)) rest with
      | some e => .ok { d with pend := { p with env := e } }
      | none => bad
    | "CI" => match run instMsg rest with
      | some m => .ok { d with pend := { p with call := some (.inst m) } }
      | none => bad
    | "CX" | "CP" | "CT" =>
      match run (do
          let sender ← str
          let funds ← list coin
          let m ← execMsg
          pure ({ sender, funds, msg := m } : Call)) rest with
      | some c => .ok { d with pend := { p with call := some (if tag == "CX" then .exec c else if tag == "CT" then .attempt c else .probe c) } }
      | none => bad
    | "CU" =>
      match run (do
          let sender ← str
          let funds ← list coin
          let name ← str
          let _ ← str
          pure (CallKind.other sender funds name)) rest with
      | some c => .ok { d with pend := { p with call := some c } }
      | none => bad
    | "CM" => match run migMsg rest with
      | some m => .ok { d with pend := { p with call := some (.mig m) } }
      | none => bad
    | "CQ" => match run queryMsg rest with
      | some q => .ok { d with pend := { p with call := some (.query q) } }
      | none => bad
    | "R" => match rest with
      | [r] => .ok { d with pend := { p with res := some r } }
      | _ => bad
    | "M" => match run msg rest with
      | some m => .ok { d with pend := { p with msgs := p.msgs ++ [m] } }
      | none => bad
    | "T" => match run (do let k ← str; let v ← str; pure (k, v)) rest with
      | some kv => .ok { d with pend := { p with attrs := p.attrs ++ [kv] } }
      | none => bad
    | "QA" => match run ask rest with
      | some a => .ok { d with pend := { p with qout := some (.ask a) } }
      | none => bad
    | "QB" => match run bid3 rest with
      | some b => .ok { d with pend := { p with qout := some (.bid b) } }
      | none => bad
    | "QI" => match run info rest with
      | some i => .ok { d with pend := { p with qout := some (.info i) } }
      | none => bad
    | "QV" => match run (do let a ← str; let b ← str; pure (⟨a, b⟩ : VersionInfo)) rest with
      | some v => .ok { d with pend := { p with qout := some (.version v) } }
      | none => bad
    | "QS" => .ok { d with pend := { p with storageSame := rest == ["same"] } }
    | "DA" => match run (do let k ← str; let a ← ask; pure (Delta.setAsk k a)) rest with
      | some x => .ok { d with pend := { p with deltas := p.deltas ++ [x] } }
      | none => bad
    | "XA" => match run str rest with
      | some k => .ok { d with pend := { p with deltas := p.deltas ++ [.delAsk k] } }
      | none => bad
    | "DB3" => match run (do let k ← str; let b ← bid3; pure (Delta.setBid k (.v3 b))) rest with
      | some x => .ok { d with pend := { p with deltas := p.deltas ++ [x] } }
      | none => bad
    | "DB2" => match run (do let k ← str; let b ← bid2; pure (Delta.setBid k (.v2 b))) rest with
      | some x => .ok { d with pend := { p with deltas := p.deltas ++ [x] } }
      | none => bad
    | "XB" => match run str rest with
      | some k => .ok { d with pend := { p with deltas := p.deltas ++ [.delBid k] } }
      | none => bad
    | "DI" => match run info rest with
      | some i => .ok { d with pend := { p with deltas := p.deltas ++ [.setInfo i] } }
      | none => bad
    | "DV" => match run (do let a ← str; let b ← str; pure (⟨a, b⟩ : VersionInfo)) rest with
      | some v => .ok { d with pend := { p with deltas := p.deltas ++ [.setVersion v] } }
      | none => bad
    | "DU" => match run str rest with
      | some k => .ok { d with pend := { p with deltas := p.deltas ++ [.unknown k] } }
      | none => bad
    | _ => bad

/-! ### unit-level streams: recompute one primitive with the model's definition -/

def decOf (neg m sc : Nat) : Dec := ⟨neg == 1, m, sc⟩

/-- `some true` agrees, `some false` disagrees, `none` = outside the model's domain / bad line -/
def unitCheck (tag : String) (rest : List String) : Option Bool :=
  match tag, rest with
  | "UDP", [s, "bad"] =>
    (decodeStr s).bind fun str =>
      match Dec.parseFull str with
      | .unmodelled => none
      | .bad => some true
      | .ok _ => some false
  | "UDP", [s, "ok", neg, m, sc] =>
    match decodeStr s, neg.toNat?, m.toNat?, sc.toNat? with
    | some str, some neg, some m, some sc =>
      (match Dec.parseFull str with
       | .unmodelled => none
       | .bad => some false
       | .ok d => some (d == decOf neg m sc))
    | _, _, _, _ => none
  | "UDM", n1 :: m1 :: s1 :: n2 :: m2 :: s2 :: out =>
    match n1.toNat?, m1.toNat?, s1.toNat?, n2.toNat?, m2.toNat?, s2.toNat? with
    | some n1, some m1, some s1, some n2, some m2, some s2 =>
      let r := Dec.mul (decOf n1 m1 s1) (decOf n2 m2 s2)
      (match out, r with
       | ["ovf"], none => some true
       | ["ok", n, m, sc], some d =>
         (match n.toNat?, m.toNat?, sc.toNat? with
          | some n, some m, some sc =>
            let e := decOf n m sc
            some (Dec.eqv d e && (d.mant == 0 || d.neg == e.neg))
          | _, _, _ => none)
       | _, _ => some false)
    | _, _, _, _, _, _ => none
  | "UFF", [f, qt, q, out] =>
    match f.toNat?, qt.toNat?, q.toNat? with
    | some f, some qt, some q =>
      (match Dec.feeFor f qt q, out with
       | .err .panic, "panic" => some true
       | .err .totalOverflow, "ovf" => some true
       | .ok n, o => some (o.toNat? == some n)
       | _, _ => some false)
    | _, _, _ => none
  | "UFM", [f, qt, q1, q2, n1, n2] =>
    match f.toNat?, qt.toNat?, q1.toNat?, q2.toNat?, n1.toNat?, n2.toNat? with
    | some f, some qt, some q1, some q2, some n1, some n2 =>
      (match Dec.feeFor f qt q1, Dec.feeFor f qt q2 with
       | .ok m1, .ok m2 => some (m1 == n1 && m2 == n2 && decide (n1 ≤ n2))
       | _, _ => some false)
    | _, _, _, _, _, _ => none
  | "URF", [rate, amount, out] =>
    match decodeStr rate, amount.toNat? with
    | some r, some a =>
      (match Dec.parse r with
       | some rd =>
         (match Dec.rateFee rd (Dec.ofNat a), out with
          | .err _, "ovf" => some true
          | .ok n, o => some (o.toNat? == some n)
          | _, _ => some false)
       | none => none)
    | _, _ => none
  | "UBP", [price, prec, out] =>
    match decodeStr price, prec.toNat? with
    | some p, some k =>
      (match Dec.parseFull p with
       | .ok d =>
         (match Dec.badPrecision d k, out with
          | none, "panic" => some true
          | some true, "1" => some true
          | some false, "0" => some true
          | _, _ => some false)
       | _ => none)
    | _, _ => none
  | "UUI", [s, canon, anyf] =>
    (decodeStr s).map fun str =>
      (isCanonicalUuid str == (canon == "1")) && (isUuidAnyForm str == (anyf == "1"))
  | "USV", [s, "bad"] => (decodeStr s).map fun str => (Version.parse str).isNone
  | "USV", [s, "ok", a, b, c, d] =>
    (decodeStr s).map fun str =>
      match Version.parse str with
      | none => false
      | some v =>
        (v.geReq 0 16 2 == (a == "1")) && (v.geReq 0 15 0 == (b == "1")) &&
        (v.ltReq 0 16 2 == (c == "1")) && ((v.geReq 0 16 2 && v.ltReq 0 19 1) == (d == "1"))
  | _, _ => none

/-- `CS`: the pending deltas are a seeded initial state -/
def seed (d : DState) : DState :=
  let s := d.pend.deltas.foldl applyDelta emptyState
  let sh : Spec.Shadow :=
    ⟨s.asks.map (fun kv => (kv.1, kv.2.size, Spec.shadowCls kv.2.cls)),
     s.bids.filterMap (fun kv => match kv.2 with | .v3 b => some (kv.1, b.remBase) | .v2 _ => none)⟩
  { d with st := some s, shadow := sh, feeTracked := Spec.feeExact s, tainted := false, startSane := Spec.sane s, pend := {},
           roles := some (s.info.approvers, s.info.executors) }

partial def loop (h : IO.FS.Stream) (out : IO.FS.Stream) (d : DState) : IO DState := do
  let line ← h.getLine
  if line.isEmpty then return d
  let line := (line.trimAscii).toString
  if line == "Z" then
    let (v, d') := judge d
    let tag := d.hist ++ " " ++ toString d.step
    let realDiffs := v.diffs.filter (·.1 != "UNMODELLED")
    for (what, props) in v.diffs do
      if what == "UNMODELLED" then out.putStrLn ("UNMODELLED " ++ tag)
      else out.putStrLn ("DIFF " ++ tag ++ " what=" ++ what ++ " props=" ++ String.intercalate "," props)
    for (prop, what) in v.fails do
      out.putStrLn ("FAIL " ++ tag ++ " prop=" ++ prop ++ " what=" ++ what)
    let evals := v.evald.foldl bump d'.evals
    let clean := realDiffs.isEmpty && v.fails.isEmpty
    loop h out { d' with step := d.step + 1, pend := { env := d.pend.env }, steps := d'.steps + 1,
                          oks := d'.oks + (if clean then 1 else 0),
                          diffs := d'.diffs + realDiffs.length, fails := d'.fails + v.fails.length,
                          evals := evals }
  else if line == "CS" then
    loop h out (seed d)
  else if line.startsWith "U" then
    let ts := (line.splitOn " ").filter (· != "")
    match ts with
    | tag :: rest =>
      match unitCheck tag rest with
      | some true => loop h out { d with evals := bump d.evals ("unit:" ++ tag) }
      | some false =>
        out.putStrLn ("UFAIL " ++ line)
        loop h out { d with evals := bump d.evals ("unit:" ++ tag), fails := d.fails + 1 }
      | none => loop h out { d with evals := bump d.evals ("unit-skipped:" ++ tag) }
    | [] => loop h out d
  else
    match parseLine d line with
    | .ok d' => loop h out d'
    | .error e =>
      out.putStrLn ("PARSEERROR " ++ d.hist ++ " " ++ toString d.step ++ " " ++ e)
      loop h out d

def main : IO Unit := do
  let stdin ← IO.getStdin
  let stdout ← IO.getStdout
  let d ← loop stdin stdout {}
  stdout.putStrLn s!"SUMMARY steps={d.steps} ok={d.oks} diff={d.diffs} fail={d.fails} unmodelled={d.unmodelled}"
  for (k, n) in d.evals do
    stdout.putStrLn s!"EVAL {k} {n}"
