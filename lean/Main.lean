/-
  atsdrv — reads the harness's trace on stdin, prints verdict lines.
-/
import Ats.Driver
open Ats Ats.Driver Ats.Wire

def parseLine (d : DState) (line : String) : Except String DState :=
  let ts := (line.splitOn " ").filter (· != "")
  match ts with
  | [] => .ok d
  | tag :: rest =>
    let p := d.pend
    let bad : Except String DState := .error ("bad line: " ++ line)
    match tag with
    | "H" =>
      .ok { d with hist := String.intercalate " " rest, step := 0, st := none,
                   shadow := ⟨[], []⟩, feeTracked := true, lastMig := none, pend := {} }
    | "E" =>
      match run (do
          let contract ← str
          let restricted ← list str
          let attrs ← opt (list str)
          let invalid ← list str
          let pkg ← str
          let crate ← str
          pure ({ contract, restricted, attrs, invalid, pkg, crate } : EnvData)) rest with
      | some e => .ok { d with pend := { p with env := e } }
      | none => bad
    | "CI" => match run instMsg rest with
      | some m => .ok { d with pend := { p with call := some (.inst m) } }
      | none => bad
    | "CX" | "CP" =>
      match run (do
          let sender ← str
          let funds ← list coin
          let m ← execMsg
          pure ({ sender, funds, msg := m } : Call)) rest with
      | some c => .ok { d with pend := { p with call := some (if tag == "CX" then .exec c else .probe c) } }
      | none => bad
    | "CM" => match run migMsg rest with
      | some m => .ok { d with pend := { p with call := some (.mig m) } }
      | none => bad
    | "CQ" => match run queryMsg rest with
      | some q => .ok { d with pend := { p with call := some (.query q) } }
      | none => bad
    | "R" => match rest with
      | [r] => .ok { d with pend := { p with res := some r } }
      | _ => bad
    | "M" => match run msg rest with
      | some m => .ok { d with pend := { p with msgs := p.msgs ++ [m] } }
      | none => bad
    | "T" => match run (do let k ← str; let v ← str; pure (k, v)) rest with
      | some kv => .ok { d with pend := { p with attrs := p.attrs ++ [kv] } }
      | none => bad
    | "QA" => match run ask rest with
      | some a => .ok { d with pend := { p with qout := some (.ask a) } }
      | none => bad
    | "QB" => match run bid3 rest with
      | some b => .ok { d with pend := { p with qout := some (.bid b) } }
      | none => bad
    | "QI" => match run info rest with
      | some i => .ok { d with pend := { p with qout := some (.info i) } }
      | none => bad
    | "QV" => match run (do let a ← str; let b ← str; pure (⟨a, b⟩ : VersionInfo)) rest with
      | some v => .ok { d with pend := { p with qout := some (.version v) } }
      | none => bad
    | "QS" => .ok { d with pend := { p with storageSame := rest == ["same"] } }
    | "DA" => match run (do let k ← str; let a ← ask; pure (Delta.setAsk k a)) rest with
      | some x => .ok { d with pend := { p with deltas := p.deltas ++ [x] } }
      | none => bad
    | "XA" => match run str rest with
      | some k => .ok { d with pend := { p with deltas := p.deltas ++ [.delAsk k] } }
      | none => bad
    | "DB3" => match run (do let k ← str; let b ← bid3; pure (Delta.setBid k (.v3 b))) rest with
      | some x => .ok { d with pend := { p with deltas := p.deltas ++ [x] } }
      | none => bad
    | "DB2" => match run (do let k ← str; let b ← bid2; pure (Delta.setBid k (.v2 b))) rest with
      | some x => .ok { d with pend := { p with deltas := p.deltas ++ [x] } }
      | none => bad
    | "XB" => match run str rest with
      | some k => .ok { d with pend := { p with deltas := p.deltas ++ [.delBid k] } }
      | none => bad
    | "DI" => match run info rest with
      | some i => .ok { d with pend := { p with deltas := p.deltas ++ [.setInfo i] } }
      | none => bad
    | "DV" => match run (do let a ← str; let b ← str; pure (⟨a, b⟩ : VersionInfo)) rest with
      | some v => .ok { d with pend := { p with deltas := p.deltas ++ [.setVersion v] } }
      | none => bad
    | "DU" => match run str rest with
      | some k => .ok { d with pend := { p with deltas := p.deltas ++ [.unknown k] } }
      | none => bad
    | _ => bad

/-- `CS`: the pending deltas are a seeded initial state -/
def seed (d : DState) : DState :=
  let s := d.pend.deltas.foldl applyDelta emptyState
  let sh : Spec.Shadow :=
    ⟨s.asks.map (fun kv => (kv.1, kv.2.size, Spec.shadowCls kv.2.cls)),
     s.bids.filterMap (fun kv => match kv.2 with | .v3 b => some (kv.1, b.remBase) | .v2 _ => none)⟩
  { d with st := some s, shadow := sh, feeTracked := Spec.feeExact s, pend := {} }

partial def loop (h : IO.FS.Stream) (out : IO.FS.Stream) (d : DState) : IO DState := do
  let line ← h.getLine
  if line.isEmpty then return d
  let line := (line.trimAscii).toString
  if line == "Z" then
    let (v, d') := judge d
    let tag := d.hist ++ " " ++ toString d.step
    let realDiffs := v.diffs.filter (·.1 != "UNMODELLED")
    for (what, props) in v.diffs do
      if what == "UNMODELLED" then out.putStrLn ("UNMODELLED " ++ tag)
      else out.putStrLn ("DIFF " ++ tag ++ " what=" ++ what ++ " props=" ++ String.intercalate "," props)
    for (prop, what) in v.fails do
      out.putStrLn ("FAIL " ++ tag ++ " prop=" ++ prop ++ " what=" ++ what)
    let evals := v.evald.foldl bump d'.evals
    let clean := realDiffs.isEmpty && v.fails.isEmpty
    loop h out { d' with step := d.step + 1, pend := { env := d.pend.env }, steps := d'.steps + 1,
                          oks := d'.oks + (if clean then 1 else 0),
                          diffs := d'.diffs + realDiffs.length, fails := d'.fails + v.fails.length,
                          evals := evals }
  else if line == "CS" then
    loop h out (seed d)
  else
    match parseLine d line with
    | .ok d' => loop h out d'
    | .error e =>
      out.putStrLn ("PARSEERROR " ++ d.hist ++ " " ++ toString d.step ++ " " ++ e)
      loop h out d

def main : IO Unit := do
  let stdin ← IO.getStdin
  let stdout ← IO.getStdout
  let d ← loop stdin stdout {}
  stdout.putStrLn s!"SUMMARY steps={d.steps} ok={d.oks} diff={d.diffs} fail={d.fails} unmodelled={d.unmodelled}"
  for (k, n) in d.evals do
    stdout.putStrLn s!"EVAL {k} {n}"
