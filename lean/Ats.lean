import Ats.Basic
import Ats.Dec
import Ats.Ids
import Ats.Types
import Ats.Contract
import Ats.Wire
import Ats.Spec
import Ats.Driver
